"""E7: external API resolver (liveness against the installed environment).

Only third-party libraries the repository is built against are imported, and
only to ask "does this attribute exist / which literals does this keyword
accept" - the role type stubs play for a type checker.  Nothing from
/repo/sedfitter is imported."""
import ast
import importlib
import warnings

from .astutil import chain, walk_local, up, const

_cache = {}


def _import(name):
    if name in _cache:
        return _cache[name]
    try:
        with warnings.catch_warnings():
            warnings.simplefilter('ignore')
            m = importlib.import_module(name)
    except Exception as e:     # ImportError and friends
        m = e
    _cache[name] = m
    return m


def resolve_dotted(dotted):
    """(True, object) if ``dotted`` resolves in the installed environment, else (False, reason)."""
    parts = dotted.split('.')
    obj = None
    used = 0
    for i in range(len(parts), 0, -1):
        m = _import('.'.join(parts[:i]))
        if not isinstance(m, Exception):
            obj, used = m, i
            break
    if obj is None:
        return False, 'module %s cannot be imported' % parts[0]
    for j in range(used, len(parts)):
        try:
            with warnings.catch_warnings():
                warnings.simplefilter('ignore')
                obj = getattr(obj, parts[j])
        except AttributeError:
            return False, '%s has no attribute %r' % ('.'.join(parts[:j]), parts[j])
        except Exception as e:
            return False, 'accessing %s raised %s' % ('.'.join(parts[:j + 1]), type(e).__name__)
    return True, obj


STDLIB_SKIP = {'__future__'}


def module_chains(module):
    """External attribute chains used in a repo module:
    [(dotted external name, node, enclosing function name, optional?)]."""
    out = []
    ext = {a: t[1] for a, t in module.imports.items() if t[0] == 'ext'}

    def scan(root, fname, shadow):
        for n in walk_local(root):
            if isinstance(n, (ast.FunctionDef, ast.ClassDef)) and n is not root:
                sh = set(shadow)
                if isinstance(n, ast.FunctionDef):
                    a = n.args
                    sh |= {x.arg for x in a.args + a.kwonlyargs + a.posonlyargs}
                    for m in walk_local(n):
                        if isinstance(m, ast.Name) and isinstance(m.ctx, ast.Store):
                            sh.add(m.id)
                        elif isinstance(m, (ast.Import, ast.ImportFrom)):
                            pass
                scan_body(n, (fname + '.' if fname else '') + n.name, sh)
                continue
        return

    def scan_body(node, fname, shadow):
        # collect maximal chains in this scope, then recurse into nested defs
        seen_inner = set()
        for n in walk_local(node):
            if n is node:
                continue
            if isinstance(n, ast.Attribute) and id(n) not in seen_inner:
                c = chain(n)
                if c:
                    for m in ast.walk(n):
                        seen_inner.add(id(m))
                    rootn = c.split('.')[0]
                    if rootn in ext and rootn not in shadow:
                        out.append((ext[rootn] + c[len(rootn):], n, fname, rootn in module.optional_imports))
            elif isinstance(n, ast.Name) and id(n) not in seen_inner and isinstance(n.ctx, ast.Load):
                if n.id in ext and n.id not in shadow and '.' in ext[n.id]:
                    out.append((ext[n.id], n, fname, n.id in module.optional_imports))
        for n in walk_local(node):
            if n is not node and isinstance(n, (ast.FunctionDef, ast.ClassDef)):
                pass
        # nested definitions
        for n in ast.iter_child_nodes(node):
            _descend(n, fname, shadow)

    def _descend(n, fname, shadow):
        if isinstance(n, ast.FunctionDef):
            a = n.args
            sh = set(shadow) | {x.arg for x in a.args + a.kwonlyargs + a.posonlyargs}
            for m in walk_local(n):
                if isinstance(m, ast.Name) and isinstance(m.ctx, ast.Store):
                    sh.add(m.id)
            scan_body(n, (fname + '.' if fname else '') + n.name, sh)
        elif isinstance(n, ast.ClassDef):
            scan_body(n, (fname + '.' if fname else '') + n.name, shadow)
        else:
            for c in ast.iter_child_nodes(n):
                _descend(c, fname, shadow)

    scan_body(module.tree, '', set())
    # "from X import y" names themselves
    for n in ast.walk(module.tree):
        if isinstance(n, ast.ImportFrom) and not n.level and n.module and n.module.split('.')[0] not in STDLIB_SKIP \
                and n.module.split('.')[0] != 'sedfitter':
            for a in n.names:
                if a.name != '*':
                    out.append((n.module + '.' + a.name, n, '<import>', (a.asname or a.name) in module.optional_imports))
        elif isinstance(n, ast.Import):
            for a in n.names:
                out.append((a.name, n, '<import>', (a.asname or a.name.split('.')[0]) in module.optional_imports))
    return out


# ---- API-2 literal domains of keyword arguments ---------------------------------

def literal_domains():
    """{(dotted callee, keyword): (set of accepted literals, source of the domain)}"""
    doms = {}
    ok, core = resolve_dotted('astropy.units.core._WARNING_ACTIONS')
    if ok:
        try:
            doms[('astropy.units.Unit', 'parse_strict')] = (set(core), 'astropy.units.core._WARNING_ACTIONS')
        except TypeError:
            pass
    if ('astropy.units.Unit', 'parse_strict') not in doms:
        doms[('astropy.units.Unit', 'parse_strict')] = ({'silent', 'warn', 'raise'}, 'frozen: astropy >= 4 documentation of Unit(parse_strict=)')
    return doms


def keyword_literal_sites(module):
    """[(dotted callee, keyword, literal value, Call node, function)] for calls to external callees with constant keywords."""
    ext = {a: t[1] for a, t in module.imports.items() if t[0] == 'ext'}
    out = []
    for fn in [n for n in ast.walk(module.tree) if isinstance(n, ast.FunctionDef)] + [module.tree]:
        for c in walk_local(fn):
            if isinstance(c, ast.Call):
                cn = chain(c.func)
                if cn and cn.split('.')[0] in ext:
                    dotted = ext[cn.split('.')[0]] + cn[len(cn.split('.')[0]):]
                    for k in c.keywords:
                        if k.arg and isinstance(k.value, ast.Constant):
                            out.append((dotted, k.arg, k.value.value, c, getattr(fn, 'name', '<module>')))
    return out
