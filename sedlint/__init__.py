"""sedlint: repository-specific static analysis for astrofrog/sedfitter.

Pure standard library.  Nothing under /repo/sedfitter is imported or executed;
every check parses the working tree with ``ast`` and decides obligations by
rule.  See /verif/DESIGN.md.
"""
