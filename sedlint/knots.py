"""Interpolation on a table of a few knots, decided region by region.

A value that is looked up in a table (apertures, wavelengths) touches the knots only through comparisons: with n strictly increasing knots
a_0 < ... < a_{n-1} a request q lies in one of finitely many regions (on a knot, strictly between two neighbours, above the last one, below the first
one).  In each region every bracket that compares q, the knots, and the table's min / max is decided, scipy's / numpy's interpolation atoms unfold to
the segment they use, and what is left is a rational expression in q, the knots and the tabulated values - compared with the definition of linear
interpolation for that region as polynomials.  So a look-up written by hand (loops over segments, searchsorted, masks) is decided the same way as one
that calls the library, whichever way it is spelled."""
from . import alg
from .alg import Poly, P, B, mk_fn, mk_ind, index_at, rebuild, OrderFacts

num = Poly.const


def regions(n, below=False):
    """(name, kind, k) for a request relative to n increasing knots"""
    out = []
    if below:
        out.append(('below the first knot', 'below', 0))
    for k in range(n):
        out.append(('on knot %d' % k, 'at', k))
        if k + 1 < n:
            out.append(('between knots %d and %d' % (k, k + 1), 'in', k))
    out.append(('above the last knot', 'above', n - 1))
    return out


def knot(p, label, k):
    return index_at(p, label, num(k))


def linear_ref(kind, k, q, knots, table, label, n):
    """the definition: the tabulated value on a knot, the chord between neighbours, (for 'above': the last value - the clamp the callers promise)"""
    if kind == 'at':
        return knot(table, label, k)
    if kind == 'above':
        return knot(table, label, n - 1)
    if kind == 'in':
        a0, a1, v0, v1 = knot(knots, label, k), knot(knots, label, k + 1), knot(table, label, k), knot(table, label, k + 1)
        return v0 + (v1 - v0) * (q - a0) * (a1 - a0).pow(-1)
    raise ValueError(kind)


class Region:
    """one region for each request: requests = [(q, kind, k)] with q a polynomial (a symbol of the analysis or a constant of the code)"""
    def __init__(self, q, knots, label, n, kind=None, k=None, qlabel=None, requests=None):
        if requests is None:
            requests = [(q, kind, k)]
        self.q, self.knots, self.label, self.n, self.qlabel = requests[0][0], knots, label, n, qlabel
        self.kind, self.k = requests[0][1], requests[0][2]
        self.pts = [knot(knots, label, j) for j in range(n)]
        ranks = [2 * j + 1 for j in range(n)]
        self.substs = []          # (atom, replacement): a request on a knot is that knot
        self.subst = None
        pts = list(self.pts)
        for rq, kd, kk in requests:
            if kd != 'at':
                continue
            sol = _solve_for(rq, self.pts[kk], lambda a_: a_[0] == 'sym' and not str(a_[1]).startswith('unit:'))
            if sol is not None:
                self.substs.append(sol)          # the request (a symbol of the analysis, possibly scaled by units) is that knot
                if rq is self.q:
                    self.subst = self.pts[kk]
            else:
                sol = _solve_for(self.pts[kk], rq, lambda a_: a_[0] == 'fn' and a_[1] == 'at')
                if sol is None:
                    raise ValueError('request %s cannot be placed on a knot' % alg.show(rq, 60))
                self.substs.append(sol)          # a constant request: the knot has that value
                pts[kk] = rq
        self.val = {}
        self.val.update(OrderFacts(pts, ranks).val)
        for rq, kd, kk in requests:
            if kd == 'at':
                continue
            r_ = {'in': 2 * kk + 2, 'above': 2 * n + 1, 'below': 0}[kd]
            self.val.update(OrderFacts([rq] + pts, [r_] + ranks).val)
        self.O = self
        self.oob, self._watch = [], False

    def simplify(self, p):
        for at_, rep in self.substs:
            p = rebuild(p, lambda a, at_=at_, rep=rep: rep if a == at_ else None)
        # first the selections (brackets that the region decides as they stand): what a mask or a test leaves out is not evaluated, so it must not be
        # looked at for positions outside the table; then everything else
        p = rebuild(p, self._f_brackets)
        self.pending = alg.contains_atom(p, lambda a: a[0] == 'ind')          # selections not decided yet: what they guard may or may not be evaluated
        self.oob = []
        self._watch = True
        try:
            return rebuild(p, self._f)
        finally:
            self._watch = False

    def _f_brackets(self, a):
        for at_, rep in self.substs:
            if a == at_:
                return rep
        if a in self.val:
            return num(self.val[a])
        if a[0] == 'ind':
            return self._ind(a)
        if a[0] == 'fn' and a[1] in ('max', 'min') and len(a) == 3 and a[2][0] == 'B' and a[2][1] == self.label:
            return self._f(a)
        if a[0] == 'fn' and a[1] in ('any', 'all') and len(a) == 3 and a[2][0] == 'B' and a[2][1] == self.qlabel:
            inner = Poly.from_key(a[2][2])
            if inner.is_const():
                return inner
        return None

    # ---- atom rules
    def _f(self, a):
        for at_, rep in self.substs:
            if a == at_:
                return rep
        if a in self.val:
            return num(self.val[a])
        if a[0] == 'ind':
            return self._ind(a)
        if a[0] != 'fn':
            return None
        if a[1] == 'at' and len(a) == 4 and a[2][0] == 'B' and a[2][1] == self.label and a[3][0] == 'P':
            ix = Poly.from_key(a[3][1])
            inner_at = _single_atom(Poly.from_key(a[2][2]))
            if inner_at is not None and inner_at[0] == 'fn' and inner_at[1] == 'argsort' and len(inner_at) == 4 and inner_at[2] == ('L', self.label) \
                    and inner_at[3][0] == 'B' and inner_at[3][1] == self.label and ix.is_const() and ix.const_value().denominator == 1 and 0 <= ix.const_value() < self.n:
                # argsort of values that the region's ordering puts in strictly increasing order is the identity
                es = [self.simplify_inner(index_at(Poly.from_key(inner_at[3][2]), self.label, num(j))) for j in range(self.n)]
                if all(self.simplify_inner(mk_ind('<0', es[j] - es[j + 1])) == num(1) for j in range(self.n - 1)):
                    return ix
                return None
            if getattr(self, '_watch', False) and ix.is_const() and ix.const_value().denominator == 1 and not -self.n <= ix.const_value() < self.n:
                self.oob.append(int(ix.const_value()))          # numpy raises IndexError
            if ix.is_const() and ix.const_value().denominator == 1 and -self.n <= ix.const_value() < 0:
                return self.simplify_inner(index_at(Poly.from_key(a[2][2]), self.label, num(int(ix.const_value()) + self.n)))          # counted from the end
            return None
        if a[1] == 'searchsorted' and len(a) in (4, 5) and a[2][0] == 'B' and a[2][1] == self.label and a[3][0] == 'P':
            # the number of knots below the request (side='left') / not above it (side='right')
            side = a[4][1] if len(a) == 5 and a[4][0] == 'C' else 'left'
            x = Poly.from_key(a[3][1])
            ks = [self.simplify_inner(index_at(Poly.from_key(a[2][2]), self.label, num(j))) for j in range(self.n)]
            tot = Poly()
            for kj in ks:
                tot = tot + (mk_ind('<0', kj - x) if 'right' not in str(side) else (num(1) - mk_ind('<0', x - kj)))
            r = self.simplify_inner(tot)
            return r if r.is_const() else None
        if a[1] in ('max', 'min') and len(a) == 3 and a[2][0] == 'B' and a[2][1] == self.label:
            es = [self.simplify_inner(index_at(Poly.from_key(a[2][2]), self.label, num(j))) for j in range(self.n)]
            for j, e in enumerate(es):
                others = [x for i, x in enumerate(es) if i != j]
                tests = [self.simplify_inner(mk_ind('<0', (e - x) if a[1] == 'max' else (x - e))) for x in others]          # e < x (max) / x < e (min): must all be false
                if all(t == Poly() for t in tests):
                    return e
            return None
        if a[1] == 'lininterp' and len(a) == 5 and a[2][0] == 'P' and a[3][0] == 'B' and a[3][1] == self.label and a[4][0] == 'B' and a[4][1] == self.label:
            x = Poly.from_key(a[2][1])
            kn, tb = Poly.from_key(a[3][2]), Poly.from_key(a[4][2])
            ks = [self.simplify_inner(index_at(kn, self.label, num(j))) for j in range(self.n)]
            vs = [self.simplify_inner(index_at(tb, self.label, num(j))) for j in range(self.n)]
            out = Poly()
            for j in range(self.n - 1):
                inside = (num(1) - mk_ind('<0', x - ks[j])) * mk_ind('<0', x - ks[j + 1])
                out = out + inside * (vs[j] + (vs[j + 1] - vs[j]) * (x - ks[j]) * (ks[j + 1] - ks[j]).pow(-1))
            out = out + mk_ind('==0', x - ks[-1]) * vs[-1]
            outside = mk_ind('<0', x - ks[0]) + mk_ind('<0', ks[-1] - x)
            r = self.simplify_inner(out)
            if self.simplify_inner(outside) == Poly():
                return r
            return None          # outside the table (scipy raises / numpy holds the end value): not unfolded
        if a[1] == 'interp' and len(a) >= 5 and a[2][0] == 'P' and a[3][0] == 'B' and a[3][1] == self.label and a[4][0] == 'B' and a[4][1] == self.label \
                and all(x[0] == 'C' and isinstance(x[1], str) and x[1].split('=')[0] in ('left', 'right') for x in a[5:]):
            # np.interp: linear between the knots, the end values (or left= / right=) beyond them
            x = Poly.from_key(a[2][1])
            ks = [self.simplify_inner(index_at(Poly.from_key(a[3][2]), self.label, num(j))) for j in range(self.n)]
            vs = [self.simplify_inner(index_at(Poly.from_key(a[4][2]), self.label, num(j))) for j in range(self.n)]
            ends = {'left': vs[0], 'right': vs[-1]}
            for x_ in a[5:]:
                nm, val = x_[1].split('=', 1)
                try:
                    from fractions import Fraction
                    ends[nm] = num(Fraction(val))
                except ValueError:
                    return None
            out = mk_ind('<0', x - ks[0]) * ends['left'] + mk_ind('<0', ks[-1] - x) * ends['right'] + mk_ind('==0', x - ks[-1]) * vs[-1]
            for j in range(self.n - 1):
                inside = (num(1) - mk_ind('<0', x - ks[j])) * mk_ind('<0', x - ks[j + 1])
                out = out + inside * (vs[j] + (vs[j + 1] - vs[j]) * (x - ks[j]) * (ks[j + 1] - ks[j]).pow(-1))
            return self.simplify_inner(out)
        if a[1] in ('any', 'all') and len(a) == 3 and a[2][0] == 'B' and a[2][1] == self.qlabel:
            inner = Poly.from_key(a[2][2])
            if inner.is_const():
                return inner          # every request lies in the region looked at
        return None

    def _ind(self, a):
        # a bracket on a decided difference divided by units (positive factors): [x/U - 11/20 < 0] is [x - 11/20 U < 0]
        p = Poly.from_key(a[2])
        worst = {}
        for m, c in p.t.items():
            for at_, e in m:
                if at_[0] == 'sym' and str(at_[1]).startswith('unit:') and e < 0:
                    worst[at_] = min(worst.get(at_, 0), e)
        if not worst:
            return None
        for at_, e in worst.items():
            p = p * Poly.atom(at_).pow(-e)
        q = mk_ind(a[1], p)
        if q.is_const():
            return q
        r = rebuild(q, lambda b: num(self.val[b]) if b in self.val else None)
        return r if r.is_const() else None

    def simplify_inner(self, p):
        return rebuild(p, self._f)


def _solve_for(m, value, is_var):
    """m = c * x * (other factors) with x the one atom is_var accepts, to the first power: (x, value / (c * other factors)) so that m == value"""
    if not m.is_monomial():
        return None
    (mono, c), = m.t.items()
    xs = [(a, e) for a, e in mono if is_var(a)]
    if len(xs) != 1 or xs[0][1] != 1:
        return None
    rest = Poly.const(c)
    for a, e in mono:
        if a != xs[0][0]:
            rest = rest * Poly.atom(a).pow(e)
    return xs[0][0], value * rest.pow(-1)


def _single_atom(p):
    if p.is_monomial():
        (m, c), = p.t.items()
        if c == 1 and len(m) == 1 and m[0][1] == 1:
            return m[0][0]
    return None


def substitute(p, q, val):
    """replace the atom of the request by a knot"""
    (m, c), = q.t.items()
    qa = m[0][0]
    return rebuild(p, lambda a: val if a == qa else None)


def equal(a, b):
    d = a - b
    if d == Poly():
        return True
    try:
        r = alg.is_zero(alg.clear_denominators(d)); return r[0] if isinstance(r, tuple) else bool(r)
    except Exception:
        return False


def closed_form(p, _depth=0):
    """is p a rational expression of plain symbols and fixed elements of arrays (nothing left that a region should have decided)?"""
    for a in p.atoms():
        if not _closed_atom(a):
            return False
    return True


def _closed_atom(a):
    if a[0] == 'sym':
        return True
    if a[0] == 'pow':
        return closed_form(Poly.from_key(a[1]))
    if a[0] == 'fn' and a[1] == 'at' and len(a) == 4 and a[2][0] == 'B' and a[3][0] == 'P':
        return closed_form(Poly.from_key(a[2][2])) and Poly.from_key(a[3][1]).is_const()
    return False


def decide_lookup(value, q, knots_p, table, label, n, qlabel=None, outside='clamp-above'):
    """[(region name, verdict, detail)] for a look-up of ``table`` (over ``label``, n knots ``knots_p``) at the request ``q``: verdict is True (the value is
    the linear interpolant there), False (it is another closed expression) or None (something in the value is not decided in that region)"""
    out = []
    for name, kind, k in regions(n, below=(outside == 'zero-outside')):
        Rg = Region(q, knots_p, label, n, kind, k, qlabel=qlabel)
        try:
            got = Rg.simplify(value)
        except (RecursionError, ZeroDivisionError) as e:
            out.append((name, None, 'not simplified: %s' % type(e).__name__))
            continue
        if Rg.oob:
            out.append((name, None if Rg.pending else False, 'reads position %d of a table of %d knots (IndexError)' % (Rg.oob[0], n)))
            continue
        qq = Rg.subst if Rg.subst is not None else q
        if outside == 'zero-outside' and kind in ('below', 'above'):
            ref = Poly()
        else:
            ref = linear_ref(kind, k, qq, knots_p, table, label, n)
        if equal(got, ref):
            out.append((name, True, alg.show(ref, 120)))
        elif closed_form(got):
            out.append((name, False, 'gives %s where linear interpolation gives %s' % (alg.show(got, 160), alg.show(ref, 160))))
        else:
            out.append((name, None, 'not decided: %s' % alg.show(got, 200)))
    return out


def guard_verdict(pre, qname, knots_p, label, n=3, outside=False):
    """A refusal guarded by a test on the requested values, tried on requests the look-up has to serve: every requested value on the same tabulated knot,
    two consecutive requests in decreasing order, in increasing order (all inside the table).  ``pre`` is the precondition (what has to hold for the
    call to go on).  -> ('refuses', witness) when the precondition fails on one of them, ('accepts', None) when it holds on all, (None, why) otherwise.
    The knots are taken to be positive (radii, wavelengths)."""
    names = sorted({str(a[1]) for a in _all_atoms(pre) if a[0] == 'sym' and str(a[1]).split('@')[0] == qname})
    if not names:
        return None, 'the test does not read the request'
    pts = [knot(knots_p, label, j) for j in range(n)]
    zero_facts = OrderFacts([Poly()] + pts, [0] + [2 * j + 1 for j in range(n)]).val
    later = [x for x in names if '@+' in x]
    mid = pts[min(1, n - 1)]
    witnesses = [('every request on the same tabulated value', {x: mid for x in names})]
    if later and n >= 2:
        witnesses.append(('two consecutive requests in decreasing order (both tabulated values)', {x: (pts[0] if x in later else pts[1]) for x in names}))
        witnesses.append(('two consecutive requests in increasing order (both tabulated values)', {x: (pts[1] if x in later else pts[0]) for x in names}))
    extra_facts = {}
    if outside:
        # (a table that serves every request: also one below and one above everything it tabulates, positive all the same)
        qw = alg.sym('request#w')
        for what, rank in (('every request below the tabulated value', 0.5), ('every request above the tabulated value', 2 * n + 1)):
            witnesses.append((what, {x: qw for x in names}))
            extra_facts[what] = OrderFacts([Poly(), qw] + pts, [0, rank] + [2 * j + 1 for j in range(n)]).val
    undecided = None
    for what, assign in witnesses:
        Rg = Region(None, knots_p, label, n, requests=[(pts[0], 'at', 0)])          # only the ordering of the knots
        Rg.substs = []
        Rg.val.update(zero_facts)
        Rg.val.update(extra_facts.get(what, {}))

        def f(a, assign=assign, Rg=Rg):
            if a[0] == 'sym' and str(a[1]) in assign:
                return assign[str(a[1])]
            if a[0] == 'fn' and a[1] in ('any', 'all') and len(a) == 3 and a[2][0] == 'B' and Poly.from_key(a[2][2]).is_const():
                return Poly.from_key(a[2][2])
            return Rg._f(a)
        try:
            r = rebuild(pre, f)
            for _ in range(3):          # (not any(x) is kept as all(not x): a constant body shows after the first pass)
                r2 = rebuild(r, f)
                if r2 == r:
                    break
                r = r2
        except (RecursionError, ZeroDivisionError):
            undecided = 'not simplified'
            continue
        if r == Poly():
            return 'refuses', what
        if not (r == num(1)):
            undecided = 'not decided for %s: %s' % (what, alg.show(r, 100))
    if undecided:
        return None, undecided
    return 'accepts', None


def _all_atoms(p, out=None):
    out = [] if out is None else out
    for a in p.atoms():
        _walk_atom(a, out)
    return out


def _walk_atom(a, out):
    out.append(a)
    if a[0] == 'sum':
        _all_atoms(Poly.from_key(a[2]), out)
    elif a[0] == 'pow':
        _all_atoms(Poly.from_key(a[1]), out)
    elif a[0] == 'ind':
        _all_atoms(Poly.from_key(a[2]), out)
    elif a[0] == 'fn':
        for x in a[2:]:
            if x[0] == 'P':
                _all_atoms(Poly.from_key(x[1]), out)
            elif x[0] == 'B':
                _all_atoms(Poly.from_key(x[2]), out)
