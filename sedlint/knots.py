"""Interpolation on a table of a few knots, decided region by region.

A value that is looked up in a table (apertures, wavelengths) touches the knots only through comparisons: with n strictly increasing knots
a_0 < ... < a_{n-1} a request q lies in one of finitely many regions (on a knot, strictly between two neighbours, above the last one, below the first
one).  In each region every bracket that compares q, the knots, and the table's min / max is decided, scipy's / numpy's interpolation atoms unfold to
the segment they use, and what is left is a rational expression in q, the knots and the tabulated values - compared with the definition of linear
interpolation for that region as polynomials.  So a look-up written by hand (loops over segments, searchsorted, masks) is decided the same way as one
that calls the library, whichever way it is spelled."""
from . import alg
from .alg import Poly, P, B, mk_fn, mk_ind, index_at, rebuild, OrderFacts

num = Poly.const


def regions(n, below=False):
    """(name, kind, k) for a request relative to n increasing knots"""
    out = []
    if below:
        out.append(('below the first knot', 'below', 0))
    for k in range(n):
        out.append(('on knot %d' % k, 'at', k))
        if k + 1 < n:
            out.append(('between knots %d and %d' % (k, k + 1), 'in', k))
    out.append(('above the last knot', 'above', n - 1))
    return out


def knot(p, label, k):
    return index_at(p, label, num(k))


def linear_ref(kind, k, q, knots, table, label, n):
    """the definition: the tabulated value on a knot, the chord between neighbours, (for 'above': the last value - the clamp the callers promise)"""
    if kind == 'at':
        return knot(table, label, k)
    if kind == 'above':
        return knot(table, label, n - 1)
    if kind == 'in':
        a0, a1, v0, v1 = knot(knots, label, k), knot(knots, label, k + 1), knot(table, label, k), knot(table, label, k + 1)
        return v0 + (v1 - v0) * (q - a0) * (a1 - a0).pow(-1)
    raise ValueError(kind)


class Region:
    def __init__(self, q, knots, label, n, kind, k, qlabel=None):
        self.q, self.knots, self.label, self.n, self.kind, self.k, self.qlabel = q, knots, label, n, kind, k, qlabel
        self.pts = [knot(knots, label, j) for j in range(n)]
        ranks = [2 * j + 1 for j in range(n)]
        self.subst = None
        if kind == 'at':
            self.subst = self.pts[k]          # the request is the knot itself
            self.O = OrderFacts(self.pts, ranks)
        else:
            rq = {'in': 2 * k + 2, 'above': 2 * n + 1, 'below': 0}[kind]
            self.O = OrderFacts([q] + self.pts, [rq] + ranks)

    def simplify(self, p):
        if self.subst is not None:
            p = substitute(p, self.q, self.subst)
        return rebuild(p, self._f)

    # ---- atom rules
    def _f(self, a):
        if a in self.O.val:
            return num(self.O.val[a])
        if a[0] == 'ind':
            return self._ind(a)
        if a[0] != 'fn':
            return None
        if a[1] in ('max', 'min') and len(a) == 3 and a[2][0] == 'B' and a[2][1] == self.label:
            es = [self.simplify_inner(index_at(Poly.from_key(a[2][2]), self.label, num(j))) for j in range(self.n)]
            for j, e in enumerate(es):
                others = [x for i, x in enumerate(es) if i != j]
                tests = [self.simplify_inner(mk_ind('<0', (e - x) if a[1] == 'max' else (x - e))) for x in others]          # e < x (max) / x < e (min): must all be false
                if all(t == Poly() for t in tests):
                    return e
            return None
        if a[1] == 'lininterp' and len(a) == 5 and a[2][0] == 'P' and a[3][0] == 'B' and a[3][1] == self.label and a[4][0] == 'B' and a[4][1] == self.label:
            x = Poly.from_key(a[2][1])
            kn, tb = Poly.from_key(a[3][2]), Poly.from_key(a[4][2])
            ks = [self.simplify_inner(index_at(kn, self.label, num(j))) for j in range(self.n)]
            vs = [self.simplify_inner(index_at(tb, self.label, num(j))) for j in range(self.n)]
            out = Poly()
            for j in range(self.n - 1):
                inside = (num(1) - mk_ind('<0', x - ks[j])) * mk_ind('<0', x - ks[j + 1])
                out = out + inside * (vs[j] + (vs[j + 1] - vs[j]) * (x - ks[j]) * (ks[j + 1] - ks[j]).pow(-1))
            out = out + mk_ind('==0', x - ks[-1]) * vs[-1]
            outside = mk_ind('<0', x - ks[0]) + mk_ind('<0', ks[-1] - x)
            r = self.simplify_inner(out)
            if self.simplify_inner(outside) == Poly():
                return r
            return None          # outside the table (scipy raises / numpy holds the end value): not unfolded
        if a[1] in ('any', 'all') and len(a) == 3 and a[2][0] == 'B' and a[2][1] == self.qlabel:
            inner = Poly.from_key(a[2][2])
            if inner.is_const():
                return inner          # every request lies in the region looked at
        return None

    def _ind(self, a):
        # a bracket on a multiple of a decided difference (unit factors, positive constants)
        return None

    def simplify_inner(self, p):
        return rebuild(p, self._f)


def substitute(p, q, val):
    """replace the atom of the request by a knot"""
    (m, c), = q.t.items()
    qa = m[0][0]
    return rebuild(p, lambda a: val if a == qa else None)


def equal(a, b):
    d = a - b
    if d == Poly():
        return True
    try:
        r = alg.is_zero(alg.clear_denominators(d)); return r[0] if isinstance(r, tuple) else bool(r)
    except Exception:
        return False


def closed_form(p, _depth=0):
    """is p a rational expression of plain symbols and fixed elements of arrays (nothing left that a region should have decided)?"""
    for a in p.atoms():
        if not _closed_atom(a):
            return False
    return True


def _closed_atom(a):
    if a[0] == 'sym':
        return True
    if a[0] == 'pow':
        return closed_form(Poly.from_key(a[1]))
    if a[0] == 'fn' and a[1] == 'at' and len(a) == 4 and a[2][0] == 'B' and a[3][0] == 'P':
        return closed_form(Poly.from_key(a[2][2])) and Poly.from_key(a[3][1]).is_const()
    return False


def decide_lookup(value, q, knots_p, table, label, n, qlabel=None, outside='clamp-above'):
    """[(region name, verdict, detail)] for a look-up of ``table`` (over ``label``, n knots ``knots_p``) at the request ``q``: verdict is True (the value is
    the linear interpolant there), False (it is another closed expression) or None (something in the value is not decided in that region)"""
    out = []
    for name, kind, k in regions(n, below=(outside == 'zero-outside')):
        Rg = Region(q, knots_p, label, n, kind, k, qlabel=qlabel)
        try:
            got = Rg.simplify(value)
        except (RecursionError, ZeroDivisionError) as e:
            out.append((name, None, 'not simplified: %s' % type(e).__name__))
            continue
        qq = Rg.subst if Rg.subst is not None else q
        if outside == 'zero-outside' and kind in ('below', 'above'):
            ref = Poly()
        else:
            ref = linear_ref(kind, k, qq, knots_p, table, label, n)
        if equal(got, ref):
            out.append((name, True, alg.show(ref, 120)))
        elif closed_form(got):
            out.append((name, False, 'gives %s where linear interpolation gives %s' % (alg.show(got, 160), alg.show(ref, 160))))
        else:
            out.append((name, None, 'not decided: %s' % alg.show(got, 200)))
    return out
