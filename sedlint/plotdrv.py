"""plot() decided by interpretation on small concrete configurations.

plot() is interpreted as it is (output_dir=None: it returns the curves instead of saving figures) for a results file holding one source with two selected
fits, a cube package, two filters, and each display mode.  Sizes are concrete, the data are symbolic: the fit's A_V, scale and model names, the cube's
SEDs, the extinction table, the filters' wavelengths and apertures.  The SED class, its scaling / reddening / aperture interpolation methods and the
extinction law are the repository's own, interpreted - only the file reader, the cube reader and matplotlib are stand-ins.

What plot() hands to the LineCollection is compared with the statement of C17: for every selected fit, worst first and best last, the curve(s) drawn are
the SED of *that fit's model*, converted to lambda*F_lambda, scaled to the distance 10**scale kpc, reddened by *that fit's* A_V with the stored law, and
interpolated to the aperture(s) the display mode shows scaled to that distance (ap[arcsec] * 10**scale * 1000 AU).  The reference value is built by
calling the same SED methods with the arguments the property states; a curve wired to another fit's numbers, to another model, to the wrong distance or
aperture, or drawn in another order leaves a non-zero difference."""
import ast as _ast
from fractions import Fraction

from . import alg
from .alg import Poly, P, B, sym, mk_fn
from .interp import Interp, Hooks, Foreign, Arr, Obj, Unk, ClassRef, Marker, symarr, scalar, num, unit_atom, Bound
from .loader import AnalysisError

R, A, N, T = 'r', 'a', 'n', 't'
NFITS, NFILT = 2, 2
KPC_CM = Fraction('3.0856775814913673e21')


def kpc_of(repo):
    import ast as _ast
    m = repo.func('plot', 'plot').module
    for st in m.tree.body:
        if isinstance(st, _ast.Assign) and len(st.targets) == 1 and isinstance(st.targets[0], _ast.Name) and st.targets[0].id == 'KPC' and isinstance(st.value, _ast.Constant):
            return Fraction(repr(st.value.value))
    return KPC_CM


class _Quiet(Foreign):
    def sl_method(self, interp, name, args, kw, node):
        return _Quiet()

    def sl_getattr(self, interp, name, node):
        return NotImplemented


class _Curve(Foreign):
    def __init__(self, x, y):
        self.x, self.y = x, y


class _LC(Foreign):
    def __init__(self, lines, colors):
        self.lines, self.colors = lines, colors


class _Cube(Foreign):
    def __init__(self, h):
        self.h = h

    def sl_method(self, interp, name, args, kw, node):
        if name == 'get_sed' and len(args) == 1:
            nm = interp._as_arr(args[0])
            k = None
            if isinstance(nm, Arr):
                for j in range(NFITS):
                    if alg.is_zero(nm.poly - alg.index_at(sym('mname', R), R, Poly.const(j)))[0]:
                        k = j
            self.h.fetched.append(k if k is not None else (alg.show(nm.poly, 60) if isinstance(nm, Arr) else repr(nm)))
            if k is None:
                return Unk('get_sed(%r)' % (args[0],))
            return self.h.sed(k)
        return NotImplemented


class _Results(Foreign):
    def __init__(self, h):
        self.h = h

    def sl_iter(self, interp):
        return [self.h.info]

    def sl_getattr(self, interp, name, node):
        if name == 'meta':
            return self.h.meta
        return NotImplemented

    def sl_method(self, interp, name, args, kw, node):
        if name == 'close':
            return None
        return NotImplemented


class PlotHooks(Hooks):
    def __init__(self, repo, n_ap):
        self.repo, self.n_ap = repo, n_ap
        self.fetched, self.collections, self.kept = [], [], []
        mic, au = unit_atom('micron'), unit_atom('au')
        law = Obj(repo.cls('extinction.extinction', 'Extinction'), {'_wav': symarr('xw', (T,), unit=mic), '_chi': symarr('xchi', (T,), unit=unit_atom('cm').pow(2) / unit_atom('g'))})
        self.filters = [{'wav': scalar(sym('fwav%d' % k) * mic, mic), 'aperture_arcsec': Arr((), sym('fap%d' % k), unit=num(1)), 'name': 'F%d' % k} for k in range(NFILT)]
        self.meta = Obj(repo.cls('fit_info', 'FitInfoMeta'), {'model_dir': 'DIR', 'filters': self.filters, 'extinction_law': law})
        src = Obj(repo.cls('source.source', 'Source'), {'_name': 'S', '_valid': symarr('valid', ('w',), unit=num(1))})
        self.info = Obj(repo.cls('fit_info', 'FitInfo'), {'source': src, 'chi2': symarr('chi2', (R,), unit=num(1)), 'av': symarr('av', (R,), unit=num(1)), 'sc': symarr('sc', (R,), unit=num(1)),
                                                            'model_name': symarr('mname', (R,)), 'model_id': symarr('mid', (R,)), 'model_fluxes': None, 'meta': self.meta})

    def sed(self, k):
        """the SED the cube holds for the model of fit k"""
        mJy, au, mic = unit_atom('mJy'), unit_atom('au'), unit_atom('micron')
        a = A if self.n_ap > 1 else None
        return Obj(self.repo.cls('sed.sed', 'SED'), {
            'name': 'M%d' % k, 'distance': scalar(sym('sdist') * unit_atom('cm'), unit_atom('cm')),
            '_apertures': symarr('cap', (A,), unit=au) if self.n_ap > 1 else None,
            '_wav': symarr('swav', (N,), unit=mic), '_nu': None,
            '_flux': symarr('sflux%d' % k, (A, N), unit=mJy), '_error': symarr('serr%d' % k, (A, N), unit=mJy)})

    def construct(self, interp, ci, args, kwargs, node):
        if ci.name == 'FitInfoFile':
            return _Results(self)
        return NotImplemented

    def opaque(self, interp, fi, args, kwargs, node):
        q = fi.qual
        if q.endswith(':SEDCube.read') or q.endswith(':BaseCube.read'):
            return _Cube(self)
        if q.endswith('parfile:read') or (q.endswith(':read') and 'parfile' in q):
            return {'version': 2}
        if q.endswith(':FitInfo.keep'):
            self.kept.append(list(args[1:]))
            return None
        if fi.name in ('validate_array', 'validate_scalar'):
            return args[1] if len(args) > 1 else kwargs.get('value')
        if fi.name in ('create_dir', 'tex_friendly', 'plot_source_data', 'plot_source_info', 'set_view_limits', 'get_axes'):
            return _Quiet()
        if fi.name == '_to_value' and len(args) == 1:
            return args[0]          # values are carried as physical quantities here: taking the bare value changes nothing
        return NotImplemented

    def external(self, interp, name, args, kwargs, node, mod):
        last = name.split('.')[-1]
        if last == 'column_stack' and len(args) == 1 and isinstance(args[0], (list, tuple)) and len(args[0]) == 2:
            return _Curve(args[0][0], args[0][1])
        if last == 'LineCollection':
            lc = _LC(list(args[0]) if args and isinstance(args[0], list) else args[0] if args else None, kwargs.get('colors'))
            self.collections.append(lc)
            return lc
        if name.startswith('matplotlib') or last in ('FontProperties',):
            return _Quiet()
        if name == 'os.path.join':
            return '/'.join(a for a in args if isinstance(a, str))
        if last == 'unique' and len(args) == 1:
            # the distinct apertures of the filters, in increasing order: a fresh input array declared sorted (the configurations give the filters distinct apertures)
            a_ = interp._as_arr(args[0])
            if isinstance(a_, Arr) and a_.ndim == 1 and a_.dims[0] in interp.axis_len:
                interp.axis_len['uq'] = interp.axis_len[a_.dims[0]]
                alg.SORTED_SYMS.add('uap')
                return symarr('uap', ('uq',), unit=num(1))
            return Unk('np.unique')
        return NotImplemented


MODES = ('interp', 'largest', 'largest+smallest', 'all')


def run_scenario(repo, fi, mode, n_ap):
    h = PlotHooks(repo, n_ap)
    I = Interp(repo, h)
    I.axis_len[R] = NFITS
    I.axis_len[A] = n_ap
    r = I.call(fi, ['IN'], {'output_dir': None, 'select_format': ('N', NFITS), 'sed_type': mode, 'plot_mode': 'A'})
    return I, h, r


def expected_curves(repo, h, I0, mode, n_ap):
    """the curves C17 states, worst fit first: [(fit index, aperture expression label, x poly, y Arr)]"""
    scls = repo.cls('sed.sed', 'SED')
    out = []
    ap = [sym('fap%d' % k) for k in range(NFILT)]
    wav = [sym('fwav%d' % k) for k in range(NFILT)]
    erg = unit_atom('erg') / unit_atom('cm').pow(2) / unit_atom('s')
    for i in range(NFITS - 1, -1, -1):
        I = Interp(repo, h)
        I.axis_len.update(I0.axis_len)
        s = h.sed(i)
        sc = alg.index_at(sym('sc', R), R, Poly.const(i))
        av = alg.index_at(sym('av', R), R, Poly.const(i))
        # lambda * F_lambda
        fl = I.getattr(s, 'flux', None, scls.module)
        nu = I.getattr(s, 'nu', None, scls.module)
        conv = I.method(fl, 'to', [Arr((), erg, unit=erg)], {'equivalencies': I.libcall('astropy.units.spectral_density', [nu], {}, None, scls.module)}, None, scls.module)
        I.setattr(s, 'flux', conv, None, scls.module)
        d = mk_fn('exp10', P(sc)) * Poly.const(kpc_of(repo))          # the module's own constant (checked separately to be one kiloparsec within 0.1%)
        s = I.call(repo.func('sed.sed', 'SED.scale_to_distance'), [Arr((), d, unit=num(1))], selfv=s)
        law = h.meta.attrs['extinction_law']
        get_av = Bound(repo.func('extinction.extinction', 'Extinction.get_av'), law)
        s = I.call(repo.func('sed.sed', 'SED.scale_to_av'), [Arr((), av, unit=num(1)), get_av], selfv=s)
        if not isinstance(s, Obj):
            return s
        scale = Arr((), mk_fn('exp10', P(sc)) * 1000, unit=num(1))
        x = I.getattr(s, 'wav', None, scls.module)
        # the filters' wavelengths and apertures as plot() reads them off the metadata, in the order the filters are listed
        wv = I._list_to_arr([Arr((), w, unit=num(1)) for w in wav])
        apv = I._list_to_arr([Arr((), a, unit=num(1)) for a in ap])
        mul = lambda a_, b_: I.binop(_ast.Mult(), a_, b_, None)
        if mode == 'interp':
            y = I.call(repo.func('sed.sed', 'SED.interpolate_variable'), [wv, mul(apv, scale)], selfv=s)
            out.append((i, 'the composite curve', x, y))
        else:
            if mode == 'all':
                I.axis_len['uq'] = NFILT
                alg.SORTED_SYMS.add('uap')
                reqs = [(mul(symarr('uap', ('uq',), unit=num(1)), scale), None)]          # each distinct aperture of the filters, in increasing order
            else:
                reqs = [(mul(I._list_to_arr([I.method(apv, w_, [], {}, None, scls.module) for w_ in {'largest': ['max'], 'largest+smallest': ['min', 'max']}[mode]]), scale), None)]
            for req, _ in reqs:
                y = I.call(repo.func('sed.sed', 'SED.interpolate'), [req], selfv=s)
                if not isinstance(y, Arr):
                    return y
                # one curve per requested aperture: column j of the (wavelength, aperture) result
                lab = y.dims[1] if y.ndim == 2 else None
                ncol = 1 if lab is None else I.axis_len.get(lab)
                if ncol is None:
                    return Unk('number of apertures of the reference')
                for j in range(ncol):
                    yj = Arr((y.dims[0],), y.poly if lab is None else alg.index_at(y.poly, lab, Poly.const(j)), unit=y.unit)
                    out.append((i, 'aperture #%d of the mode' % (j + 1), x, yj))
    return out


def _fresh_labels(p):
    return sorted(l for l in alg.poly_labels_deep(p) if isinstance(l, str) and l.split('[')[0].startswith(('pos#', 'rep#')))


def _equal_up_to_fresh_labels(p, q):
    """p == q up to the names of the axes created on the fly (a list made into an array, a repeat): their names only record the order of creation"""
    import itertools
    z, rem = alg.is_zero(p - q)
    if z:
        return True, rem
    lp, lq = _fresh_labels(p), _fresh_labels(q)
    base = lambda ls: sorted({l.split('[')[0] for l in ls})
    bp, bq = base(lp), base(lq)
    if len(bp) != len(bq) or len(bp) > 4 or bp == []:
        return False, rem
    for perm in itertools.permutations(bq):
        m = dict(zip(bp, perm))
        if all(k == v for k, v in m.items()):
            continue
        p2 = alg.rename_labels(p, m)
        z2, _ = alg.is_zero(p2 - q)
        if z2:
            return True, Poly()
    return False, rem


VOCAB_PREFIX = ('sflux', 'serr', 'swav', 'cap', 'sdist', 'av', 'sc', 'fap', 'fwav', 'xw', 'xchi', 'mname', 'unit:', 'idx:')


def check_scenario(repo, fi, mode, n_ap):
    """-> (verdict, [problems]) with verdict 'ok' | 'violation' | 'undecided'"""
    try:
        I, h, r = run_scenario(repo, fi, mode, n_ap)
    except (AnalysisError, RecursionError) as ex:
        return 'undecided', ['not interpreted: %s' % str(ex)[:120]]
    if isinstance(r, Unk) or I.uncaught or I.lost:
        if I.uncaught:
            return 'violation', ['plot() stops with %s' % I.uncaught]
        return 'undecided', ['not modelled: %s' % (r if isinstance(r, Unk) else [str(x)[:80] for x in I.lost][:2])]
    if len(h.collections) != 1 or not isinstance(h.collections[0].lines, list):
        return 'undecided', ['%d line collections built' % len(h.collections)]
    if not (isinstance(r, dict) and any(isinstance(v, dict) and v.get('lines') is h.collections[0] for v in r.values())):
        return 'violation', ['the curves built are not what plot() returns for the source']
    try:
        want = expected_curves(repo, h, I, mode, n_ap)
    except (AnalysisError, RecursionError) as ex:
        return 'undecided', ['reference not built: %s' % str(ex)[:120]]
    if not isinstance(want, list):
        return 'undecided', ['reference not built: %r' % (want,)]
    got = h.collections[0].lines
    problems, unknown = [], []
    if h.kept[:1] != [[('N', NFITS)]]:
        problems.append('the selector passed to plot() is not applied to the results first (keep called with %s)' % h.kept[:2])
    # one entry of ``got`` may hold several curves (a 2-D flux drawn column by column): plot() appends them one by one, so the lists line up
    if len(got) != len(want):
        problems.append('%d curves are drawn for %d selected fits in display mode %r; the mode shows %d per fit' % (len(got), NFITS, mode, len(want) // NFITS))
    else:
        for c, (i, what, x, y) in zip(got, want):
            tag = 'fit %d (%s), %s' % (i + 1, 'best' if i == 0 else 'worse', what)
            if isinstance(c, Arr) and c.ndim == 2 and c.mask is None and c.dims[1] is not None and I.axis_len.get(c.dims[1]) == 2 and c.dims[0] is not None:
                # an array of vertices with its two columns filled in: column 0 the wavelengths, column 1 the fluxes (what column_stack builds)
                c = _Curve(Arr((c.dims[0],), alg.index_at(c.poly, c.dims[1], alg.Poly.const(0)), unit=c.unit), Arr((c.dims[0],), alg.index_at(c.poly, c.dims[1], alg.Poly.const(1)), unit=c.unit))
            if not isinstance(c, _Curve) or not isinstance(c.y, Arr) or not isinstance(y, Arr):
                unknown.append('%s: curve %r / reference %r' % (tag, getattr(c, 'y', c), y))
                continue
            yy = y
            if yy.ndim == 2 and c.y.ndim == 1:          # SED.interpolate returns (wavelength, aperture) for one aperture
                yy = Arr((yy.dims[0],), yy.poly, unit=yy.unit)
            for nm, a_, b_ in (('wavelengths', c.x, x), ('fluxes', c.y, yy)):
                if not (isinstance(a_, Arr) and isinstance(b_, Arr)):
                    unknown.append('%s: %s %r' % (tag, nm, a_))
                    continue
                z, rem = _equal_up_to_fresh_labels(a_.poly, b_.poly)
                if z:
                    continue
                syms, fns = alg.leaf_syms(rem if not z else a_.poly)
                if all(s.startswith(VOCAB_PREFIX) or s.rstrip('0123456789') in ('sflux', 'serr', 'fap', 'fwav') for s in syms) and fns <= {'at', 'exp10', 'interp', 'lininterp', 'ln', 'max', 'min', 'argsort', 'len', 'value', 'spectral', 'rev', 'arange'}:
                    problems.append('%s: the %s drawn are %s, not those of this fit\'s model at its distance, A_V and aperture (difference %s)' % (tag, nm, alg.show(a_.poly, 70), alg.show(rem, 90)))
                else:
                    unknown.append('%s: %s %s' % (tag, nm, alg.show(rem, 90)))
    cols = h.collections[0].colors
    if isinstance(cols, list) and len(cols) == len(got):
        bad = [c_ for c_ in cols if not (isinstance(c_, (tuple, list)) and len(c_) in (3, 4) and all(isinstance(v_, (int, float)) and 0 <= v_ <= 1 for v_ in c_))]
        if bad and any(isinstance(c_, Unk) for c_ in bad):
            unknown.append('the colour given for a curve was not followed: %r' % (bad[0],))
        elif bad:
            problems.append('the colour given for a curve is %r, not an RGB triple: the line collection cannot be drawn' % (bad[0],))
    elif cols is not None:
        (problems if isinstance(cols, list) else unknown).append('%s colours for %d curves' % (len(cols) if isinstance(cols, list) else repr(cols)[:40], len(got)))
    want_fetch = list(range(NFITS - 1, -1, -1))
    if h.fetched != want_fetch and not problems:
        problems.append('the models fetched from the cube are %s; expected the fits from the worst to the best, %s' % (h.fetched, want_fetch))
    if problems:
        return 'violation', problems
    if unknown:
        return 'undecided', unknown
    return 'ok', ['%d curve(s): fits %s' % (len(got), [i + 1 for i, _, _, _ in want])]


def decide(ctx, repo, fi, where_):
    """every display mode for a multi-aperture and a single-aperture package; reports one obligation per configuration under the rule it belongs to"""
    overall = 'ok'
    for n_ap in (3, 1):
        for mode in MODES:
            v, pr = check_scenario(repo, fi, mode, n_ap)
            inst = 'plot() interpreted (%s package, display mode %r): curves are the fitted models' % ('multi-aperture' if n_ap > 1 else 'single-aperture', mode)
            if v == 'ok':
                ctx.ok('PERM-8', inst, where_, 'every curve is the SED of its fit\'s model at 10**scale kpc, reddened by that fit\'s A_V with the stored law, at the aperture(s) of the mode; best fit last (%s)' % pr[0])
            elif v == 'violation':
                ctx.violation('PERM-8', inst, where_, '; '.join(pr[:2]), 'plot:%s' % pr[0].split(':')[-1][:50])
                overall = 'violation'
            else:
                ctx.undecided('PERM-8', inst, where_, str(pr[0])[:200])
                if overall == 'ok':
                    overall = 'undecided'
    return overall
