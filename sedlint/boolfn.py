"""Finite-domain decision of boolean test expressions (FLAG family helper).

A test is turned into a boolean function over canonical *atoms*; two tests are
compared on every assignment of the atoms (exhaustive truth table).  Real
comparisons are oriented to LT(a, b); ``<=`` is identified with ``<`` (the
properties exclude exact ties), which is recorded in the evidence."""
import ast
import itertools

from .astutil import up


class Unknown(Exception):
    pass


def subst(node, env):
    """Substitute local single-assignment definitions (name -> expr node)."""
    class T(ast.NodeTransformer):
        def visit_Name(self, n):
            if isinstance(n.ctx, ast.Load) and n.id in env:
                return subst(env[n.id], {k: v for k, v in env.items() if k != n.id})
            return n
    import copy
    return T().visit(copy.deepcopy(node))


def canon_expr(node):
    """Canonical text of an arithmetic operand: float(x)/int(x) wrappers dropped."""
    class T(ast.NodeTransformer):
        def visit_Call(self, n):
            self.generic_visit(n)
            if isinstance(n.func, ast.Name) and n.func.id in ('float',) and len(n.args) == 1 and not n.keywords:
                return n.args[0]
            return n
    import copy
    return up(T().visit(copy.deepcopy(node))).replace(' ', '')


def to_fn(node):
    """node -> (atoms:set, eval(assignment dict)->bool)."""
    if isinstance(node, ast.BoolOp):
        parts = [to_fn(v) for v in node.values]
        atoms = set().union(*[p[0] for p in parts])
        if isinstance(node.op, ast.And):
            return atoms, lambda a: all(p[1](a) for p in parts)
        return atoms, lambda a: any(p[1](a) for p in parts)
    if isinstance(node, ast.UnaryOp) and isinstance(node.op, ast.Not):
        at, f = to_fn(node.operand)
        return at, lambda a: not f(a)
    if isinstance(node, ast.Compare) and len(node.ops) == 1:
        l, r, op = canon_expr(node.left), canon_expr(node.comparators[0]), type(node.ops[0])
        if op in (ast.Lt, ast.LtE, ast.Gt, ast.GtE):
            if op is ast.Lt:
                k, neg = ('LT', l, r), False
            elif op is ast.Gt:
                k, neg = ('LT', r, l), False
            elif op is ast.LtE:
                k, neg = ('LT', r, l), True
            else:
                k, neg = ('LT', l, r), True
            # canonical orientation: LT(x, y) with x <= y textually; LT(y, x) == not LT(x, y) (no exact ties)
            if k[1] > k[2]:
                k, neg = ('LT', k[2], k[1]), not neg
            return {k}, (lambda a: not a[k]) if neg else (lambda a: a[k])
        if op in (ast.Is, ast.IsNot) and up(node.comparators[0]) == 'None':
            k = ('SET', l)
            return {k}, (lambda a: not a[k]) if op is ast.Is else (lambda a: a[k])
        if op in (ast.Eq, ast.NotEq):
            k = ('EQ',) + tuple(sorted((l, r)))
            return {k}, (lambda a: a[k]) if op is ast.Eq else (lambda a: not a[k])
        raise Unknown('comparison %s' % up(node))
    if isinstance(node, (ast.Name, ast.Attribute, ast.Subscript)):
        k = ('SET', canon_expr(node))     # truthiness of a threshold: "is set"
        return {k}, lambda a: a[k]
    if isinstance(node, ast.Constant):
        v = bool(node.value)
        return set(), lambda a: v
    raise Unknown('test form %s' % up(node))


def equivalent(fn_code, fn_ref):
    """Compare two (atoms, eval) on every assignment of the union of atoms.
    Returns (True, n) or (False, witness assignment)."""
    atoms = sorted(fn_code[0] | fn_ref[0])
    n = 0
    for vals in itertools.product([False, True], repeat=len(atoms)):
        a = dict(zip(atoms, vals))
        n += 1
        if fn_code[1](a) != fn_ref[1](a):
            return False, a, n
    return True, None, n


def LT(x, y):
    """Reference atom for x < y in canonical orientation: returns (atom, negated)."""
    return (('LT', x, y), False) if x <= y else (('LT', y, x), True)
