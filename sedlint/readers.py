"""Symbolic interpretation of the two model-package readers (Models._read_version_1/_2)."""
from . import alg
from .alg import Poly, P, B, C, L, sym, mk_fn
from .interp import Interp, Hooks, Arr, Obj, Unk, GenList, symarr, scalar, num, unit_atom, decide_with, index_atom
from .astutil import up

W, M, D, A, N = 'w', 'm', 'd', 'a', 'n'


class ReaderHooks(Hooks):
    def __init__(self, same_distance=False, aperture_dependent=True):
        self.same = same_distance
        self.apdep = aperture_dependent
        self.interp_args = []
        self.from_cube = []

    def decide(self, interp, test, env, mod):
        """first-iteration initialisation (`ifilt == 0`) is part of the generic iteration; the two ends of the
        distance range are equal / different by configuration.  Decided on the value of the test."""
        try:
            v = interp.expr(test, dict(env), mod)
        except Exception:
            return None
        if isinstance(v, Arr) and v.ndim == 0 and not v.poly.is_const():
            syms, fns = alg.leaf_syms(v.poly)
            if syms == {'idx:' + W} and not fns:
                return decide_with(interp, test, env, mod, consts={index_atom(W): 0})
            if syms <= {'dr', 'unit:kpc'} and fns <= {'at', 'ln'} and syms & {'dr'}:
                kpc = sym('unit:kpc')
                drv = sym('dr', 'two') / kpc
                d0 = mk_fn('at', B('two', drv), P(Poly()))
                d1 = mk_fn('at', B('two', drv), P(Poly.const(1)))
                f = alg.Facts()
                (f.assume_true if self.same else f.assume_false)(alg.eq(d0, d1))
                return decide_with(interp, test, env, mod, facts=f)
        return None

    def external(self, interp, name, args, kwargs, node, mod):
        if name in ('os.path.exists', 'posixpath.exists', 'os.path.isfile') and len(args) == 1:
            # the package is complete and stored uncompressed: every file the reader asks for is there under its plain name
            return not (isinstance(args[0], str) and args[0].endswith('.gz'))
        return NotImplemented

    def opaque(self, interp, fi, args, kwargs, node):
        q = fi.qual
        repo = interp.repo
        if q.endswith('parfile:read'):
            return {'name': 'models', 'logd_step': scalar(sym('step'), num(1)), 'aperture_dependent': self.apdep, 'version': 2, 'length_subdir': 0}
        if fi.name in ('validate_array', 'validate_scalar'):
            return args[1] if len(args) > 1 else kwargs.get('value')
        if q.endswith(':ConvolvedFluxes.read'):
            return Obj(repo.cls('convolved_fluxes.convolved_fluxes', 'ConvolvedFluxes'), {
                '_model_names': symarr('cnames', (M,)),
                '_apertures': symarr('cap', (A,), unit=unit_atom('au')),
                '_flux': symarr('cflux', (M, A), extra=(W,), unit=unit_atom('mJy')),
                '_error': symarr('cerr', (M, A), extra=(W,), unit=unit_atom('mJy')),
                '_wavelength': Arr((), sym('cwav', W), unit=unit_atom('micron'))})
        if q.endswith(':ConvolvedFluxes.interpolate'):
            me, ap = args[0], args[1]
            self.interp_args.append(ap)
            if not isinstance(ap, Arr) or not isinstance(me, Obj):
                return Unk('interpolate argument', node)
            fl, er, capv = me.attrs.get('_flux'), me.attrs.get('_error'), me.attrs.get('_apertures')
            if not all(isinstance(x, Arr) for x in (fl, er, capv)):
                return Unk('interpolate receiver', node)
            out = Obj(me.cls, dict(me.attrs))
            out.attrs['_apertures'] = ap
            out.attrs['_flux'] = Arr((M,) + ap.dims, mk_fn('APINTERP', B(A, fl.poly), B(A, capv.poly), P(ap.poly)), unit=fl.unit)
            out.attrs['_error'] = Arr((M,) + ap.dims, mk_fn('APINTERP', B(A, er.poly), B(A, capv.poly), P(ap.poly)), unit=er.unit)
            return out
        if q.endswith(':SEDCube.read') or q.endswith(':BaseCube.read'):
            return Obj(repo.cls('sed.cube', 'SEDCube'), {
                '_names': symarr('cnames', (M,)),
                '_wav': symarr('cubewav', (N,), unit=unit_atom('micron')), '_nu': None,
                '_apertures': symarr('cap', (A,), unit=unit_atom('au')),
                '_val': symarr('cubeval', (M, A, N), unit=unit_atom('mJy')),
                '_unc': symarr('cubeunc', (M, A, N), unit=unit_atom('mJy')),
                '_distance': scalar(sym('cubedist')), '_valid': None})
        return NotImplemented


def run_reader(repo, version, same_distance=False, named=True, use_memmap=False, aperture_dependent=True):
    fi = repo.func('models', 'Models._read_version_%d' % version)
    h = ReaderHooks(same_distance, aperture_dependent)
    I = Interp(repo, h)
    elem = {'aperture_arcsec': Arr((), sym('theta', W), unit=num(1))}
    if named:
        elem['name'] = 'FILT'
    else:
        elem['wav'] = Arr((), sym('fwav', W), unit=unit_atom('micron'))
    filters = GenList(W, elem)
    dr = symarr('dr', ('two',), unit=sym('unit:Ud')) if aperture_dependent else None      # given in any length unit
    kwargs = {'distance_range': dr, 'remove_resolved': False}
    if version == 2:
        kwargs['use_memmap'] = use_memmap
    from .interp import ClassRef
    m = I.call(fi, ['DIR', filters], kwargs, selfv=ClassRef(repo.cls('models', 'Models')))
    return fi, I, h, m


def reference(same_distance=False, named=True):
    """Reference terms for the sinks of a distance-dependent reader, from the statement of C02."""
    kpc, pc, au = sym('unit:kpc'), sym('unit:pc'), sym('unit:au')
    drv = sym('dr', 'two') / kpc
    d0 = mk_fn('at', B('two', drv), P(Poly()))
    d1 = mk_fn('at', B('two', drv), P(Poly.const(1)))
    step = sym('step')
    if same_distance:
        n = Poly.const(1)
        dist = d0 * kpc
    else:
        n = mk_fn('int', P(mk_fn('ceil', P(1 + (alg.log10(d1) - alg.log10(d0)) / step))))
        dist = mk_fn('logspace', L('d'), P(alg.log10(d0)), P(alg.log10(d1)), P(n)) * kpc
    theta = sym('theta', W)
    ap = theta * (dist / pc) * au
    if named:
        tab = sym('cflux', M, A, W)
        lam = sym('cwav', W)
    else:
        idx = mk_fn('argmin', B(N, mk_fn('abs', P(sym('cubewav', N) - sym('fwav', W)))))
        tab = mk_fn('at', B(N, sym('cubeval', M, A, N)), P(idx))
        lam = sym('fwav', W)
    flux = mk_fn('APINTERP', B(A, tab), B(A, sym('cap', A)), P(ap)) * (kpc / dist).pow(2)
    return {'n': n, 'distances': dist, 'apertures_au': ap, 'fluxes': flux, 'logd': alg.log10(dist / kpc), 'wavelengths': lam,
            'names': mk_fn('strip', P(sym('cnames', M)))}
