"""AST helpers and E3: the syntax-directed control-flow walk."""
import ast

from .loader import AnalysisError


def up(node):
    return ast.unparse(node) if node is not None else ''


def chain(node):
    """'a.b.c' for a Name/Attribute chain, else None."""
    parts = []
    while isinstance(node, ast.Attribute):
        parts.append(node.attr)
        node = node.value
    if isinstance(node, ast.Name):
        parts.append(node.id)
        return '.'.join(reversed(parts))
    return None


def root_name(node):
    """Name at the root of an Attribute/Subscript/Call-free access chain."""
    while True:
        if isinstance(node, (ast.Attribute, ast.Subscript, ast.Starred)):
            node = node.value
        elif isinstance(node, ast.Name):
            return node.id
        else:
            return None


def walk_local(node):
    """ast.walk that does not descend into nested function/class definitions
    (the root itself may be one)."""
    todo = [node]
    first = True
    while todo:
        n = todo.pop()
        if not first and isinstance(n, (ast.FunctionDef, ast.AsyncFunctionDef, ast.ClassDef, ast.Lambda)):
            continue
        first = False
        yield n
        todo.extend(reversed(list(ast.iter_child_nodes(n))))


def calls(node):
    return [n for n in walk_local(node) if isinstance(n, ast.Call)]


def call_name(c):
    return chain(c.func) or up(c.func)


def is_call_to(c, *names):
    """True if ``c`` is a call whose dotted name ends with one of ``names``."""
    if not isinstance(c, ast.Call):
        return False
    cn = call_name(c)
    return any(cn == n or cn.endswith('.' + n) for n in names)


def stores(node):
    """(target node, value node|None, stmt) for every store in ``node``."""
    out = []
    for n in walk_local(node):
        if isinstance(n, ast.Assign):
            for t in n.targets:
                for tt in _flatten(t):
                    out.append((tt, n.value, n))
        elif isinstance(n, ast.AugAssign):
            out.append((n.target, n.value, n))
        elif isinstance(n, ast.AnnAssign) and n.value is not None:
            out.append((n.target, n.value, n))
    return out


def _flatten(t):
    if isinstance(t, (ast.Tuple, ast.List)):
        for e in t.elts:
            yield from _flatten(e)
    else:
        yield t


def const(node):
    if isinstance(node, ast.Constant):
        return node.value
    if isinstance(node, ast.UnaryOp) and isinstance(node.op, ast.USub) and isinstance(node.operand, ast.Constant):
        return -node.operand.value
    return None


def kw(c, name, default=None):
    for k in c.keywords:
        if k.arg == name:
            return k.value
    return default


def names_in(node):
    return {n.id for n in walk_local(node) if isinstance(n, ast.Name)}


def stmt_list_of(fi):
    return fi.node.body


# --------------------------------------------------------------------------
# E3: path enumeration

class Path:
    __slots__ = ('events', 'exit', 'exit_node')

    def __init__(self, events=(), exit=None, exit_node=None):
        self.events, self.exit, self.exit_node = tuple(events), exit, exit_node

    def extend(self, more, exit=None, exit_node=None):
        return Path(self.events + tuple(more), exit, exit_node)

    def stmts(self):
        return [e[1] for e in self.events if e[0] == 'stmt']

    def tests(self):
        return [(e[1], e[2]) for e in self.events if e[0] == 'test']

    def calls(self):
        """Calls in evaluation order along the path (statement granularity)."""
        out = []
        for e in self.events:
            if e[0] in ('stmt', 'test', 'iter'):
                node = e[1]
                if e[0] == 'iter':
                    node = e[1].iter
                cs = calls(node)
                cs.sort(key=lambda c: (getattr(c, 'end_lineno', 0), getattr(c, 'end_col_offset', 0)))
                out.extend((c, e) for c in cs)
        return out

    def describe(self):
        parts = []
        for e in self.events:
            if e[0] == 'test':
                parts.append('[%s is %s]' % (up(e[1])[:50], e[2]))
            elif e[0] == 'stmt':
                parts.append(up(e[1]).split('\n')[0][:50])
            elif e[0] == 'except':
                parts.append('<except %s>' % (up(e[1].type) if e[1].type else ''))
            elif e[0] == 'iter':
                parts.append('<for %s: %s>' % (up(e[1].target), e[2]))
        return ' ; '.join(parts) + (' => %s' % self.exit if self.exit else '')


MAX_PATHS = 50000


def paths(stmts, _budget=None):
    """All paths through a statement list.  Loops are walked for zero and one
    iteration; a ``try`` contributes its normal path and one path per handler
    (entered after an unknown prefix of the body).  Exits: None (fall through),
    'return', 'raise', 'break', 'continue', 'backedge'."""
    budget = _budget if _budget is not None else [MAX_PATHS]
    cur = [Path()]
    done = []
    for st in stmts:
        nxt = []
        for p in cur:
            for q in _stmt_paths(st, budget):
                r = p.extend(q.events, q.exit, q.exit_node)
                (nxt if q.exit is None else done).append(r)
        cur = nxt
        budget[0] -= len(cur)
        if budget[0] < 0:
            raise AnalysisError('path budget exceeded')
        if not cur:
            break
    return done + cur


def _stmt_paths(st, budget):
    if isinstance(st, ast.If):
        out = []
        for q in paths(st.body, budget):
            out.append(Path((('test', st.test, True),) + q.events, q.exit, q.exit_node))
        for q in paths(st.orelse, budget):
            out.append(Path((('test', st.test, False),) + q.events, q.exit, q.exit_node))
        return out
    if isinstance(st, (ast.For, ast.While)):
        out = []
        infinite = isinstance(st, ast.While) and const(st.test) in (True, 1)
        head_skip = ('iter', st, 'zero') if isinstance(st, ast.For) else ('test', st.test, False)
        head_in = ('iter', st, 'one') if isinstance(st, ast.For) else ('test', st.test, True)
        if not infinite:
            for q in paths(st.orelse, budget):
                out.append(Path((head_skip,) + q.events, q.exit, q.exit_node))
        for q in paths(st.body, budget):
            ev = (head_in,) + q.events
            if q.exit == 'break':
                out.append(Path(ev + (('loopexit', st, 'break'),), None))
            elif q.exit in (None, 'continue'):
                if infinite:
                    out.append(Path(ev, 'backedge', st))
                else:
                    for r in paths(st.orelse, budget):
                        out.append(Path(ev + (('loopexit', st, 'end'),) + r.events, r.exit, r.exit_node))
            else:
                out.append(Path(ev, q.exit, q.exit_node))
        return out
    if isinstance(st, ast.Try):
        out = []
        fin = paths(st.finalbody, budget) if st.finalbody else [Path()]

        def with_final(p):
            if p.exit in ('break', 'continue') or not st.finalbody:
                return [p]
            res = []
            for f in fin:
                if f.exit is None:
                    res.append(Path(p.events + f.events, p.exit, p.exit_node))
                else:
                    res.append(Path(p.events + f.events, f.exit, f.exit_node))
            return res
        for q in paths(st.body, budget):
            if q.exit is None:
                for r in paths(st.orelse, budget):
                    out.extend(with_final(Path((('try', st, 'body'),) + q.events + (('try', st, 'else'),) + r.events, r.exit, r.exit_node)))
            else:
                out.extend(with_final(Path((('try', st, 'body'),) + q.events, q.exit, q.exit_node)))
        for h in st.handlers:
            for r in paths(h.body, budget):
                out.extend(with_final(Path((('try', st, 'partial'), ('except', h, st)) + r.events, r.exit, r.exit_node)))
        return out
    if isinstance(st, ast.With):
        out = []
        for q in paths(st.body, budget):
            out.append(Path((('stmt', st.items[0].context_expr),) + q.events, q.exit, q.exit_node))
        return out
    if isinstance(st, ast.Return):
        return [Path((('stmt', st),), 'return', st)]
    if isinstance(st, ast.Raise):
        return [Path((('stmt', st),), 'raise', st)]
    if isinstance(st, ast.Break):
        return [Path((), 'break', st)]
    if isinstance(st, ast.Continue):
        return [Path((), 'continue', st)]
    if isinstance(st, (ast.FunctionDef, ast.ClassDef, ast.Pass, ast.Import, ast.ImportFrom, ast.Global, ast.Nonlocal)):
        return [Path()]
    return [Path((('stmt', st),))]


def find_loops(fi, kinds=(ast.For, ast.While)):
    return [n for n in walk_local(fi.node) if isinstance(n, kinds)]


def enclosing_map(root):
    """child -> parent map for the local subtree."""
    par = {}
    for n in walk_local(root):
        for c in ast.iter_child_nodes(n):
            par[c] = n
    return par
