"""Pickle state round trip, decided by interpretation (E5): obj -> __getstate__ -> __setstate__ -> obj' must give back every data attribute.

The state may be represented any way the class likes (bare values plus a unit convention, renamed keys, ...): what is compared is what the
getters of the restored object return with what the getters of the original return, as physical values.  The syntactic rule of rules.py
(same keys, each restored by index into the attribute it came from) is only the fall-back when the interpretation cannot model a method."""
from . import alg
from .alg import sym
from .interp import Interp, Hooks, Arr, Obj, Unk, symarr, scalar, num, unit_atom, setter_private_attr
from .rules import init_attrs, where, pickle_state_agreement
from .loader import AnalysisError

T, W, R = 't', 'w', 'r'


def _spec(repo, cname):
    if cname == 'Extinction':
        return {'wav': symarr('xw', (T,), unit=unit_atom('Uw')), 'chi': symarr('chi', (T,), unit=unit_atom('Uc'))}
    if cname == 'Source':
        return {'name': 'SRC', 'x': scalar(sym('sx'), num(1)), 'y': scalar(sym('sy'), num(1)), 'valid': symarr('valid', (W,), unit=num(1)),
                'flux': symarr('Fs', (W,), unit=num(1)), 'error': symarr('Es', (W,), unit=num(1))}
    if cname == 'FitInfo':
        src = Obj(repo.cls('source.source', 'Source'), {})
        return {'source': src, 'av': symarr('av', (R,), unit=num(1)), 'sc': symarr('sc', (R,), unit=num(1)), 'chi2': symarr('chi2', (R,), unit=num(1)),
                'model_id': symarr('model_id', (R,), unit=num(1)), 'model_name': symarr('model_name', (R,)), 'model_fluxes': symarr('model_fluxes', (R, W), unit=num(1))}
    return None


class _H(Hooks):
    def opaque(self, interp, fi, args, kwargs, node):
        if fi.name in ('validate_array', 'validate_scalar'):
            return args[1] if len(args) > 1 else kwargs.get('value')
        return NotImplemented


def _same(a, b):
    if isinstance(a, Arr) and isinstance(b, Arr):
        return tuple(a.dims) == tuple(b.dims) and a.mask is None and b.mask is None and a.poly == b.poly
    if isinstance(a, Obj) or isinstance(b, Obj):
        return a is b
    if isinstance(a, (Unk, Arr)) or isinstance(b, (Unk, Arr)):
        return False
    return a == b


def state_roundtrip(ctx, ci, rule='AGREE-1', exclude=()):
    repo = ctx.repo
    gs, ss, ini = ci.methods.get('__getstate__'), ci.methods.get('__setstate__'), ci.methods.get('__init__')
    if not (gs and ss and ini):
        raise AnalysisError('%s lacks explicit pickling state methods' % ci.qual)
    spec = _spec(repo, ci.name)
    # the attributes __init__ sets up; one it fills through the private name of a property (self._x = None with a property x) counts as the property
    attrs = []
    for a in init_attrs(ini):
        if a.startswith('_') and not a.startswith('__') and repo.find_setter(ci, a[1:]) is not None:
            a = a[1:]
        if a not in exclude and not a.startswith('_') and a not in attrs:
            attrs.append(a)
    I = Interp(repo, _H())

    def fresh():
        o = Obj(ci, {})
        I.call(ini, [None] * max(0, len(ini.params) - 1 - len(ini.node.args.defaults)), selfv=o)
        return o
    o = None
    if spec is not None and not set(spec) <= set(attrs):
        # __init__ may fill the attributes another way (a loop over a table of names, a helper): what it leaves on the object is read from the object
        try:
            o = fresh()
            for a in list(o.attrs):
                if a.startswith('_') and not a.startswith('__') and repo.find_setter(ci, a[1:]) is not None:
                    a = a[1:]
                if a not in exclude and not a.startswith('_') and a not in attrs:
                    attrs.append(a)
        except Exception:
            o = None
    if spec is None or not set(spec) <= set(attrs):
        return pickle_state_agreement(ctx, ci, rule, exclude)
    for f in (gs, ss, ini):
        ctx.fn(f)
    o = o if o is not None else fresh()
    for a, v in spec.items():
        setter = repo.find_setter(ci, a)
        priv = setter_private_attr(setter) if setter is not None else None
        o.attrs[priv or a] = v
    state = I.call(gs, [], selfv=o)
    o2 = fresh()
    r = I.call(ss, [state], selfv=o2) if not isinstance(state, Unk) else state
    undec = []
    results = {}
    for a in attrs:
        if a not in spec:
            continue
        v1, v2 = I.getattr(o, a, None, gs.module), I.getattr(o2, a, None, gs.module)
        results[a] = (v1, v2)
        if isinstance(state, Unk) or isinstance(r, Unk) or isinstance(v1, Unk) or isinstance(v2, Unk):
            undec.append(a)
    if undec:
        # the interpretation does not reach a verdict: fall back on the syntactic form
        return pickle_state_agreement(ctx, ci, rule, exclude)
    for a, (v1, v2) in results.items():
        inst = '%s state key %r' % (ci.name, a)
        if _same(v1, v2):
            ctx.ok(rule, inst, where(gs), 'obj.%s after __setstate__(__getstate__()) is what it was (round trip interpreted)' % a)
        else:
            d1 = alg.show(v1.poly, 80) if isinstance(v1, Arr) else repr(v1)
            d2 = alg.show(v2.poly, 80) if isinstance(v2, Arr) else repr(v2)
            ctx.violation(rule, inst, where(ss), 'the pickle round trip does not give %s back: it was %s and comes back as %s' % (a, d1, d2), 'roundtrip')
    missing = [a for a in attrs if a not in spec]
    for a in missing:
        ctx.undecided(rule, '%s state key %r' % (ci.name, a), where(ini), 'attribute initialised by __init__ has no model in the round-trip specification')
    return results


def conversion_roundtrip(ctx, ci, to_name, from_name, rule='AGREE-1', label='table column'):
    """obj.<to_name>() handed to cls.<from_name>() gives the attributes back (interpreted; tables are modelled by fitsem).  Returns True when decided."""
    from .fitsem import FitsHooks, QCol
    repo = ctx.repo
    spec = _spec(repo, ci.name)
    tofi, fromfi = ci.methods.get(to_name), ci.methods.get(from_name)
    if spec is None or tofi is None or fromfi is None:
        return False
    ctx.fn(tofi); ctx.fn(fromfi)
    I = Interp(repo, FitsHooks())
    o = Obj(ci, {})
    try:
        I.call(ci.methods['__init__'], [], selfv=o)
    except Exception:
        pass
    for a, v in spec.items():
        setter = repo.find_setter(ci, a)
        priv = setter_private_attr(setter) if setter is not None else None
        o.attrs[priv or a] = v
    mid = I.call(tofi, [], selfv=o)
    from .interp import ClassRef
    out = I.call(fromfi, [ClassRef(ci), mid]) if not isinstance(mid, Unk) else mid
    if not isinstance(out, Obj):
        return False
    res = {}
    for a in spec:
        v1, v2 = I.getattr(o, a, None, tofi.module), I.getattr(out, a, None, tofi.module)
        if isinstance(v2, QCol):
            v2 = v2.as_value() if v2.unit is not None else v2.data_
        if isinstance(v1, Unk) or isinstance(v2, Unk):
            return False
        res[a] = (v1, v2)
    for a, (v1, v2) in res.items():
        inst = '%s %s' % (label, a)
        if _same(v1, v2):
            ctx.ok(rule, inst, where(fromfi), '%s(%s()) gives %s back' % (from_name, to_name, a))
        else:
            d1 = alg.show(v1.poly, 80) if isinstance(v1, Arr) else repr(v1)
            d2 = alg.show(v2.poly, 80) if isinstance(v2, Arr) else repr(v2)
            ctx.violation(rule, inst, where(fromfi), '%s(%s()) does not give %s back: it was %s and comes back as %s' % (from_name, to_name, a, d1, d2), 'conversion-roundtrip')
    return True


def extinction_from_file(ctx, rule='AGREE-1'):
    """Extinction.from_file with columns=(3, 1) and symbolic units: wav is file column 3 in wav_unit, chi is file column 1 in chi_unit"""
    from .fitsem import FitsHooks
    from .interp import ClassRef
    repo = ctx.repo
    ci = repo.cls('extinction.extinction', 'Extinction')
    ff = ci.methods.get('from_file')
    if ff is None:
        return False
    ctx.fn(ff)
    I = Interp(repo, FitsHooks())
    uw, uc = unit_atom('Uw'), unit_atom('Uc')
    out = I.call(ff, [ClassRef(ci), 'FILE'], {'columns': (3, 1), 'wav_unit': Arr((), uw, unit=uw), 'chi_unit': Arr((), uc, unit=uc)})
    for f_ in I.findings:
        if f_.kind == 'dtype':
            ctx.violation('DTYPE', 'from_file: element type the table is read into', '%s:%d Extinction.from_file' % (f_.module, f_.line), f_.msg, 'dtype:' + f_.msg[:60])
            return True
    if not isinstance(out, Obj):
        return False
    w, c = I.getattr(out, 'wav', None, ff.module), I.getattr(out, 'chi', None, ff.module)
    if isinstance(w, Unk) or isinstance(c, Unk) or not isinstance(w, Arr) or not isinstance(c, Arr):
        return False
    okw = w.poly == sym('filecol3', 'row') * uw
    okc = c.poly == sym('filecol1', 'row') * uc
    inst = 'from_file fields'
    if okw and okc:
        ctx.ok(rule, inst, where(ff), 'first selected column -> wav in wav_unit ; second -> chi in chi_unit')
    else:
        ctx.violation(rule, inst, where(ff), 'with columns=(3, 1): wav is %s, chi is %s' % (alg.show(w.poly, 60), alg.show(c.poly, 60)), 'from-file')
    return True
