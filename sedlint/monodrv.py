"""The monochromatic driver decided by interpretation on small concrete configurations.

convolve_model_dir_monochromatic is interpreted as it is - helpers inlined, whatever way the chunks are cut - with stand-ins for the file system, the SED
reader, the ConvolvedFluxes objects it fills and the table it returns.  Sizes are concrete (10 wavelengths, 2 models, 1 or 3 apertures, the two
searchsorted counts of the wavelength window and the chunk size given by the memory limit), the *data* are symbolic: the wavelength array, the fluxes and
errors of each model SED.  What the run leaves behind is compared with what the property states:

* one file MO{j+1:03d} for every wavelength index j inside the window, and no other file;
* that file's central wavelength is wavelengths[j], its apertures those of the SEDs, and row im of its names / flux / error is the name / flux column j /
  error column j (over all apertures) of the SED read in iteration im;
* rows are put in parameter-table order (sort_to_match) before the file is written;
* row j of the returned table names that file; the defining SED and the model SEDs are read in the same order.

The configurations cover chunk sizes 1, one that does not divide the window, one that does, the whole window and more than the window, and windows that
are the whole array, an interior range and a single wavelength.  A verdict here is a verdict for those configurations; for the recognised loop shape the
symbolic interval rule (CFG-9 in c16.py) extends it to every chunk size."""
import itertools

from . import alg
from .alg import Poly, P, B, sym, mk_fn
from .interp import Interp, Hooks, Foreign, Arr, Obj, Unk, SymTable, Marker, symarr, scalar, num, unit_atom, PyRaise, _SliceVal
from .loader import AnalysisError

N, A, T = 'n', 'a', 't'
NW, NM = 10, 2


class _Buf(Foreign):
    def __init__(self, owner, name):
        self.owner, self.name = owner, name

    def sl_setitem(self, interp, key, val, node):
        if isinstance(key, _SliceVal) and all(x is None or (isinstance(x, int) and not isinstance(x, bool)) for x in (key.lo, key.hi, key.step)) and key.hi is not None and isinstance(val, (list, tuple)):
            pos = list(range(key.lo or 0, key.hi, key.step or 1))
            if len(pos) == len(val):
                for k_, v_ in zip(pos, val):          # x[a:b] = [v0, v1, ...]: one store per position
                    self.owner.events.append(('store', self.name, k_, v_))
                return
        self.owner.events.append(('store', self.name, key, val))


class _CF(Foreign):
    """a ConvolvedFluxes being filled"""
    def __init__(self, h, kwargs):
        self.h, self.events = h, []
        self.attrs = {}
        for k, v in kwargs.items():
            self.attrs[{'wavelength': 'central_wavelength'}.get(k, k)] = v

    def sl_getattr(self, interp, name, node):
        if name in ('flux', 'error', 'model_names'):
            return _Buf(self, name)
        if name in self.attrs:
            return self.attrs[name]
        return NotImplemented

    def sl_setattr(self, interp, name, val, node):
        self.attrs[{'wavelength': 'central_wavelength'}.get(name, name)] = val

    def sl_method(self, interp, name, args, kw, node):
        if name == 'sort_to_match':
            self.events.append(('sort', args[0] if args else None))
            return None
        if name == 'write':
            self.events.append(('write', args[0] if args else kw.get('filename'), dict(self.attrs)))
            self.h.written.append((args[0] if args else kw.get('filename'), self))
            return None
        return NotImplemented


class _Tbl(Foreign):
    """the table of filters the driver returns"""
    def __init__(self):
        self.cols, self.events = {}, []

    def sl_setitem(self, interp, key, val, node):
        self.cols[key] = val

    def sl_getitem(self, interp, key, node):
        if key in self.cols:
            return _Buf(self, key)
        return NotImplemented


class _Sed(Foreign):
    def __init__(self, k, n_ap):
        self.k, self.n_ap = k, n_ap

    def sl_getattr(self, interp, name, node):
        k = self.k
        if name == 'n_wav':
            return NW
        if name == 'n_ap':
            return self.n_ap
        if name == 'wav':
            return symarr('wav', (N,), unit=unit_atom('micron'))
        if name == 'apertures':
            return symarr('ap', (A,), unit=unit_atom('au'))
        if name == 'flux':
            return symarr('sflux%s' % k, (A, N), unit=unit_atom('mJy'))
        if name == 'error':
            return symarr('serr%s' % k, (A, N), unit=unit_atom('mJy'))
        if name == 'name':
            return 'NAME%s' % k
        return NotImplemented


class _Quiet(Foreign):
    def sl_method(self, interp, name, args, kw, node):
        return None


class MonoHooks(Hooks):
    def __init__(self, n_ap, nb_max, nb_min):
        self.n_ap, self.nb = n_ap, {'wmax': nb_max, 'wmin': nb_min}
        self.written, self.reads, self.tables, self.files = [], [], [], ['M/seds/a.fits.gz', 'M/seds/b.fits.gz']
        self.bad_search, self.wrong_search = [], []

    def construct(self, interp, ci, args, kwargs, node):
        if ci.name == 'ConvolvedFluxes':
            return _CF(self, kwargs)
        return NotImplemented

    def opaque(self, interp, fi, args, kwargs, node):
        q = fi.qual
        if q.endswith(':SED.read'):
            fname = args[-1] if args else kwargs.get('filename')
            self.reads.append((fname, kwargs.get('order', 'nu')))
            if fname not in self.files:
                return Unk('SED.read(%r)' % (fname,))
            return _Sed(self.files.index(fname), self.n_ap)
        if q.endswith(':read_table'):
            return SymTable({'MODEL_NAME': symarr('tname', (T,))}, T)          # the parameter file as stored; load_parameter_table is interpreted
        if q.endswith('parfile:read') or q.endswith(':read') and 'parfile' in q:
            return {}
        return NotImplemented

    def external(self, interp, name, args, kwargs, node, mod):
        last = name.split('.')[-1]
        if name == 'glob.glob':
            return list(self.files) if args and args[0] == 'M/seds/*.fits.gz' else []
        if name == 'os.path.exists':
            return True
        if name in ('os.mkdir', 'os.makedirs'):
            return None
        if name == 'os.path.join':
            return '/'.join(args) if all(isinstance(a_, str) for a_ in args) else Unk('os.path.join of %r' % (args,))
        if name == 'os.path.basename':
            return args[0].split('/')[-1] if isinstance(args[0], str) else Unk('basename')
        if last == 'ProgressBar' or name.startswith('astropy.logger') or name.startswith('logging'):
            return _Quiet()
        if name in ('astropy.table.Table', 'astropy.table.table.Table') and not args:
            t = _Tbl()
            self.tables.append(t)
            return t
        if last in ('count_nonzero', 'sum') and len(args) == 1 and not kwargs:
            # how many wavelengths satisfy a comparison with a bound of the window: decided position by position by where the configuration puts the bounds
            m_ = interp._as_arr(args[0])
            if isinstance(m_, Arr) and m_.dims == (N,) and m_.mask is None and last == 'count_nonzero' or \
                    isinstance(m_, Arr) and m_.dims == (N,) and m_.mask is None and alg.leaf_syms(m_.poly)[0] & {'wmax', 'wmin'} and not (alg.leaf_syms(m_.poly)[0] - {'wmax', 'wmin', 'wav', 'unit:micron'}):
                mic_ = unit_atom('micron')
                ws_ = [alg.index_at(sym('wav', N), N, Poly.const(k_)) for k_ in range(NW)]          # stored in decreasing order
                facts_ = alg.OrderFacts(ws_ + [sym('wmax') * mic_, sym('wmin') * mic_], [4 * (NW - 1 - k_) + 2 for k_ in range(NW)] + [4 * self.nb['wmax'] + 1, 4 * self.nb['wmin']])
                tot_ = 0
                for k_ in range(NW):
                    b_ = facts_.simplify(alg.index_at(m_.poly, N, Poly.const(k_)))
                    if not (b_.is_const() and b_.const_value() in (0, 1)):
                        tot_ = None
                        break
                    tot_ += int(b_.const_value())
                if tot_ is not None:
                    return tot_
            return NotImplemented
        if last == 'searchsorted' and len(args) >= 2:
            tab, q = interp._as_arr(args[0]), interp._as_arr(args[1])
            if isinstance(tab, Arr) and isinstance(q, Arr):
                syms, _ = alg.leaf_syms(q.poly)
                which = [s for s in ('wmax', 'wmin') if s in syms]
                increasing = alg.array_fn('rev', N, sym('wav', N))
                if kwargs.get('sorter') is not None:
                    # searched through a permutation: the table it is said to sort is what is searched
                    srt_ = interp._as_arr(kwargs['sorter'])
                    vals_ = None
                    if isinstance(srt_, Arr) and srt_.ndim == 1 and srt_.mask is None and srt_.dims[0] is not None and interp.axis_len.get(srt_.dims[0]) == NW:
                        vals_ = [alg.index_at(srt_.poly, srt_.dims[0], Poly.const(k_)) for k_ in range(NW)]
                        vals_ = [int(v_.const_value()) for v_ in vals_] if all(v_.is_const() for v_ in vals_) else None
                    if not (vals_ is not None and tab.dims == (N,) and alg.is_zero(tab.poly - sym('wav', N))[0]):
                        self.bad_search.append((alg.show(tab.poly, 80), 'through the sorter %r' % (srt_,)))
                        return Unk('searchsorted through a sorter that is not modelled')
                    if vals_ == list(range(NW - 1, -1, -1)):
                        tab = Arr((N,), increasing, None, tab.unit)          # the stored (decreasing) wavelengths read last to first
                    elif vals_ != list(range(NW)):
                        self.bad_search.append((alg.show(tab.poly, 80), 'through the sorter %r' % (vals_,)))
                        return Unk('searchsorted through a sorter that does not sort the table')
                if len(which) == 1 and tab.dims == (N,) and alg.is_zero(tab.poly - increasing)[0] and kwargs.get('side', 'left') == 'left':
                    return self.nb[which[0]]          # how many of the (increasing) wavelengths lie below the bound
                if len(which) == 1 and tab.dims == (N,) and alg.is_zero(tab.poly + sym('wav', N))[0] and alg.is_zero(q.poly + sym(which[0]) * unit_atom('micron'))[0]:
                    # the negated wavelengths (increasing) searched for the negated bound: how many stored wavelengths lie above the bound
                    return NW - self.nb[which[0]]
                if len(which) == 1 and tab.dims == (N,) and alg.is_zero(tab.poly - sym('wav', N))[0]:
                    self.wrong_search.append(which[0])           # the wavelengths as stored (decreasing): searchsorted needs them increasing
                self.bad_search.append((alg.show(tab.poly, 80), alg.show(q.poly, 60)))
            return Unk('searchsorted on another table than the increasing wavelengths')
        return NotImplemented


def scenarios():
    for n_ap in (3, 1):
        for nb_max, nb_min in ((NW, 0), (8, 2), (5, 4)):
            width = nb_max - nb_min
            for chunk in sorted({1, 2, 4, width, 100}):
                if chunk < 1:
                    continue
                yield n_ap, nb_max, nb_min, chunk


def run_scenario(repo, fi, n_ap, nb_max, nb_min, chunk):
    h = MonoHooks(n_ap, nb_max, nb_min)
    I = Interp(repo, h)
    I.axis_len[N] = NW
    I.axis_len[A] = n_ap
    max_ram = chunk * (4. * 2. * NM * n_ap) / 1024. ** 3
    mic = unit_atom('micron')
    r = I.call(fi, ['M'], {'overwrite': True, 'max_ram': max_ram, 'wav_min': scalar(sym('wmin') * mic, mic), 'wav_max': scalar(sym('wmax') * mic, mic)})
    return I, h, r


def check_scenario(I, h, r, n_ap, nb_max, nb_min):          # noqa: C901
    """-> (verdict, problems): 'ok' | 'violation' | 'undecided'"""
    if h.wrong_search:
        return 'violation', ['orders: the window bound %s is searched for in the wavelengths as stored, which decrease; searchsorted needs them increasing' % h.wrong_search[0]]
    if isinstance(r, Unk) or getattr(I, 'uncaught', None) or getattr(I, 'lost', None) or h.bad_search:
        if h.bad_search:
            return 'undecided', ['the window is not found by searchsorted on the increasing wavelengths: %s' % (h.bad_search[0],)]
        if getattr(I, 'uncaught', None):
            return 'violation', ['the driver stops with %s' % I.uncaught]
        return 'undecided', ['not modelled: %s' % (r if isinstance(r, Unk) else [str(x)[:80] for x in I.lost][:2])]
    # increasing index i lies in the window when nb_min <= i < nb_max; the array is stored decreasing, so i is position NW - 1 - i
    expect = sorted(NW - 1 - i for i in range(nb_min, nb_max))
    problems, unknown = [], []
    paths = {}
    for p, cf in h.written:
        paths.setdefault(p, []).append(cf)
    if any(not isinstance(p, str) for p in paths):
        return 'undecided', ['the name of a file that is written was not followed: %r' % (next(p for p in paths if not isinstance(p, str)),)]
    want_paths = {'M/convolved/MO%03d.fits' % (j + 1): j for j in expect}
    for p in sorted(set(paths) | set(want_paths), key=str):
        if p not in want_paths:
            problems.append('a file %r is written that belongs to no wavelength of the window %s' % (p, expect))
        elif p not in paths:
            problems.append('no file is written for wavelength index %d (%s), inside the window' % (want_paths[p], p.split('/')[-1]))
        elif len(paths[p]) != 1:
            problems.append('%s is written %d times' % (p.split('/')[-1], len(paths[p])))
    wav = sym('wav', N)          # a symbol stands for the physical quantity, whatever unit it is held in

    def same(v, ref, what):
        if not isinstance(v, Arr):
            unknown.append('%s is %r' % (what, v))
            return
        if v.ndim == 1 and v.dims[0] not in (A, None) and I._positional(v.dims[0]) and I.axis_len[v.dims[0]] == h.n_ap:
            v = I._relabel_axis(v, v.dims[0], A)          # a row built along an axis that only counts positions: position a is aperture a
        if h.n_ap == 1:
            # one aperture: element 0 of the aperture axis and the value along that axis are the same thing
            v = v.with_(poly=alg.index_at(v.poly, A, Poly.const(0)))
            ref = alg.index_at(ref, A, Poly.const(0))
        if v.mask is None and h.n_ap > 1 and A in alg.poly_labels(v.poly) | alg.poly_labels(ref) \
                and all(alg.is_zero(alg.index_at(v.poly, A, Poly.const(k_)) - alg.index_at(ref, A, Poly.const(k_)))[0] for k_ in range(h.n_ap)):
            return          # equal aperture by aperture (one side may be written out position by position)
        if v.mask is not None or not alg.is_zero(v.poly - ref)[0]:
            syms, fns = alg.leaf_syms(v.poly - ref)
            if all(s.startswith(('sflux', 'serr', 'wav', 'ap', 'unit:', 'idx:')) for s in syms) and fns <= {'at', 'rev', 'len'}:
                problems.append('%s is %s, not %s' % (what, alg.show(v.poly, 90), alg.show(ref, 90)))
            else:
                unknown.append('%s is %s' % (what, alg.show(v.poly, 90)))
    for p, j in want_paths.items():
        if len(paths.get(p, [])) != 1:
            continue
        cf = paths[p][0]
        tag = p.split('/')[-1]
        wev = [e for e in cf.events if e[0] == 'write'][0]
        attrs = wev[2]
        same(attrs.get('central_wavelength'), mk_fn('at', B(N, wav), P(num(j))), '%s: central wavelength' % tag)
        same(attrs.get('apertures'), sym('ap', A), '%s: apertures' % tag)
        before = cf.events[:cf.events.index(wev)]
        sorts = [e for e in before if e[0] == 'sort']
        if not sorts and any(attrs.get(b_) is not None and not any(e[0] == 'store' and e[1] == b_ for e in before) for b_ in ('flux', 'error', 'model_names')):
            unknown.append('%s: the tables are handed over as a whole; whether their rows are in parameter-table order was not decided' % tag)
        elif not sorts:
            problems.append('%s: rows are not put in parameter-table order (sort_to_match) before the file is written' % tag)
        elif not (isinstance(sorts[-1][1], Arr) and alg.is_zero(sorts[-1][1].poly - sym('tname', T))[0]):
            unknown.append('%s: sort_to_match argument %r' % (tag, sorts[-1][1]))
        if any(e[0] == 'store' for e in cf.events[cf.events.index(wev):]):
            problems.append('%s: values are stored after the file is written' % tag)
        for im in range(NM):
            for buf, base in (('flux', 'sflux%d' % im), ('error', 'serr%d' % im)):
                st = [e for e in before if e[0] == 'store' and e[1] == buf and (e[2] == im or (isinstance(e[2], tuple) and e[2] and e[2][0] == im))]
                whole = attrs.get(buf)
                if not st and whole is not None:
                    # the table was handed to the ConvolvedFluxes as a whole (constructor or attribute): row im of it, when the model axis can be told
                    if isinstance(whole, Arr) and whole.ndim >= 1 and whole.mask is None and whole.dims[0] is not None and I.axis_len.get(whole.dims[0]) == NM:
                        v = Arr(tuple(whole.dims[1:]), alg.index_at(whole.poly, whole.dims[0], Poly.const(im)), unit=whole.unit)
                        st = [('store', buf, im, v)]
                    else:
                        unknown.append('%s: %s table given as a whole, %r' % (tag, buf, whole))
                        continue
                if len(st) != 1:
                    problems.append('%s: row %d of %s is stored %d times' % (tag, im, buf, len(st)))
                    continue
                v = st[0][3]
                col = mk_fn('at', B(N, sym(base, A, N)), P(num(j)))
                if isinstance(v, Arr) and v.ndim == 0 and h.n_ap == 1:
                    col = mk_fn('at', B(A, col), P(Poly()))
                same(v, col, '%s: row %d of %s' % (tag, im, buf))
            st = [e for e in before if e[0] == 'store' and e[1] == 'model_names' and e[2] == im]
            if not st and attrs.get('model_names') is not None:
                whole = attrs.get('model_names')
                if isinstance(whole, Arr) and whole.ndim == 1 and whole.mask is None and whole.dims[0] is not None and I.axis_len.get(whole.dims[0]) == NM:
                    # the names handed over as one array: row im of it
                    got_nm = alg.index_at(whole.poly, whole.dims[0], Poly.const(im))
                    if not (got_nm == sym('str:NAME%d' % im)):
                        (problems if alg.leaf_syms(got_nm)[0] <= {'str:NAME%d' % k_ for k_ in range(NM)} else unknown).append('%s: row %d of the model names is %s' % (tag, im, alg.show(got_nm, 60)))
                    continue
                unknown.append('%s: model names given as a whole, %r' % (tag, whole))
                continue
            if len(st) != 1 or st[0][3] != 'NAME%d' % im:
                problems.append('%s: row %d of the model names is %r' % (tag, im, [e[3] for e in st]))
        rows = [e for e in before if e[0] == 'store' and e[1] in ('flux', 'error', 'model_names') and not (e[2] in range(NM) or (isinstance(e[2], tuple) and e[2] and e[2][0] in range(NM)))]
        if rows:
            unknown.append('%s: store with key %r' % (tag, rows[0][2]))
    # the returned table
    tbl = r if isinstance(r, _Tbl) else None
    if tbl is None:
        unknown.append('the driver returns %r' % (r,))
    else:
        got = {}
        for e in tbl.events:
            if e[0] == 'store' and e[1] == 'filter':
                got.setdefault(e[2], []).append(e[3])
        for j in expect:
            nm = 'MO%03d' % (j + 1)
            if [x.decode() if isinstance(x, bytes) else x for x in got.get(j, [])] != [nm]:
                problems.append('row %d of the returned table names %r, not %s' % (j, got.get(j), nm))
        for j in got:
            if not (isinstance(j, int) and not isinstance(j, bool)):
                unknown.append('row key %r of the returned table' % (j,))
            elif j not in expect:
                problems.append('row %r of the returned table is filled although that wavelength is outside the window' % (j,))
        w = tbl.cols.get('wav')
        if not (isinstance(w, Arr) and alg.is_zero(w.poly - wav)[0]):
            unknown.append('wavelength column of the returned table is %r' % (w,))
    orders = {o for f, o in h.reads}
    if len(orders) != 1:
        problems.append('the defining SED and the model SEDs are read with orders %s: index j denotes different wavelengths' % sorted(map(str, orders)))
    elif orders != {'nu'}:
        problems.append('SEDs read with order %s: the wavelengths are then increasing, and the window search assumes them decreasing' % sorted(orders))
    if problems:
        return 'violation', problems
    if unknown:
        return 'undecided', unknown
    return 'ok', ['files %s' % [('MO%03d' % (j + 1)) for j in expect]]


def rule_of(problem):
    """the rule of c16 a problem belongs to"""
    if 'sort_to_match' in problem or 'after the file is written' in problem:
        return 'CFG-5'
    if 'read with order' in problem or 'orders' in problem:
        return 'ALG-18'
    if 'no file is written' in problem or 'belongs to no wavelength' in problem or 'is written' in problem and 'times' in problem or 'outside the window' in problem:
        return 'CFG-9'
    return 'PERM-8'


def decide(ctx, repo, fi, where_):
    """Run every configuration; report per (apertures, window) group and rule.  Returns 'ok' | 'violation' | 'undecided'."""
    groups = {}
    for sc in scenarios():
        n_ap, nb_max, nb_min, chunk = sc
        try:
            I, h, r = run_scenario(repo, fi, *sc)
            v, pr = check_scenario(I, h, r, n_ap, nb_max, nb_min)
        except (AnalysisError, RecursionError) as ex:
            v, pr = 'undecided', ['not interpreted: %s' % str(ex)[:100]]
        groups.setdefault((n_ap, nb_max, nb_min), []).append((chunk, v, pr))
    overall = 'ok'
    for (n_ap, nb_max, nb_min), res in sorted(groups.items()):
        expect = sorted(NW - 1 - i for i in range(nb_min, nb_max))
        tag = '%d aperture%s, window = wavelength indices %d..%d of %d' % (n_ap, '' if n_ap == 1 else 's', expect[0], expect[-1], NW)
        chunks = [c for c, _, _ in res]
        und = [(c, pr) for c, v, pr in res if v == 'undecided']
        bad = [(c, pr) for c, v, pr in res if v == 'violation']
        by_rule = {}
        for c, pr in bad:
            for p_ in pr:
                by_rule.setdefault(rule_of(p_), []).append((c, p_))
        for rule, what in (('CFG-9', 'one file per wavelength of the window, whatever the chunk size'), ('PERM-8', 'each file holds the wavelength, flux and error columns of its own index and the table row names it'),
                           ('CFG-5', 'rows put in parameter-table order before each file is written'), ('ALG-18', 'defining SED and model SEDs read in frequency order; window found on the increasing wavelengths')):
            inst = 'driver interpreted (%s): %s' % (tag, what)
            if rule in by_rule:
                c, p_ = by_rule[rule][0]
                ctx.violation(rule, inst, where_, 'with chunks of %d wavelength%s: %s%s' % (c, '' if c == 1 else 's', p_, (' (and %d more)' % (len(by_rule[rule]) - 1)) if len(by_rule[rule]) > 1 else ''),
                              'driver:%s:%s' % (rule, p_.split(':')[-1][:40]))
                overall = 'violation'
            elif und or bad:
                if und:
                    ctx.undecided(rule, inst, where_, 'with chunks of %d: %s' % (und[0][0], str(und[0][1][0])[:160]))
                    if overall == 'ok':
                        overall = 'undecided'
                else:
                    ctx.ok(rule, inst, where_, 'holds in the configurations with chunk sizes %s (another rule is violated there)' % chunks)
            else:
                ctx.ok(rule, inst, where_, 'holds for chunk sizes %s' % chunks)
    return overall
