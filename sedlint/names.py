"""NAME-1: a name read in an analysed function that nothing binds - no parameter, local, enclosing scope, module global, import or builtin - raises
NameError the moment the line is reached.  Decided with the standard library's symtable (the compiler's own scope analysis) per module; `from x import *`
in the module, or a use of globals() / exec / eval, makes the module's verdicts UNDECIDED instead (nothing in the package does that today)."""
import ast, builtins, symtable

_BUILTINS = set(dir(builtins)) | {'__file__', '__name__', '__doc__', '__package__', '__spec__', '__loader__', '__builtins__', '__debug__', '__class__'}


def _module_bindings(tree):
    names, star, dynamic = set(), False, False
    for n in ast.walk(tree):
        if isinstance(n, ast.ImportFrom) and any(a.name == '*' for a in n.names):
            star = True
        if isinstance(n, ast.Call) and isinstance(n.func, ast.Name) and n.func.id in ('exec', 'eval', 'globals', 'vars', 'locals'):
            dynamic = True
    return star, dynamic


def undefined_reads(source, path):
    """-> (list of (function qualified path as a tuple of scope names, name, [line numbers]), opaque: bool)"""
    tree = ast.parse(source)
    star, dynamic = _module_bindings(tree)
    top = symtable.symtable(source, path, 'exec')
    mod_names = {s.get_name() for s in top.get_symbols() if s.is_assigned() or s.is_imported() or s.is_namespace() or s.is_parameter()}
    out = []

    def lines_of(fn_node, name):
        return sorted({n.lineno for n in ast.walk(fn_node) if isinstance(n, ast.Name) and n.id == name and isinstance(n.ctx, ast.Load)})

    def find_node(scope_path):
        body = tree.body
        node = tree
        for nm, ln in scope_path:
            nxt = None
            for n in ast.walk(node):
                if isinstance(n, (ast.FunctionDef, ast.AsyncFunctionDef, ast.ClassDef, ast.Lambda)) and getattr(n, 'name', '<lambda>') == nm and n.lineno == ln and n is not node:
                    nxt = n
                    break
            if nxt is None:
                return None
            node = nxt
        return node

    def walk(tab, scope_path):
        for ch in tab.get_children():
            p = scope_path + [(ch.get_name() if ch.get_type() != 'function' or ch.get_name() != 'lambda' else '<lambda>', ch.get_lineno())]
            if ch.get_type() == 'function':
                for s in ch.get_symbols():
                    if not s.is_referenced():
                        continue
                    nm = s.get_name()
                    # a name the compiler resolves to the global scope (implicitly or by declaration) and that the module never binds, nor builtins
                    if s.is_global() and not s.is_declared_global() and nm not in mod_names and nm not in _BUILTINS:
                        node = find_node(p)
                        out.append((tuple(x[0] for x in p), nm, lines_of(node, nm) if node is not None else [ch.get_lineno()]))
            walk(ch, p)
    walk(top, [])
    return out, (star or dynamic)


def names_rule(ctx):
    """every function the property's rules analysed (ctx.fn): no read of a name that nothing binds"""
    repo = ctx.repo
    wanted = {}
    for q in sorted(ctx.analysed['functions']):
        modname, _, fn = q.partition(':')
        wanted.setdefault(modname, set()).add(tuple(fn.replace('@getter', '').replace('@setter', '').split('.')))
    for modname, fns in wanted.items():
        mod = next((m for m in repo.modules.values() if m.name == modname), None)
        if mod is None:
            continue
        try:
            import warnings
            with warnings.catch_warnings():
                warnings.simplefilter('ignore', SyntaxWarning)
                und, opaque = undefined_reads(mod.text, mod.path)
        except SyntaxError:
            continue
        for scope, nm, lines in und:
            if not any(scope[:len(f)] == f for f in fns):
                continue
            inst = '%s reads the name %r' % ('.'.join(scope), nm)
            where = '%s:%d %s' % (mod.path, lines[0] if lines else 0, '.'.join(scope))
            if opaque:
                ctx.undecided('NAME-1', inst, where, 'nothing in the module binds it, but the module imports * or builds names at run time')
            else:
                ctx.violation('NAME-1', inst, where, 'nothing binds this name - no parameter, local, enclosing scope, module global, import or builtin: NameError as soon as line %s is '
                              'reached' % ', '.join(map(str, lines[:3])), 'undefined-name:%s' % nm)
