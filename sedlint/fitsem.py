"""Symbolic model of the part of astropy.io.fits / astropy.table the package uses, for interpreting writers and readers (E5 foreign objects).

A file is what the writer hands to ``HDUList.writeto``: a list of HDUs, each with a header (keywords upper-cased, as FITS does), an optional name,
and either an image array or a table whose columns hold *bare numbers* (``np.array(table)`` drops units) plus a per-column unit *string*.
Reading gives back exactly those pieces: ``hdu.data.field(name)`` / ``hdu.data[name]`` the bare column, ``hdu.columns[i].unit`` the unit string,
``hdu.header[KEY]`` the stored value; ``Table.read(hdu)`` gives columns carrying ``.data`` (bare) and ``.unit`` (parsed, or None).
A unit string is modelled by the unit it spells (``UnitStr``): ``unit.to_string()`` makes one, ``u.Unit(s)`` / the repo's ``parse_unit_safe`` parse it.
A look-up of an HDU name that was not written raises KeyError, as astropy does (optional parts are read in try/except KeyError)."""
import ast

from . import alg
from .alg import Poly
from .interp import Foreign, PyRaise, Hooks, Arr, Obj, Unk, Marker, num, unit_atom, UNIT_ATOMS, _SliceVal, UnitStr


def unit_of_string(s):
    """the unit a unit string spells: UnitStr | python str | None -> unit Arr | None | Unk"""
    if s is None:
        return None
    if isinstance(s, UnitStr):
        return Arr((), s.poly, unit=s.poly)
    if isinstance(s, str):
        t = s.strip()
        if t in UNIT_ATOMS:
            ua = unit_atom(t)
            return Arr((), ua, unit=ua)
        return Unk('unit string %r' % s)
    if isinstance(s, Arr) and s.unit is not None and s.poly == s.unit:
        return s
    return Unk('unit string %r' % (s,))


def bare(a):
    """the numbers stored for a quantity: value / unit"""
    if isinstance(a, Arr) and a.unit is not None:
        return Arr(a.dims, a.poly * a.unit.pow(-1), a.mask, num(1))
    return a


class FColumn(Foreign):
    """one column descriptor of a table HDU (``hdu.columns[i]``) or of an astropy Table (``table.columns[i]``)"""
    def __init__(self, owner, index):
        self.owner, self.index = owner, index

    def sl_getattr(self, interp, name, node):
        if name == 'unit':
            return self.owner.get_unit(self.index)
        if name == 'name':
            return self.owner.names()[self.index]
        return Unk('column attribute %s' % name, node)

    def sl_setattr(self, interp, name, val, node):
        if name == 'unit':
            self.owner.set_unit(self.index, val)
            return None
        return NotImplemented


class FColumns(Foreign):
    def __init__(self, owner):
        self.owner = owner

    def sl_getitem(self, interp, key, node):
        n = len(self.owner.names())
        if isinstance(key, int) and -n <= key < n:
            return FColumn(self.owner, key % n)
        if isinstance(key, str) and key in self.owner.names():
            return FColumn(self.owner, self.owner.names().index(key))
        if isinstance(key, int):
            raise PyRaise('IndexError', 'column %d' % key)
        return Unk('column index %r' % (key,), node)

    def sl_len(self, interp):
        return len(self.owner.names())

    def sl_iter(self, interp):
        return [FColumn(self.owner, i) for i in range(len(self.owner.names()))]


class QCol(Foreign):
    """a column of an astropy Table: data (bare numbers), unit (unit value or None)"""
    def __init__(self, data, unit):
        self.data_, self.unit = data, unit

    def as_value(self):
        if self.unit is None or not isinstance(self.data_, Arr):
            return self.data_
        return Arr(self.data_.dims, self.data_.poly * self.unit.poly, self.data_.mask, self.unit.poly)

    def sl_getattr(self, interp, name, node):
        if name == 'unit':
            return self.unit
        if name in ('data', 'value'):
            return self.data_
        if name == 'quantity':
            return self.as_value()
        if isinstance(self.data_, Arr):
            if name == 'ndim':
                return self.data_.ndim
            if name == 'shape':
                from .interp import Shape
                return Shape(self.data_.dims)
        return NotImplemented

    def sl_setattr(self, interp, name, val, node):
        if name == 'unit':
            v = interp._as_arr(val) if not isinstance(val, (Arr, type(None))) else val
            self.unit = v if isinstance(v, Arr) or v is None else unit_of_string(val)
            return None
        return NotImplemented

    def sl_method(self, interp, name, args, kw, node):
        if name in ('astype', 'copy') and isinstance(self.data_, Arr):
            return self.data_
        if name == 'to' and args:
            return interp.method(self.as_value(), 'to', args, kw, node, None)
        return NotImplemented

    def sl_len(self, interp):
        if isinstance(self.data_, Arr) and self.data_.ndim >= 1 and self.data_.dims[0]:
            return Arr((), alg.count(self.data_.dims[0]), unit=num(1))
        return NotImplemented


class FTable(Foreign):
    """an astropy Table being built (columns are arrays / quantities), or the structured array ``np.array(table)`` (units dropped)"""
    def __init__(self, cols=None, struct=False, units=None):
        self.cols = dict(cols or {})        # insertion-ordered
        self.struct = struct
        self.units = dict(units or {})      # for tables read back from an HDU: name -> unit value / None

    def names(self):
        return list(self.cols)

    def get_unit(self, i):
        a = self.cols[self.names()[i]]
        if self.names()[i] in self.units:
            return self.units[self.names()[i]]
        if isinstance(a, Arr) and a.unit is not None and not (a.unit == num(1)):
            return Arr((), a.unit, unit=a.unit)
        return None

    def set_unit(self, i, val):
        self.units[self.names()[i]] = val

    def sl_setitem(self, interp, key, val, node):
        if isinstance(key, str):
            v = val
            if isinstance(v, (list, tuple)):
                v = interp._list_to_arr(list(v))
            elif not isinstance(v, (Arr, QCol)):
                v = interp._as_arr(v)
            self.cols[key] = v
            return None
        return NotImplemented

    def sl_getitem(self, interp, key, node):
        if isinstance(key, str):
            if key not in self.cols:
                raise PyRaise('KeyError', key)
            a = self.cols[key]
            if self.units or self.struct is None:
                return QCol(a, self.units.get(key))
            if self.struct:
                return a                                   # a field of the structured array: bare numbers
            if isinstance(a, Arr):
                i = self.names().index(key)
                return QCol(bare(a), self.get_unit(i))     # a column of an astropy Table: .data (bare numbers) and .unit
            return a
        if isinstance(key, Arr) and key.ndim == 1:
            out = FTable(struct=self.struct, units=self.units)
            for n, a in self.cols.items():
                if not isinstance(a, Arr) or a.ndim < 1 or not a.dims[0]:
                    return Unk('row selection of column %s' % n, node)
                out.cols[n] = Arr((key.dims[0],) + tuple(a.dims[1:]), alg.mk_fn('at', alg.B(a.dims[0], a.poly), alg.P(key.poly)), unit=a.unit)
            return out
        return Unk('table index %r' % (key,), node)

    def sl_getattr(self, interp, name, node):
        if name == 'columns':
            return FColumns(self)
        if name == 'colnames':
            return self.names()
        if name == 'dtype':
            return Obj(None, {'names': tuple(self.names())})
        return NotImplemented

    def sl_method(self, interp, name, args, kw, node):
        if name == 'field' and args and isinstance(args[0], str):
            return self.sl_getitem(interp, args[0], node)
        if name == 'itercols':
            return [QCol(bare(self.cols[n]) if isinstance(self.cols[n], Arr) else self.cols[n], self.get_unit(i)) for i, n in enumerate(self.names())]
        if name == 'keys':
            return self.names()
        if name == 'sort' and args and isinstance(args[0], str) and args[0] in self.cols:
            k = self.cols[args[0]]
            order = Arr(k.dims, alg.array_fn('argsort', k.dims[0], k.poly), unit=num(1))
            new = self.sl_getitem(interp, order, node)
            if isinstance(new, FTable):
                self.cols = new.cols
                return None
        if name == 'argsort' and args and isinstance(args[0], str) and args[0] in self.cols:
            k = self.cols[args[0]]
            return Arr(k.dims, alg.array_fn('argsort', k.dims[0], k.poly), unit=num(1))
        return NotImplemented

    def sl_contains(self, interp, item):
        return item in self.cols if isinstance(item, str) else NotImplemented

    def sl_len(self, interp):
        for a in self.cols.values():
            if isinstance(a, Arr) and a.ndim >= 1 and a.dims[0]:
                return Arr((), alg.count(a.dims[0]), unit=num(1))
        return NotImplemented

    def to_struct(self):
        return FTable({n: bare(a) for n, a in self.cols.items()}, struct=True)


class FHeader(Foreign):
    def __init__(self):
        self.kv = {}

    def sl_setitem(self, interp, key, val, node):
        if isinstance(key, str):
            self.kv[key.upper()] = val[0] if isinstance(val, tuple) and val else val      # (value, comment)
            return None
        return NotImplemented

    def sl_getitem(self, interp, key, node):
        if isinstance(key, str):
            if key.upper() not in self.kv:
                raise PyRaise('KeyError', key)
            return self.kv[key.upper()]
        return NotImplemented

    def sl_contains(self, interp, item):
        return item.upper() in self.kv if isinstance(item, str) else NotImplemented

    def sl_method(self, interp, name, args, kw, node):
        if name == 'get' and args and isinstance(args[0], str):
            return self.kv.get(args[0].upper(), args[1] if len(args) > 1 else None)
        return NotImplemented


class FHDU(Foreign):
    def __init__(self, kind, data=None, name=None):
        self.kind, self.data, self.header = kind, data, FHeader()
        self.colunits = {}      # column index -> unit string
        self.name_ = name

    @property
    def name(self):
        return self.header.kv.get('EXTNAME', self.name_)

    # column-descriptor interface (hdu.columns[i].unit)
    def names(self):
        return self.data.names() if isinstance(self.data, FTable) else []

    def get_unit(self, i):
        return self.colunits.get(i)

    def set_unit(self, i, val):
        self.colunits[i] = val

    def sl_getattr(self, interp, name, node):
        if name == 'header':
            return self.header
        if name == 'data':
            return self.data
        if name == 'columns':
            return FColumns(self)
        if name == 'name':
            return self.name
        return NotImplemented

    def sl_setattr(self, interp, name, val, node):
        if name == 'name':
            self.name_ = val
            self.header.kv.pop('EXTNAME', None)
            return None
        return NotImplemented


class FHDUList(Foreign):
    def __init__(self, hdus=None):
        self.hdus = list(hdus or [])
        self.written_to = None

    def sl_getitem(self, interp, key, node):
        if isinstance(key, int):
            if -len(self.hdus) <= key < len(self.hdus):
                return self.hdus[key]
            raise PyRaise('IndexError', 'HDU %d' % key)
        if isinstance(key, str):
            for h in self.hdus:
                if isinstance(h.name, str) and h.name.upper() == key.upper():
                    return h
            if any(not isinstance(h, FHDU) or not isinstance(h.name, (str, type(None))) for h in self.hdus) or getattr(self, 'incomplete', False):
                return Unk('extension %r: the file holds parts that were not modelled' % key)          # it may be one of those
            raise PyRaise('KeyError', "Extension %r not found" % key)
        return NotImplemented

    def sl_method(self, interp, name, args, kw, node):
        if name == 'append' and args and isinstance(args[0], FHDU):
            self.hdus.append(args[0])
            return None
        if name in ('append', 'insert', 'extend'):
            self.incomplete = True          # something that is not a modelled HDU was put into the file
            return None
        if name == 'writeto' and args:
            self.written_to = args[0]
            hooks = interp.hooks
            if hasattr(hooks, 'written'):
                hooks.written.append(self)
            return None
        if name == 'close':
            return None
        return NotImplemented

    def sl_len(self, interp):
        return len(self.hdus)

    def sl_iter(self, interp):
        return list(self.hdus)

    def sl_contains(self, interp, item):
        if isinstance(item, str):
            return any(isinstance(h.name, str) and h.name.upper() == item.upper() for h in self.hdus)
        return NotImplemented


def table_from_hdu(h):
    """astropy's Table.read(hdu): columns with .data (bare numbers) and .unit (parsed unit or None)"""
    t = FTable(struct=None)
    for i, n in enumerate(h.data.names()):
        t.cols[n] = h.data.cols[n]
        t.units[n] = unit_of_string(h.colunits.get(i))
    return t


class FitsHooks(Hooks):
    """library calls of the FITS writers / readers; ``file``: the HDU list a reader gets from fits.open (set by the harness)"""
    def __init__(self, file=None):
        self.written = []
        self.file = file

    def opaque(self, interp, fi, args, kwargs, node):
        if fi.name in ('validate_array', 'validate_scalar'):
            return args[1] if len(args) > 1 else kwargs.get('value')
        return NotImplemented

    def external(self, interp, name, args, kwargs, node, mod):
        last = name.split('.')[-1]
        if name.startswith('astropy.io.fits') or name.startswith('astropy.io.fits.'):
            if last == 'PrimaryHDU':
                d = kwargs.get('data', args[0] if args else None)
                return FHDU('primary', bare(d) if isinstance(d, Arr) else d)
            if last == 'ImageHDU':
                d = kwargs.get('data', args[0] if args else None)
                h = FHDU('image', bare(d) if isinstance(d, Arr) else d, kwargs.get('name'))
                return h
            if last == 'BinTableHDU':
                d = kwargs.get('data', args[0] if args else None)
                if isinstance(d, FTable):
                    h = FHDU('table', d if d.struct else d.to_struct(), kwargs.get('name'))
                    if not d.struct:
                        # a Table handed over directly keeps its column units (astropy writes TUNIT from them)
                        for i, n in enumerate(d.names()):
                            un = d.get_unit(i)
                            if isinstance(un, Arr):
                                h.colunits[i] = UnitStr(un.poly)
                    return h
                return Unk('BinTableHDU of %r' % (d,), node)
            if last == 'HDUList':
                hd = args[0] if args else []
                if isinstance(hd, (list, tuple)) and all(isinstance(x, FHDU) for x in hd):
                    return FHDUList(hd)
                return Unk('HDUList of %r' % (hd,), node)
            if last == 'open':
                return self.file if self.file is not None else Unk('fits.open without a file', node)
        if name in ('astropy.table.Table', 'astropy.table.table.Table'):
            if not args:
                return FTable()
            names = kwargs.get('names')
            if isinstance(args[0], (list, tuple)) and isinstance(names, (list, tuple)) and len(names) == len(args[0]):
                t = FTable()
                for n, a in zip(names, args[0]):
                    t.sl_setitem(interp, n, a, node)
                return t
            return Unk('Table(...) form', node)
        if name in ('astropy.table.Table.read', 'astropy.table.table.Table.read') and args and isinstance(args[0], FHDU) and isinstance(args[0].data, FTable):
            return table_from_hdu(args[0])
        if name == 'numpy.array' and args and isinstance(args[0], FTable):
            return args[0] if args[0].struct else args[0].to_struct()
        if name in ('astropy.units.Unit', 'astropy.units.core.Unit') and args:
            return unit_of_string(args[0])
        if name in ('astropy.units.Quantity', 'astropy.units.quantity.Quantity') and args:
            v = args[0].as_value() if isinstance(args[0], QCol) else interp._as_arr(args[0])
            un = kwargs.get('unit', args[1] if len(args) > 1 else None)
            if un is None:
                return v
            ua = interp._as_arr(un) if not isinstance(un, Arr) else un
            if isinstance(v, Arr) and isinstance(ua, Arr):
                return interp.binop(ast.Mult(), bare(v) if (v.unit is not None and not (v.unit == num(1))) and False else v, ua, node)
            return Unk('Quantity(%r, %r)' % (v, un), node)
        if name == 'numpy.loadtxt':
            # a text table: file column k is the symbolic array col<k>; dtype fields / unpack=True follow the order of usecols
            from .interp import symarr
            uc = kwargs.get('usecols')
            dt = kwargs.get('dtype')
            # the element type the text is read into: single (or half) precision moves every value by a relative 6e-8 (1e-3) - a request on a tabulated
            # value no longer meets it
            from .interp import Marker, Finding
            def narrow(t_):
                return (isinstance(t_, str) and t_.lstrip('<>=|') in ('f', 'f4', 'float32', 'single', 'e', 'f2', 'float16', 'half')) or \
                       (isinstance(t_, Marker) and t_.name.split('.')[-1] in ('float32', 'single', 'float16', 'half'))
            kinds_ = [f_[1] for f_ in dt if isinstance(f_, tuple) and len(f_) >= 2] if isinstance(dt, list) else [dt]
            if any(narrow(t_) for t_ in kinds_):
                interp.findings.append(Finding('dtype', 'np.loadtxt reads the table with dtype %r: single precision, the values read differ from the values in the file' % (dt,), node, mod.path))
            if isinstance(uc, int) and not isinstance(uc, bool):
                uc = [uc]
            if isinstance(uc, (list, tuple)) and len(uc) == 1 and isinstance(uc[0], int) and not isinstance(dt, list) and not kwargs.get('unpack'):
                return symarr('filecol%d' % uc[0], ('row',), unit=num(1))          # one column asked for: numpy returns it as a 1-d array
            if isinstance(uc, (list, tuple)) and all(isinstance(k_, int) for k_ in uc):
                colsym = [symarr('filecol%d' % k_, ('row',), unit=num(1)) for k_ in uc]
                if isinstance(dt, list) and all(isinstance(f_, tuple) and len(f_) == 2 and isinstance(f_[0], str) for f_ in dt) and len(dt) == len(uc):
                    return FTable({f_[0]: c_ for f_, c_ in zip(dt, colsym)}, struct=True)
                if kwargs.get('unpack') is True and not isinstance(dt, list):        # dtype=float or absent: plain columns
                    return tuple(colsym)
            return Unk('np.loadtxt form', node)
        if name.startswith('os.path.exists'):
            return not (args and isinstance(args[0], str) and args[0].endswith('.gz'))
        if name.startswith('os.path.') or name.startswith('os.'):
            return NotImplemented
        return NotImplemented
