"""AGREE-3/4/5: FITS writer vs reader agreement, extracted from the syntax tree.

Writer model: ordered HDUs with kind, name, table columns (name, source attributes), per-column unit
sources, header keywords (value source attributes, unit atoms), image data source.
Reader model: for every attribute stored into the object being built, the FITS accesses its value
derives from (HDU by index or name, column, unit source, header keyword), through local variables."""
import ast

from .astutil import up, chain, walk_local, stores, const, calls, kw, root_name
from .loader import AnalysisError


def attr_roots(e, obj, env=None, _depth=0):
    """attributes of ``obj`` (e.g. self) an expression derives from, through single-assignment locals"""
    out = set()
    if e is None or _depth > 6:
        return out
    for n in walk_local(e):
        if isinstance(n, ast.Attribute) and isinstance(n.value, ast.Name) and n.value.id == obj:
            out.add(n.attr)
        elif isinstance(n, ast.Name) and env and n.id in env and n.id != obj:
            for v in env[n.id]:
                out |= attr_roots(v, obj, env, _depth + 1)
    return out


def unit_atoms(e):
    """names u.X appearing in an expression"""
    return {n.attr for n in walk_local(e) if isinstance(n, ast.Attribute) and isinstance(n.value, ast.Name) and n.value.id == 'u'} if e is not None else set()


class Hdu:
    def __init__(self, var, kind):
        self.var, self.kind = var, kind
        self.name = None
        self.table = None
        self.columns = []       # [(colname, value expr)]
        self.units = {}         # idx -> expr | 'auto'
        self.header = {}        # KEY -> expr
        self.data = None
        self.conditional = False

    def colnames(self):
        return [c for c, _ in self.columns]


class Writer:
    def __init__(self, fi):
        self.fi = fi
        self.me = fi.params[0]
        self.tables = {}     # var -> [(col, expr)]
        self.hdus = {}       # var -> Hdu
        self.order = []      # hdu vars in file order
        self.locals = {}     # name -> [value exprs]
        self._scan()

    def _scan(self):
        fi = self.fi
        body_stmts = []

        def collect(stmts, cond):
            for st in stmts:
                if isinstance(st, ast.If):
                    collect(st.body, True)
                    collect(st.orelse, True)
                elif isinstance(st, (ast.For, ast.While, ast.With, ast.Try)):
                    for f in ('body', 'orelse', 'finalbody'):
                        collect(getattr(st, f, []) or [], True)
                else:
                    body_stmts.append((st, cond))
        collect(fi.node.body, False)
        for st, cond in body_stmts:
            if isinstance(st, ast.Assign) and len(st.targets) == 1:
                t, v = st.targets[0], st.value
                if isinstance(t, ast.Name):
                    self.locals.setdefault(t.id, []).append(v)
                    if isinstance(v, ast.Call):
                        cn = chain(v.func) or ''
                        last = cn.split('.')[-1]
                        if last == 'Table' and not v.args:
                            self.tables[t.id] = []
                            continue
                        if last in ('PrimaryHDU', 'ImageHDU'):
                            h = Hdu(t.id, 'primary' if last == 'PrimaryHDU' else 'image')
                            h.data = v.args[0] if v.args else kw(v, 'data')
                            h.conditional = cond
                            self.hdus[t.id] = h
                            continue
                        if last in ('BinTableHDU', 'table_to_hdu'):
                            h = Hdu(t.id, 'table')
                            src = v.args[0] if v.args else None
                            tv = None
                            for n in walk_local(src) if src is not None else []:
                                if isinstance(n, ast.Name) and n.id in self.tables:
                                    tv = n.id
                            h.table = tv
                            if tv is not None:
                                h.columns = self.tables[tv]      # shared list: later column additions are seen
                            nm = kw(v, 'name')
                            if nm is not None:
                                h.name = const(nm)
                            if last == 'table_to_hdu':
                                h.units = 'auto'
                            h.conditional = cond
                            self.hdus[t.id] = h
                            continue
                        if last == 'HDUList':
                            if v.args:
                                self._order_from(v.args[0])
                            continue
                    # table alias:  twav = twav[order]
                    if isinstance(v, ast.Subscript) and isinstance(v.value, ast.Name) and v.value.id in self.tables:
                        self.tables[t.id] = self.tables[v.value.id]
                        continue
                    if isinstance(v, (ast.List, ast.IfExp)) and any(isinstance(n, ast.Name) and n.id in self.hdus for n in walk_local(v)):
                        self.locals.setdefault(t.id, []).append(v)
                    continue
                if isinstance(t, ast.Subscript):
                    base = t.value
                    key = const(t.slice)
                    if isinstance(base, ast.Name) and base.id in self.tables and isinstance(key, str):
                        cols = self.tables[base.id]
                        for i, (c, _) in enumerate(cols):
                            if c == key:
                                cols[i] = (key, v)
                                break
                        else:
                            cols.append((key, v))
                        continue
                    if isinstance(base, ast.Attribute) and base.attr == 'header' and isinstance(base.value, ast.Name) and base.value.id in self.hdus and isinstance(key, str):
                        h = self.hdus[base.value.id]
                        val = v.elts[0] if isinstance(v, ast.Tuple) and v.elts else v
                        if key.upper() == 'EXTNAME':
                            h.name = const(val)
                        else:
                            h.header[key.upper()] = val
                        continue
                if isinstance(t, ast.Attribute):
                    # hdu.name = 'X'   |   hdu.columns[i].unit = expr
                    if t.attr == 'name' and isinstance(t.value, ast.Name) and t.value.id in self.hdus:
                        self.hdus[t.value.id].name = const(v)
                        continue
                    if t.attr == 'unit' and isinstance(t.value, ast.Subscript) and isinstance(t.value.value, ast.Attribute) and t.value.value.attr == 'columns' \
                            and isinstance(t.value.value.value, ast.Name) and t.value.value.value.id in self.hdus:
                        h = self.hdus[t.value.value.value.id]
                        i = const(t.value.slice)
                        if isinstance(h.units, dict) and isinstance(i, int):
                            h.units[i] = v
                        continue
            elif isinstance(st, ast.Expr) and isinstance(st.value, ast.Call):
                c = st.value
                cn = chain(c.func) or ''
                if cn.endswith('.append') and c.args and isinstance(c.args[0], ast.Name) and c.args[0].id in self.hdus:
                    self.order.append(c.args[0].id)
        if not self.order:
            raise AnalysisError('%s: HDU list not found' % fi.qual)

    def _order_from(self, e):
        if isinstance(e, ast.Name) and e.id in self.locals:
            for v in self.locals[e.id]:
                self._order_from(v)
            return
        if isinstance(e, ast.IfExp):
            a = [n.id for n in e.body.elts] if isinstance(e.body, ast.List) else []
            b = [n.id for n in e.orelse.elts] if isinstance(e.orelse, ast.List) else []
            best = a if len(a) >= len(b) else b
            if not self.order or len(best) > len(self.order):
                self.order = [x for x in best if x in self.hdus]
            return
        if isinstance(e, ast.List):
            names = [n.id for n in e.elts if isinstance(n, ast.Name) and n.id in self.hdus]
            if len(names) > len(self.order):
                self.order = names

    def hdu_by_ref(self, ref):
        kind, v = ref
        if kind == 'idx':
            if 0 <= v < len(self.order):
                return self.hdus[self.order[v]]
            return None
        for var in self.order:
            h = self.hdus[var]
            if h.name is not None and h.name.upper() == str(v).upper():
                return h
        return None

    def env(self):
        return self.locals


class Access:
    def __init__(self, kind, hdu, detail=None, node=None):
        self.kind, self.hdu, self.detail, self.node = kind, hdu, detail, node   # kind: data|unitcol|unittab|hdr|img|has

    def __repr__(self):
        return '%s(%s,%s)' % (self.kind, self.hdu, self.detail)


class Reader:
    def __init__(self, fi):
        self.fi = fi
        self.lists, self.hdus, self.tabs, self.hdrs = set(), {}, {}, {}
        self.locals = {}
        self.obj = None
        self.attr_sources = {}     # attr -> [(value expr, stmt)]
        self._scan()

    def _hdu_ref(self, e):
        if isinstance(e, ast.Name) and e.id in self.hdus:
            return self.hdus[e.id]
        if isinstance(e, ast.Subscript) and isinstance(e.value, ast.Name) and e.value.id in self.lists:
            k = const(e.slice)
            if isinstance(k, int):
                return ('idx', k)
            if isinstance(k, str):
                return ('name', k)
        return None

    def _tab_ref(self, e):
        if isinstance(e, ast.Name) and e.id in self.tabs:
            return self.tabs[e.id]
        if isinstance(e, ast.Call) and (chain(e.func) or '').split('.')[-1] == 'read_table' and e.args:
            return self._hdu_ref(e.args[0])
        return None

    def _hdr_ref(self, e):
        if isinstance(e, ast.Name) and e.id in self.hdrs:
            return self.hdrs[e.id]
        if isinstance(e, ast.Attribute) and e.attr == 'header':
            return self._hdu_ref(e.value)
        return None

    def _scan(self):
        fi = self.fi
        for t, v, st in stores(fi.node):
            if isinstance(t, ast.Name):
                if isinstance(v, ast.Call) and (chain(v.func) or '').endswith('fits.open'):
                    self.lists.add(t.id)
                    continue
                if isinstance(v, ast.Call) and chain(v.func) == fi.params[0] and not v.args:
                    self.obj = t.id
                    continue
        for t, v, st in stores(fi.node):
            if isinstance(t, ast.Name):
                h = self._hdu_ref(v)
                if h is not None:
                    self.hdus[t.id] = h
                    continue
                tb = self._tab_ref(v)
                if tb is not None:
                    self.tabs[t.id] = tb
                    continue
                hd = self._hdr_ref(v)
                if hd is not None:
                    self.hdrs[t.id] = hd
                    continue
                self.locals.setdefault(t.id, []).append(v)
            elif isinstance(t, ast.Attribute) and isinstance(t.value, ast.Name) and t.value.id == self.obj:
                self.attr_sources.setdefault(t.attr, []).append((v, st))
        if self.obj is None or not self.lists:
            raise AnalysisError('%s: fits.open / object construction not found' % fi.qual)

    def accesses(self, e, _depth=0, _seen=None):
        out = []
        if e is None or _depth > 6:
            return out
        skip = set()
        for n in walk_local(e):
            if id(n) in skip:
                continue
            a = self._classify(n)
            if a is not None:
                out.append(a)
                for m in ast.walk(n):
                    skip.add(id(m))
                continue
            if isinstance(n, ast.Name) and n.id in self.locals:
                for v in self.locals[n.id]:
                    out += self.accesses(v, _depth + 1)
        return out

    def _classify(self, n):
        # HDU.data.field('C') | HDU.data['C']
        if isinstance(n, ast.Call) and isinstance(n.func, ast.Attribute) and n.func.attr == 'field' and isinstance(n.func.value, ast.Attribute) and n.func.value.attr == 'data':
            h = self._hdu_ref(n.func.value.value)
            if h is not None and n.args:
                return Access('data', h, const(n.args[0]), n)
        if isinstance(n, ast.Subscript) and isinstance(const(n.slice), str):
            if isinstance(n.value, ast.Attribute) and n.value.attr == 'data':
                h = self._hdu_ref(n.value.value)
                if h is not None:
                    return Access('data', h, const(n.slice), n)
            hd = self._hdr_ref(n.value)
            if hd is not None:
                return Access('hdr', hd, const(n.slice).upper(), n)
        if isinstance(n, ast.Attribute) and n.attr in ('unit', 'data', 'ndim', 'shape') and isinstance(n.value, ast.Subscript) and isinstance(const(n.value.slice), str):
            tb = self._tab_ref(n.value.value)
            if tb is not None:
                return Access('unittab' if n.attr == 'unit' else 'data', tb, const(n.value.slice), n)
        if isinstance(n, ast.Subscript) and isinstance(const(n.slice), str):
            tb = self._tab_ref(n.value)
            if tb is not None:
                return Access('data', tb, const(n.slice), n)
        if isinstance(n, ast.Attribute) and n.attr == 'unit' and isinstance(n.value, ast.Subscript) and isinstance(n.value.value, ast.Attribute) and n.value.value.attr == 'columns':
            h = self._hdu_ref(n.value.value.value)
            i = const(n.value.slice)
            if h is not None and isinstance(i, int):
                return Access('unitcol', h, i, n)
        if isinstance(n, ast.Attribute) and n.attr == 'data':
            h = self._hdu_ref(n.value)
            if h is not None:
                return Access('img', h, None, n)
        return None


def writer_locations(W, wattr):
    """where the writer stores attribute ``wattr``: [('col', hduvar, colname) | ('img', hduvar) | ('hdr', hduvar, KEY)]"""
    env = W.env()
    out = []
    for var in W.order:
        h = W.hdus[var]
        for c, e in h.columns:
            if wattr in attr_roots(e, W.me, env):
                out.append(('col', var, c))
        if h.data is not None and wattr in attr_roots(h.data, W.me, env):
            out.append(('img', var, None))
        for k, e in h.header.items():
            r = attr_roots(e, W.me, env)
            if r == {wattr} and '.unit' not in up(e):
                out.append(('hdr', var, k))
    return out


def check_pair(ctx, rule, writer_fi, reader_fi, attr_map, where_fn, header_scalars=()):
    """attr_map: reader attribute -> writer attribute it must round-trip (usually the same name).
    For each: the reader must read exactly the column / image / keyword the writer stored that attribute in,
    no other column of that HDU, and the unit from the same column; every HDU it names must exist."""
    W, R = Writer(writer_fi), Reader(reader_fi)
    ctx.fn(writer_fi); ctx.fn(reader_fi)
    wenv = W.env()
    n = 0
    for rattr, wattr in attr_map.items():
        srcs = R.attr_sources.get(rattr)
        inst = '%s.%s round trip' % (reader_fi.cls.name if reader_fi.cls else '', rattr)
        if not srcs:
            ctx.violation(rule, inst, where_fn(reader_fi), 'the reader never sets %s' % rattr, 'reader-unset')
            continue
        locs = writer_locations(W, wattr)
        if not locs:
            ctx.violation(rule, inst, where_fn(writer_fi), 'the writer never stores self.%s' % wattr, 'writer-unstored')
            continue
        acc = []
        for v, st in srcs:
            acc += R.accesses(v)
        problems = []
        matched = False
        for a in acc:
            h = W.hdu_by_ref(a.hdu)
            if h is None:
                problems.append('HDU %s does not exist in what %s writes (%s)' % (a.hdu, writer_fi.name, [(W.hdus[v].name or i) for i, v in enumerate(W.order)]))
                continue
            mine = [l for l in locs if l[1] == h.var]
            if not mine:
                if a.kind == 'data' and a.detail not in h.colnames():
                    problems.append('column %r is not written into HDU %s (columns %s)' % (a.detail, a.hdu, h.colnames()))
                if a.kind == 'hdr' and a.detail not in h.header:
                    problems.append('header keyword %s is not written into HDU %s' % (a.detail, a.hdu))
                continue
            kind, var, key = mine[0]
            if a.kind == 'data':
                if kind == 'col' and a.detail == key:
                    matched = True
                elif kind == 'col':
                    problems.append('%s is read from column %r but self.%s was written to column %r' % (rattr, a.detail, wattr, key))
            elif a.kind == 'img':
                if kind == 'img':
                    matched = True
            elif a.kind == 'hdr':
                if kind == 'hdr' and a.detail == key:
                    matched = True
                elif a.detail in h.header:
                    r = attr_roots(h.header[a.detail], W.me, wenv)
                    if wattr not in r:
                        problems.append('keyword %s read into %s was written from %s' % (a.detail, rattr, sorted(r)))
                else:
                    problems.append('header keyword %s is not written (keywords %s)' % (a.detail, sorted(h.header)))
            elif a.kind == 'unitcol' and kind == 'col':
                cols = h.colnames()
                if a.detail >= len(cols) or cols[a.detail] != key:
                    problems.append('unit of %s read from column index %d (%s) but its data is column %r' % (rattr, a.detail, cols[a.detail] if a.detail < len(cols) else 'none', key))
                elif isinstance(h.units, dict):
                    ue = h.units.get(a.detail)
                    if ue is None:
                        problems.append('the writer sets no unit for column %d (%s)' % (a.detail, key))
                    elif not isinstance(ue, ast.Constant) and wattr not in attr_roots(ue, W.me, wenv):
                        problems.append('unit of column %d (%s) is written from %s, not from self.%s' % (a.detail, key, sorted(attr_roots(ue, W.me, wenv)), wattr))
            elif a.kind == 'unittab' and kind == 'col':
                if a.detail != key:
                    problems.append('unit of %s read from column %r but its data is column %r' % (rattr, a.detail, key))
                elif isinstance(h.units, dict):
                    i = h.colnames().index(key)
                    ue = h.units.get(i)
                    if ue is not None and not isinstance(ue, ast.Constant) and wattr not in attr_roots(ue, W.me, wenv):
                        problems.append('unit of column %r is written from %s, not from self.%s' % (key, sorted(attr_roots(ue, W.me, wenv)), wattr))
        if not matched and not problems:
            problems.append('%s is not read from where self.%s was written (%s); it reads %s' % (rattr, wattr, locs, acc))
        n += 1
        if problems:
            ctx.violation(rule, inst, where_fn(reader_fi, srcs[0][1]), '; '.join(dict.fromkeys(problems)), problems[0][:90])
        else:
            ctx.ok(rule, inst, where_fn(reader_fi, srcs[0][1]), 'written to %s ; read from %s' % (locs[0], sorted({repr(a) for a in acc})))
    for rattr, key in header_scalars:
        inst = 'keyword %s <-> %s' % (key, rattr)
        srcs = R.attr_sources.get(rattr, [])
        racc = [(a, v) for v, st in srcs for a in R.accesses(v) if a.kind == 'hdr' and a.detail == key]
        wh = [h for h in (W.hdus[v] for v in W.order) if key in h.header]
        if not racc or not wh:
            ctx.violation(rule, inst, where_fn(reader_fi), 'keyword %s: written=%s read=%s' % (key, bool(wh), bool(racc)), 'keyword-missing')
            continue
        wexpr = wh[0].header[key]
        wu = unit_atoms(wexpr)
        ru = set()
        for a, v in racc:
            ru |= unit_atoms(v)
        n += 1
        ctx.expect(wu == ru and bool(attr_roots(wexpr, W.me, wenv)), rule, inst, where_fn(reader_fi, srcs[0][1]), 'written as %s ; read back with unit %s' % (up(wexpr), sorted(ru)),
                   'written in unit %s (%s) but read back as %s' % (sorted(wu), up(wexpr), sorted(ru)), 'keyword-unit')
    return W, R, n
