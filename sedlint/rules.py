"""Shared rule helpers (CFG / AGREE / PERM families)."""
import ast

from .astutil import (up, chain, calls, call_name, is_call_to, stores, walk_local, const, kw,
                      paths, root_name, names_in)
from .loader import AnalysisError


def where(fi, node=None):
    ln = getattr(node, 'lineno', None) or fi.node.lineno
    return '%s:%d %s' % (fi.module.path, ln, ((fi.cls.name + '.') if fi.cls else '') + fi.name)


def path_actions(p):
    """Flatten a path into ordered atomic actions:
    ('call', Call, ev) ('store', target, value, stmt) ('yield', Yield) ('test', node, truth)
    ('except', handler) ('return', node) ('raise', node)."""
    out = []
    for e in p.events:
        k = e[0]
        if k == 'test':
            for c in _ordered_calls(e[1]):
                out.append(('call', c, e))
            out.append(('test', e[1], e[2]))
        elif k == 'iter':
            for c in _ordered_calls(e[1].iter):
                out.append(('call', c, e))
            if e[2] == 'one':
                out.append(('store', e[1].target, e[1].iter, e[1]))
            out.append(('iter', e[1], e[2]))
        elif k == 'except':
            out.append(('except', e[1]))
        elif k == 'stmt':
            st = e[1]
            sub = []
            for n in walk_local(st):
                if isinstance(n, ast.Call):
                    sub.append((_pos(n), 'call', n))
                elif isinstance(n, (ast.Yield, ast.YieldFrom)):
                    sub.append((_pos(n), 'yield', n))
            sub.sort(key=lambda x: x[0])
            for _, kind, n in sub:
                out.append((kind, n, e) if kind == 'call' else (kind, n))
            if isinstance(st, ast.Assign):
                for t in st.targets:
                    for tt in _flat(t):
                        out.append(('store', tt, st.value, st))
            elif isinstance(st, ast.AugAssign):
                out.append(('store', st.target, st.value, st))
            elif isinstance(st, ast.Return):
                out.append(('return', st))
            elif isinstance(st, ast.Raise):
                out.append(('raise', st))
        elif k == 'loopexit':
            out.append(('loopexit', e[1], e[2]))
        elif k == 'try':
            out.append(('try', e[1], e[2]))
    return out


def _flat(t):
    if isinstance(t, (ast.Tuple, ast.List)):
        for x in t.elts:
            yield from _flat(x)
    else:
        yield t


def _pos(n):
    return (getattr(n, 'end_lineno', 0), getattr(n, 'end_col_offset', 0))


def _ordered_calls(node):
    cs = calls(node)
    cs.sort(key=_pos)
    return cs


def method_calls(actions, recv, meth):
    """Calls ``recv.meth(...)`` among path actions (recv a dotted name)."""
    return [a for a in actions if a[0] == 'call' and chain(a[1].func) == '%s.%s' % (recv, meth)]


def find_assign_from_call(fi, *callee_suffix):
    """[(target-name, Call, stmt)] for ``x = <callee>(...)`` in the function."""
    out = []
    for t, v, st in stores(fi.node):
        if isinstance(t, ast.Name) and isinstance(v, ast.Call) and is_call_to(v, *callee_suffix):
            out.append((t.id, v, st))
    return out


def dict_literal_keys(node):
    if isinstance(node, ast.Dict):
        return [const(k) for k in node.keys]
    return None


def getstate_keys(fi):
    """Keys and value expressions of the dict literal returned by __getstate__."""
    for n in walk_local(fi.node):
        if isinstance(n, ast.Return) and isinstance(n.value, ast.Dict):
            return {const(k): up(v) for k, v in zip(n.value.keys, n.value.values)}
    return None


def state_keys(repo, ci):
    """The keys of the pickling state of class ``ci``: __getstate__ interpreted on an object as __init__ leaves it (however the dict is built: a literal,
    a comprehension over a class-level tuple, ...); the dict literal read off the source as a fall-back."""
    from .interp import Interp, Obj, Unk
    gs, ini = repo.find_member(ci, '__getstate__'), repo.find_member(ci, '__init__')
    if gs is None or gs[0] != 'method':
        return None
    try:
        I = Interp(repo)
        o = Obj(ci, {})
        if ini is not None and ini[0] == 'method':
            I.call(ini[1], [], selfv=o)
        d = I.call(gs[1], [], selfv=o)
        if isinstance(d, dict) and d and all(isinstance(k, str) for k in d):
            return list(d)
    except Exception:
        pass
    lit = getstate_keys(gs[1])
    return list(lit) if lit else None


def setstate_reads(fi):
    """{key: (attribute stored, access kind)} for ``self.<attr> = d[<key>]``."""
    d = fi.params[1] if len(fi.params) > 1 else None
    out = {}
    for t, v, st in stores(fi.node):
        if isinstance(t, ast.Attribute) and root_name(t) == fi.params[0]:
            if isinstance(v, ast.Subscript) and isinstance(v.value, ast.Name) and v.value.id == d:
                out[const(v.slice)] = (t.attr, 'index')
            elif isinstance(v, ast.Call) and chain(v.func) == '%s.get' % d and v.args:
                out[const(v.args[0])] = (t.attr, 'get')
    return out


def init_attrs(fi):
    """Attributes assigned on ``self`` in __init__ (in order)."""
    out = []
    for t, v, st in stores(fi.node):
        if isinstance(t, ast.Attribute) and isinstance(t.value, ast.Name) and t.value.id == fi.params[0]:
            if t.attr not in out:
                out.append(t.attr)
    return out


def pickle_state_agreement(ctx, ci, rule='AGREE-1', exclude=()):
    """__getstate__ keys == __setstate__ keys (indexed, each stored into the
    attribute of the same name), and cover the data attributes of __init__."""
    gs, ss, ini = ci.methods.get('__getstate__'), ci.methods.get('__setstate__'), ci.methods.get('__init__')
    if not (gs and ss and ini):
        raise AnalysisError('%s lacks explicit pickling state methods' % ci.qual)
    for f in (gs, ss, ini):
        ctx.fn(f)
    gk = getstate_keys(gs)
    if gk is None:
        ctx.undecided(rule, '%s.__getstate__' % ci.name, where(gs), 'does not return a dict literal')
        return
    sk = setstate_reads(ss)
    attrs = [a for a in init_attrs(ini) if a not in exclude]
    for k in sorted(set(gk) | set(sk) | set(attrs), key=str):
        inst = '%s state key %r' % (ci.name, k)
        if k not in gk:
            ctx.violation(rule, inst, where(gs), '__getstate__ does not save %r (present in __init__/__setstate__)' % k, 'missing-in-getstate')
        elif k not in sk:
            ctx.violation(rule, inst, where(ss), '__setstate__ does not restore %r' % k, 'missing-in-setstate')
        elif sk[k][0] != k or gk[k] != '%s.%s' % (gs.params[0], k):
            ctx.violation(rule, inst, where(ss), 'key %r saved from %s but restored into attribute %s' % (k, gk[k], sk[k][0]), 'cross-wired')
        elif sk[k][1] != 'index':
            ctx.violation(rule, inst, where(ss), 'key %r restored with a silent default (.get)' % k, 'silent-default')
        elif k not in attrs:
            ctx.violation(rule, inst, where(ini), 'state key %r is not an attribute initialised by __init__' % k, 'not-in-init')
        else:
            ctx.ok(rule, inst, where(gs), 'saved from self.%s, restored by index into self.%s' % (k, k))
    # __setstate__ must start from a clean object
    return gk


def loop_body_paths(loop):
    return paths(loop.body)
