"""Obligation bookkeeping, evidence, known findings, replay files."""
import hashlib
import json
import os
import re
import time

VERIF = os.path.dirname(os.path.dirname(os.path.abspath(__file__)))

OK, VIOL, UNDEC = 'OK', 'VIOLATION', 'UNDECIDED'


def norm(s):
    return re.sub(r'\s+', ' ', str(s)).strip()


class Obligation:
    def __init__(self, rule, instance, where, status, detail='', construct='', nontrivial=True, data=None):
        self.rule, self.instance, self.where = rule, instance, where
        self.status, self.detail, self.construct = status, norm(detail), norm(construct)
        self.nontrivial = nontrivial
        self.data = data

    def func(self):
        # 'path:line Qual' -> 'path Qual' (line numbers are not part of the key)
        m = re.match(r'(\S+?):\d+\s+(.*)', self.where)
        return ('%s %s' % (m.group(1), m.group(2))) if m else self.where

    def key(self):
        return '%s|%s|%s|%s' % (self.rule, self.func(), self.instance, self.construct)

    def short(self):
        return hashlib.sha1(self.key().encode()).hexdigest()[:10]

    def as_dict(self):
        d = dict(rule=self.rule, instance=self.instance, where=self.where, status=self.status,
                 detail=self.detail[:600])
        if self.construct:
            d['construct'] = self.construct[:300]
        return d


class Ctx:
    """One run of one property's rules."""

    def __init__(self, pid, repo, tier='quick', seed=0, quiet=False):
        self.pid, self.repo, self.tier, self.seed = pid, repo, tier, seed
        self.obs = []
        self.t0 = time.time()
        self.analysed = {'functions': set(), 'call_sites': 0, 'paths': 0, 'stores': 0, 'external_chains': 0}
        self.explanation = ''
        self.not_decided = []
        self.assumptions = []
        self.trusted = []
        self.mins = {}
        self.exhaustive = False
        self.extra = {}
        self.quiet = quiet
        self.errors = []

    # ---- recording
    def fn(self, fi):
        self.analysed['functions'].add(fi.qual)
        return fi

    def ok(self, rule, instance, where, detail='', nontrivial=True, data=None):
        self.obs.append(Obligation(rule, instance, where, OK, detail, '', nontrivial, data))

    def violation(self, rule, instance, where, detail, construct=''):
        self.obs.append(Obligation(rule, instance, where, VIOL, detail, construct))

    def undecided(self, rule, instance, where, detail):
        self.obs.append(Obligation(rule, instance, where, UNDEC, detail))

    def expect(self, cond, rule, instance, where, ok_detail='', bad_detail='', construct=''):
        if cond:
            self.ok(rule, instance, where, ok_detail)
        else:
            self.violation(rule, instance, where, bad_detail or ok_detail, construct)
        return cond

    def error(self, msg):
        self.errors.append(norm(msg))

    def counts(self):
        c = {}
        for o in self.obs:
            c[o.rule] = c.get(o.rule, 0) + 1
        return c


def load_known():
    p = os.path.join(VERIF, 'known_findings.json')
    if not os.path.exists(p):
        return []
    with open(p) as fh:
        return json.load(fh).get('findings', [])


def finish(ctx, replay_key=None, write=None, out=print):
    if write is None:
        # evidence and replay files describe /repo itself; scratch trees (SEDLINT_REPO) never overwrite them
        write = os.path.realpath(ctx.repo.root) == '/repo' or os.environ.get('SEDLINT_WRITE') == '1'
    """Print the report, write evidence and replay files, return exit code."""
    known = [k for k in load_known() if k.get('property') == ctx.pid and k.get('status') == 'known']
    obs = ctx.obs
    if replay_key is not None:
        obs = [o for o in obs if o.key() == replay_key]
        if not obs:
            out('ANALYSIS-ERROR property=%s replayed obligation no longer exists: %s' % (ctx.pid, replay_key))
            return 2
    counts = ctx.counts()
    for rule, mn in sorted(ctx.mins.items()):
        if replay_key is None and counts.get(rule, 0) < mn:
            ctx.error('rule %s matched %d instances, below the frozen minimum %d' % (rule, counts.get(rule, 0), mn))
    viol, undec, knownhits = [], [], []
    for o in obs:
        if not ctx.quiet:
            out('%-9s %-10s %s | %s | %s' % (o.status, o.rule, o.instance, o.where, o.detail[:300]))
        if o.status == VIOL:
            hit = None
            for k in known:
                if k.get('key') == o.key():
                    hit = k
            if hit:
                knownhits.append((o, hit))
            else:
                viol.append(o)
        elif o.status == UNDEC:
            undec.append(o)
    wall = time.time() - ctx.t0
    n_ok = sum(1 for o in obs if o.status == OK)
    if not ctx.quiet:
        out('ANALYSED property=%s tier=%s modules=%d functions=%d obligations=%d ok=%d violations=%d undecided=%d wall=%.2fs'
            % (ctx.pid, ctx.tier, len(ctx.repo.modules), len(ctx.analysed['functions']), len(obs), n_ok,
               len(viol) + len(knownhits), len(undec), wall))
        out('RULE-COUNTS ' + ' '.join('%s=%d(min %d)' % (r, counts.get(r, 0), ctx.mins.get(r, 0))
                                      for r in sorted(set(counts) | set(ctx.mins))))
    for o, k in knownhits:
        out('KNOWN-FINDING: property=%s %s' % (ctx.pid, k.get('what', o.key())))
    code = 0
    if write:
        os.makedirs(os.path.join(VERIF, 'replay'), exist_ok=True)
    for o in viol:
        rp = os.path.join(VERIF, 'replay', '%s-%s.json' % (ctx.pid, o.short()))
        if write:
            with open(rp, 'w') as fh:
                json.dump({'property': ctx.pid, 'key': o.key(), 'obligation': o.as_dict(), 'data': o.data,
                           'replay_cmd': './check %s --replay %s' % (ctx.pid, rp)}, fh, indent=1, default=str)
        out('VIOLATION property=%s replay=%s' % (ctx.pid, rp))
        code = 1
    if code == 0 and (undec or ctx.errors):
        for o in undec:
            out('ANALYSIS-ERROR property=%s undecided obligation %s %s at %s: %s' % (ctx.pid, o.rule, o.instance, o.where, o.detail[:300]))
        for e in ctx.errors:
            out('ANALYSIS-ERROR property=%s %s' % (ctx.pid, e))
        code = 2
    if write and replay_key is None:
        write_evidence(ctx, obs, viol, knownhits, undec, wall)
    return code


def write_evidence(ctx, obs, viol, knownhits, undec, wall):
    n_ok = sum(1 for o in obs if o.status == OK)
    distinct = len({o.key() + '|' + o.detail for o in obs if o.nontrivial})
    samples = [o.as_dict() for o in obs if o.status != OK][:10]
    seen_rules = set()
    for o in obs:
        if o.rule not in seen_rules and o.nontrivial:
            seen_rules.add(o.rule)
            samples.append(o.as_dict())
    counts = ctx.counts()
    ev = {
        'property_id': ctx.pid,
        'tier': ctx.tier,
        'seed': int(ctx.seed),
        'level': 'other',
        'coverage': {
            'explanation': ctx.explanation or 'static obligations decided on the current source tree',
            'rule': 'each case is one static obligation (rule instance) extracted from /repo\'s current source; '
                    'non-trivial = its decision involved a non-empty normal form, path set, coherence set or table; '
                    'distinct = distinct (rule, function, instance, outcome text)',
            'evaluations': len(obs),
            'distinct_nontrivial': distinct,
            'obligations': len(obs),
            'discharged': n_ok,
            'undecided': len(undec),
            'known_findings_hit': len(knownhits),
            'samples': samples[:40],
            'exhaustive': bool(ctx.exhaustive),
            'checker_cmd': './check %s --tier %s' % (ctx.pid, ctx.tier),
            'trusted_base': ctx.trusted,
            'rule_instance_counts': {r: {'found': counts.get(r, 0), 'minimum': ctx.mins.get(r, 0)}
                                     for r in sorted(set(counts) | set(ctx.mins))},
            'analysed': {
                'repo_root': ctx.repo.root,
                'modules_parsed': len(ctx.repo.modules),
                'functions': sorted(ctx.analysed['functions']),
                'call_sites': ctx.analysed['call_sites'],
                'paths': ctx.analysed['paths'],
                'stores_classified': ctx.analysed['stores'],
                'external_chains': ctx.analysed['external_chains'],
            },
            'not_decided': ctx.not_decided,
        },
        'assumptions': ctx.assumptions,
        'wall_s': round(wall, 3),
        'violations': len(viol),
    }
    ev['coverage'].update(ctx.extra)
    os.makedirs(os.path.join(VERIF, 'evidence'), exist_ok=True)
    tmp = os.path.join(VERIF, 'evidence', '%s.json.tmp' % ctx.pid)
    with open(tmp, 'w') as fh:
        json.dump(ev, fh, indent=1, default=str)
    os.replace(tmp, os.path.join(VERIF, 'evidence', '%s.json' % ctx.pid))
