"""E5: index-typed value numbering (the array interpreter).

A syntax-directed pass over repo function bodies that maps every local to a
symbolic value.  Arrays are ``Arr(dims, poly)``: ``dims`` is the tuple of axis
labels, ``poly`` an E4 term for the generic element.  It is value numbering with
if-conversion, not path exploration and not execution: no repo code is run, no
solver is called.  Anything outside the modelled fragment becomes ``Unk`` (a
poison value); an obligation that depends on it is *undecided*, never violated.
"""
import ast, re
import copy
from fractions import Fraction

from . import alg
from .alg import Poly, P, B, C, L
from .astutil import up, chain


class Unk:
    """Poison: a value the interpreter could not model."""
    def __init__(self, why, node=None, definite=False):
        self.why = why
        self.line = getattr(node, 'lineno', None)
        self.exc = None               # for "always raises": the name of the exception, when known
        self.definite = definite      # True: a definite structural error (axis roles), not a modelling gap

    def __repr__(self):
        return 'Unk(%s%s)' % (self.why, '' if self.line is None else ' @%d' % self.line)


class Arr:
    """Symbolic array.  dims: tuple of labels (None = broadcast axis).  mask: pending boolean
    selection (Poly) from a masked read.  unit: unit tag (Poly) or None when not tracked.
    The value semantics of a Quantity is "the physical quantity" (value * unit atoms)."""
    __slots__ = ('dims', 'poly', 'mask', 'unit', 'fresh', 'dt', 'xr', 'conv', 'view_src', 'arr0', 'dt_src')

    def __init__(self, dims, poly, mask=None, unit=None, fresh=False, dt=None):
        self.dims = tuple(dims)
        self.poly = poly if isinstance(poly, Poly) else Poly.const(poly)
        self.mask, self.unit, self.fresh = mask, unit, fresh
        # element type, tracked only where it is known: 'f' real-valued, 'i' integer, 'inherit' = a buffer created with the
        # element type of a caller-supplied array (zeros_like / copy), None = not tracked
        self.dt = dt
        # the expression tree the value was computed by (operators and comparisons only, un-normalised), kept when the interpreter
        # runs with track_xr: arithmetic on IEEE infinities / NaN is not polynomial arithmetic, so it is decided on this tree (xreal.py)
        self.xr = None
        # unit conversions a bound stored into this array has been through since it was read (floating-point: U1 -> U2 -> U1 need not give the number back)
        self.conv = ()
        # (subscript expression, {name: id of its value then}) when this value is a numpy *view* obtained by basic indexing: a store into it writes through
        self.view_src = None
        # a 0-d *array* (np.asarray of a number): the same value as the number, but not a scalar for np.isscalar
        self.arr0 = False
        # for dt == 'inherit': the names of the caller-supplied arrays the element type was taken from
        self.dt_src = None

    @property
    def ndim(self):
        return len(self.dims)

    def with_(self, **kw):
        a = Arr(self.dims, self.poly, self.mask, self.unit, dt=self.dt)
        a.conv = self.conv
        a.dt_src = self.dt_src
        if 'poly' not in kw and 'mask' not in kw:
            a.xr = self.xr
        for k, v in kw.items():
            setattr(a, k, v)
        return a

    def __repr__(self):
        return 'Arr%s<%s>%s' % (self.dims, alg.show(self.poly, 300), '' if self.mask is None else ' mask<%s>' % alg.show(self.mask, 80))


class Obj:
    strict = False       # True: every attribute the object has was put there by interpreted code, so reading one it lacks raises AttributeError

    def __init__(self, cls, attrs=None, name=None):
        self.cls, self.attrs, self.name = cls, dict(attrs or {}), name

    def __repr__(self):
        return 'Obj<%s %s>' % (self.cls.name if self.cls else '?', sorted(self.attrs))


class GenList:
    """A homogeneous list indexed by an axis label; ``elem`` is the generic element."""
    def __init__(self, label, elem):
        self.label, self.elem = label, elem


class SymTable:
    """A table: named columns sharing one row axis."""
    def __init__(self, cols, label):
        self.cols, self.label = dict(cols), label

    def names(self):
        return list(self.cols)


class Pinned:
    """A loop index ranging over ``label`` (optionally restricted by ``guard``)."""
    def __init__(self, label, guard=None):
        self.label, self.guard = label, guard if guard is not None else Poly.const(1)

    def __repr__(self):
        return 'Pinned(%s)' % self.label


class Marker:
    """An external (library) name."""
    def __init__(self, name):
        self.name = name

    def __repr__(self):
        return 'Marker(%s)' % self.name


class _DtypeOf(Marker):
    """x.dtype: the element type of the array x (known, or 'that of the caller's array')"""
    def __init__(self, arr):
        Marker.__init__(self, 'dtype')
        # 'that of the caller's array' only for an array handed in as it is (possibly sliced or gathered): the element type of a computed value is whatever
        # the computation gives, which is not tracked
        plain = False
        if arr.poly.is_monomial():
            (m_, c_), = arr.poly.t.items()
            if c_ == 1 and len(m_) == 1 and m_[0][1] == 1:
                a_ = m_[0][0]
                plain = a_[0] == 'sym' or (a_[0] == 'fn' and a_[1] in ('at', 'slice', 'rev') and len(alg.leaf_syms(arr.poly)[0]) >= 1
                                           and not (alg.leaf_syms(arr.poly)[1] - {'at', 'slice', 'rev', 'argsort', 'len'}))
        self.kind = arr.dt if arr.dt in ('f', 'i') else ('inherit' if plain else None)
        self.src = tuple(sorted({str(x_).split('@')[0] for x_ in alg.leaf_syms(arr.poly)[0]})) if self.kind == 'inherit' else None


class Closure:
    """a function defined inside the function being interpreted, with the scope it was defined in"""
    def __init__(self, fi, env):
        self.fi, self.env = fi, env


class FuncRef:
    def __init__(self, fi):
        self.fi = fi


class ClassRef:
    def __init__(self, ci):
        self.ci = ci


class ModRef:
    def __init__(self, mod):
        self.mod = mod


class Bound:
    def __init__(self, fi, selfv):
        self.fi, self.selfv = fi, selfv


class BoundExt:
    """Method of a symbolic value (array / quantity / unit)."""
    def __init__(self, recv, name):
        self.recv, self.name = recv, name


class Shape:
    def __init__(self, dims):
        self.dims = tuple(dims)


class PyRaise(Exception):
    """a python exception of a known type raised by a modelled library object (e.g. KeyError from hdulist['MISSING'])"""
    def __init__(self, exc, msg=''):
        Exception.__init__(self, '%s: %s' % (exc, msg))
        self.exc = exc


class Foreign:
    """Base class for symbolic models of library objects (FITS HDUs, tables, pickle streams, ...) that the interpreter manipulates through a small
    protocol; every method may return NotImplemented (the interpreter then gives an unknown value)."""
    def sl_getattr(self, interp, name, node): return NotImplemented
    def sl_setattr(self, interp, name, val, node): return NotImplemented
    def sl_getitem(self, interp, key, node): return NotImplemented
    def sl_setitem(self, interp, key, val, node): return NotImplemented
    def sl_method(self, interp, name, args, kw, node): return NotImplemented
    def sl_contains(self, interp, item): return NotImplemented
    def sl_len(self, interp): return NotImplemented
    def sl_iter(self, interp): return NotImplemented


class UnitStr(Foreign):
    """a unit written as a string (unit.to_string()): modelled by the unit it spells"""
    def __init__(self, poly):
        self.poly = poly

    def __repr__(self):
        return 'UnitStr<%s>' % alg.show(self.poly, 40)


class Raised(Exception):
    """a repo function called by the statement being interpreted raises on this configuration"""
    def __init__(self, fi, node):
        Exception.__init__(self, fi.qual)
        self.fi, self.node = fi, node


class Interrupt(Exception):
    pass


class Finding:
    def __init__(self, kind, msg, node, module):
        self.kind, self.msg = kind, msg
        self.line = getattr(node, 'lineno', 0)
        self.module = module

    def __repr__(self):
        return '%s: %s (%s:%s)' % (self.kind, self.msg, self.module, self.line)


def num(c):
    return Poly.const(c)


def scalar(p, unit=None):
    return Arr((), p, unit=unit)


def symarr(name, dims, extra=(), unit=None):
    """Input array ``name`` with the given axis labels; ``extra`` are hidden labels."""
    labs = tuple(d for d in dims if d) + tuple(extra)
    return Arr(dims, alg.sym(name, *labs), unit=unit)


UNIT_ATOMS = {'micron', 'cm', 'm', 'kpc', 'pc', 'au', 'AU', 'Hz', 'mJy', 'Jy', 'erg', 's', 'g', 'kg', 'W', 'arcsec',
              'deg', 'rad', 'nm', 'mm', 'km', 'angstrom', 'AA', 'GHz', 'MHz', 'yr', 'arcmin', 'mas', 'Angstrom', 'um', 'THz', 'kHz', 'Mpc', 'lyr', 'uJy', 'MJy'}


UNIT_ALIASES = {'AU': 'au', 'um': 'micron', 'Angstrom': 'angstrom', 'AA': 'angstrom'}


def unit_atom(name):
    return alg.sym('unit:' + UNIT_ALIASES.get(name, name))


class Interp:
    def __init__(self, repo, hooks=None):
        self.repo = repo
        self.hooks = hooks or Hooks()
        self.findings = []       # label clashes, unit-kind mismatches
        self.assumed = []        # (module, line, test text, truth, why)
        self.trace = []          # (callee qual, args, kwargs, node)
        self.positional = []     # (label, index, module, line)
        self.depth = 0
        self.stack = []
        self.unit_checks = []
        self.lost = []           # statements that are calls made for their effect and that the interpretation could not model
        self.axis_count = {}     # axis label -> symbolic number of positions, for axes created with an explicit count (logspace)
        self.axis_len = {}       # axis label -> length, where the configuration being analysed fixes it (set by hooks)
        self.flow_taint = []     # opaque conditions that hold for the rest of the run once a data-dependent exit was not modelled
        self.assume = []         # (condition, truth): data-dependent conditions decided by the caller (one run per case; the caller merges the results)
        self.forked = []         # conditions of the data-dependent ifs that were executed on both arms
        self.conds = []          # conditions of the data-dependent branches being executed (a side effect recorded by a hook happens under their product)
        self.nonzero = []        # polynomials a property's configuration assumes to be non-zero (truthy): `if chi and ...`
        self.frames = []         # environments of the functions being interpreted, innermost last (an in-place store is seen by every caller holding the array)
        self.uncaught = None     # text of a library exception that escaped the function interpreted at top level
        self.track_xr = False    # keep expression trees of arithmetic/comparisons (Arr.xr) and log reductions over them
        self.xr_log = []         # (result poly, kind, tree of the reduced argument)
        self.exact_le = True     # True: a <= b is kept exact (not identified with a < b); used when ties are in the quantifier

    # ------------------------------------------------------------------ calls
    def validator_guards(self, fi, args, kwargs, node=None):
        """A validator (a function whose job is to raise on bad values and hand the good ones on) that a set-up treats as the identity is still run for the
        refusals it makes *on the data*: see data_guards"""
        val = args[1] if len(args) > 1 else kwargs.get('value')
        self.data_guards(fi, args, kwargs, None, val, node)

    def data_guards(self, fi, args, kwargs, selfv, val, node=None):
        """Run fi (a validator, or a property setter that validates) only for the refusals it makes on the values of ``val``: raise-guards whose test reads
        those values are kept in ``assumed`` (tagged with the function); everything else the run does is dropped (type / unit-kind / shape tests on
        symbolic stand-ins are not modelled and decide nothing).  The package's validate_* helpers are interpreted during the run."""
        if not isinstance(val, Arr) or getattr(self, '_guard_mode', False):
            return
        data_syms = alg.leaf_syms(val.poly)[0]
        if not data_syms:
            return
        keep = ('findings', 'assumed', 'trace', 'positional', 'unit_checks', 'lost', 'flow_taint', 'forked', 'conds', 'xr_log')
        saved = {k: list(getattr(self, k)) for k in keep}
        scal = {k: getattr(self, k, None) for k in ('_unknown_conds', 'uncaught', 'depth')}
        stack, frames = list(self.stack), list(self.frames)
        self._guard_mode = True
        new = []
        try:
            self.call(fi, list(args), dict(kwargs), selfv=(Obj(selfv.cls, dict(selfv.attrs)) if isinstance(selfv, Obj) else selfv), node=node)
        except BaseException as ex:
            if isinstance(ex, (KeyboardInterrupt, SystemExit)):
                raise
        finally:
            new = self.assumed[len(saved['assumed']):]
            self._guard_mode = False
            for k, v in saved.items():
                setattr(self, k, v)
            for k, v in scal.items():
                if v is None and k != 'uncaught':
                    self.__dict__.pop(k, None)
                else:
                    setattr(self, k, v)
            self.stack[:] = stack
            self.frames[:] = frames
        for g in new:
            tv = g[5] if len(g) > 5 else None
            if g[4] == 'raise-guard' and isinstance(tv, Arr) and tv.mask is None and {str(x_).split('@')[0] for x_ in alg.leaf_syms(tv.poly)[0]} & data_syms:
                self.assumed.append((g[0], g[1], g[2], g[3], 'raise-guard', tv, 'validator:' + fi.name))

    def call(self, fi, args, kwargs=None, selfv=None, node=None, closure=None):
        kwargs = dict(kwargs or {})
        if selfv is not None:
            args = [selfv] + list(args)
        h = NotImplemented if (getattr(self, '_guard_mode', False) and fi.cls is None and fi.name.startswith('validate_')) else self.hooks.opaque(self, fi, args, kwargs, node)
        if h is not NotImplemented:
            return h
        if self.depth > 8:
            return Unk('inlining depth exceeded in %s' % fi.qual, node)
        a = fi.node.args
        names = [x.arg for x in a.posonlyargs + a.args]
        env = {}
        if closure is not None:
            env.update({k_: v_ for k_, v_ in closure.items() if not k_.startswith('__')})
        for n, v in zip(names, args):
            env[n] = v
        if len(args) > len(names):
            if a.vararg is None:
                return Unk('too many arguments for %s' % fi.qual, node)
        if a.vararg is not None:
            env[a.vararg.arg] = tuple(args[len(names):])          # *args: the positional arguments beyond the named ones
        if a.kwarg is not None:
            kwnames_ = {x.arg for x in a.kwonlyargs} | set(names)
            env[a.kwarg.arg] = {k: v for k, v in kwargs.items() if k not in kwnames_}
            kwargs = {k: v for k, v in kwargs.items() if k in kwnames_}
        for k, v in kwargs.items():
            env[k] = v
        for n, d in fi.defaults().items():
            if n not in env:
                env[n] = self.expr(d, {'__module__': fi.module}, fi.module)
        for n in names:
            if n not in env:
                env[n] = Unk('missing argument %s of %s' % (n, fi.qual), node)
        env['__module__'] = fi.module
        env['__func__'] = fi
        is_gen = any(isinstance(n_, (ast.Yield, ast.YieldFrom)) for n_ in _walk_own(fi.node))
        if is_gen:
            env['__yields__'] = _SharedList()          # a generator is run eagerly: its result is the list of what it yields (one list, whatever branch yields)
            env['__ycond0__'] = len(self.conds)
        self.depth += 1
        self.stack.append(fi.qual)
        self.frames.append(env)
        try:
            sig = self.block(fi.node.body, env, fi.module)
        except PyRaise as pr:
            if self.depth > 1:
                raise                 # propagates to a handler in a calling function, if any
            sig = ('raise', node)
            self.uncaught = str(pr)
        finally:
            self.depth -= 1
            self.stack.pop()
            self.frames.pop()
        if '__tainted__' in env and (sig is None or sig[0] == 'return'):
            return env['__tainted__']
        if is_gen and (sig is None or sig[0] == 'return'):
            return list(env['__yields__'])
        if sig is None:
            return None
        if sig[0] == 'return':
            return sig[1]
        if sig[0] == 'rguard':
            _, cret, val, e_ret, e_go = sig
            merge_env(env, e_ret, e_go, cret, node)
            return merge_val(val, None, cret, node)
        if sig[0] == 'raise':
            if self.depth > 0:
                raise Raised(fi, sig[1])          # the calling statement raises too
            u_ = Unk('%s always raises on this configuration (line %s)' % (fi.qual, getattr(sig[1], 'lineno', '?')), sig[1])
            # which exception: the class named by the raise statement, or the library exception that escaped
            rz_ = sig[1]
            if isinstance(rz_, ast.Raise) and rz_.exc is not None:
                x_ = rz_.exc.func if isinstance(rz_.exc, ast.Call) else rz_.exc
                u_.exc = (chain(x_) or '').split('.')[-1] or None
            else:
                u_.exc = (self.uncaught or '').split(':')[0] or None
            return u_
        return None

    # ------------------------------------------------------------------ statements
    def block(self, body, env, mod):
        for k, st in enumerate(body):
            sig = self.stmt(st, env, mod)
            if sig is not None and sig[0] == 'guard':
                # the statements after a conditional `continue`: executed on the environment of the arm that goes on,
                # then merged with the environment of the arm that skipped
                _, skip, e_skip, e_go = sig
                self.conds.append(alg.b_not(skip))
                try:
                    rest = self.block(body[k + 1:], e_go, mod)
                finally:
                    self.conds.pop()
                if rest is not None and rest[0] not in ('continue',):
                    if rest[0] == 'guard':
                        return rest
                    self._poison_block(body[k + 1:], env, Unk('control flow after a conditional continue', st))
                    return None
                merge_env(env, e_skip, e_go, skip, st)
                return None
            if sig is not None and sig[0] == 'bguard':
                _, cbrk, e_brk, e_go = sig
                self.conds.append(alg.b_not(cbrk))
                try:
                    rest = self.block(body[k + 1:], e_go, mod)
                finally:
                    self.conds.pop()
                if rest is None or rest[0] == 'continue':
                    return ('bguard', cbrk, e_brk, e_go)              # the loop goes on, under (not cbrk), on the environment of the arm that stayed
                self._poison_block(body[k + 1:], env, Unk('control flow after a conditional break', st))
                self._unknown_conds = getattr(self, '_unknown_conds', 0) + 1
                self.flow_taint.append(alg.mk_ind('true', alg.sym('undecided-flow#%d' % self._unknown_conds)))
                env['__tainted__'] = Unk('control flow after a data-dependent break is not modelled', st)
                return None
            if sig is not None and sig[0] == 'rguard':
                _, cret, val, e_ret, e_go = sig
                self.conds.append(alg.b_not(cret))
                try:
                    rest = self.block(body[k + 1:], e_go, mod)
                finally:
                    self.conds.pop()
                if rest is not None and rest[0] == 'return':
                    merge_env(env, e_ret, e_go, cret, st)            # side effects of the part that ran only when not returning early
                    return ('return', merge_val(val, rest[1], cret, st))
                if rest is not None and rest[0] == 'rguard':
                    _, c2, v2, er2, eg2 = rest
                    # first guard returns val under cret; otherwise the second returns v2 under c2
                    both = cret + alg.b_not(cret) * c2
                    merged_ret = fork(env)
                    merge_env(merged_ret, e_ret, er2, cret, st)
                    return ('rguard', both, merge_val(val, v2, cret, st), merged_ret, eg2)
                if rest is None:
                    return ('rguard', cret, val, e_ret, e_go)          # the enclosing block goes on under (not cret)
                self._poison_block(body[k + 1:], env, Unk('control flow after a conditional return', st))
                return None
            if sig is not None:
                return sig
        return None

    def _poison_block(self, body, env, u):
        for st in body:
            self._poison(st, env, u)

    def stmt(self, st, env, mod):
        try:
            return self._stmt(st, env, mod)
        except Raised as r:
            return ('raise', r.node if r.node is not None else st)
        except Interrupt:
            raise
        except ZeroDivisionError as e:
            self._poison(st, env, Unk('division by zero in normal form: %s' % e, st))
        except RecursionError:
            raise
        return None

    def _poison(self, st, env, u):
        for n in ast.walk(st):
            if isinstance(n, ast.Name) and isinstance(n.ctx, ast.Store):
                env[n.id] = u
            elif isinstance(n, ast.Attribute) and isinstance(n.ctx, ast.Store):
                o = None
                try:
                    o = self.expr(n.value, env, mod_of(env))
                except Exception:
                    pass
                if isinstance(o, Obj):
                    o.attrs[n.attr] = u

    def _stmt(self, st, env, mod):
        if isinstance(st, ast.Expr):
            if isinstance(st.value, ast.Yield) and '__yields__' in env:
                v_ = self.expr(st.value.value, env, mod) if st.value.value is not None else None
                c_ = Poly.const(1)
                for x_ in self.conds[env.get('__ycond0__', len(self.conds)):]:
                    c_ = c_ * x_
                # a yield inside a data-dependent branch of the generator: the consumer sees the item under that condition
                env['__yields__'].append(v_ if c_ == Poly.const(1) else _Guarded(c_, v_))
                return None
            if isinstance(st.value, ast.YieldFrom) and '__yields__' in env:
                src_ = self.expr(st.value.value, env, mod)
                if isinstance(src_, Obj):
                    src_ = self.iterate_obj(src_, st)
                if isinstance(src_, (list, tuple)):
                    env['__yields__'].extend(src_)
                else:
                    env['__yields__'].append(Unk('yield from %r' % (src_,), st))
                return None
            if isinstance(st.value, (ast.Call, ast.Yield)):
                r_ = self.expr(st.value, env, mod)
                if isinstance(r_, Unk) and isinstance(st.value, ast.Call):
                    self.lost.append((getattr(st, 'lineno', 0), up(st.value)[:80], r_.why))       # a call made for its effect was not modelled
                    # ... and it may have written into the arrays it was handed: they are unknown from here on
                    for a_ in st.value.args:
                        if isinstance(a_, ast.Name) and isinstance(env.get(a_.id), Arr) and env[a_.id].ndim >= 1:
                            old_ = env[a_.id]
                            u_ = Unk('array possibly modified by the unmodelled call %s' % up(st.value)[:50], st)
                            for fr_ in [env] + [f_ for f_ in self.frames if f_ is not env]:
                                _replace_aliases(fr_, old_, u_)
            return None
        if isinstance(st, ast.Return):
            return ('return', self.expr(st.value, env, mod) if st.value is not None else None)
        if isinstance(st, ast.Assign):
            if len(st.targets) == 1 and isinstance(st.targets[0], ast.Subscript) and self._dead_store(st.targets[0], env, mod):
                return None      # store under an identically-false mask (finite-domain specialisation)
            val = self.expr(st.value, env, mod)
            for t in st.targets:
                self.store(t, val, env, mod)
            return None
        if isinstance(st, ast.AugAssign):
            cur = self.expr(_load(st.target), env, mod)
            val = self.binop(st.op, cur, self.expr(st.value, env, mod), st)
            self.store(st.target, val, env, mod)
            return None
        if isinstance(st, ast.If):
            return self._if(st, env, mod)
        if isinstance(st, ast.For):
            return self._for(st, env, mod)
        if isinstance(st, ast.Raise):
            return ('raise', st)
        if isinstance(st, ast.Break):
            return ('break',)
        if isinstance(st, ast.Continue):
            return ('continue',)
        if isinstance(st, (ast.Pass, ast.Import, ast.ImportFrom, ast.Global, ast.Nonlocal)):
            if isinstance(st, ast.ImportFrom):
                for a in st.names:
                    r = None
                    if st.level:
                        base = mod.name.split('.') if mod.is_pkg else mod.name.split('.')[:-1]
                        if st.level > 1:
                            base = base[:-(st.level - 1)]
                        mn = '.'.join(base + (st.module.split('.') if st.module else []))
                        if mn in self.repo.modules:
                            r = self.repo.resolve_name(self.repo.modules[mn], a.name)
                            if r is None and (mn + '.' + a.name) in self.repo.modules:
                                r = ('module', self.repo.modules[mn + '.' + a.name])
                        env[a.asname or a.name] = self._wrap_resolved(r) if r else Unk('import %s' % a.name, st)
                    else:
                        env[a.asname or a.name] = Marker(st.module + '.' + a.name)
            elif isinstance(st, ast.Import):
                for a in st.names:
                    env[a.asname or a.name.split('.')[0]] = Marker(a.name if a.asname else a.name.split('.')[0])
            return None
        if isinstance(st, ast.Assert):
            return None
        if isinstance(st, ast.Try):
            # the normal path; a handler is followed only when the configuration hook selects it, or when a modelled
            # library object raised an exception of a type the handler names
            try:
                sig = self.block(st.body, env, mod)
            except PyRaise as pr:
                for hd in st.handlers:
                    names_ = [] if hd.type is None else [up(x).split('.')[-1] for x in (hd.type.elts if isinstance(hd.type, ast.Tuple) else [hd.type])]
                    if hd.type is None or pr.exc in names_ or 'Exception' in names_:
                        sig = self.block(hd.body, env, mod)
                        if sig is None and st.finalbody:
                            sig = self.block(st.finalbody, env, mod)
                        return sig
                raise
            hsel = self.hooks.try_handler(self, st, env, mod)
            if hsel is not None and sig is None and hsel < len(st.handlers):
                self.assumed.append((mod.path, st.lineno, 'try: handler %d taken' % hsel, True, 'configuration'))
                sig = self.block(st.handlers[hsel].body, env, mod)
            elif sig is None:
                sig = self.block(st.orelse, env, mod)
            if sig is None and st.finalbody:
                sig = self.block(st.finalbody, env, mod)
            return sig
        if isinstance(st, ast.With):
            managed = []
            for it_ in st.items:
                cm = self.expr(it_.context_expr, env, mod)
                bound_ = cm.obj if isinstance(cm, _Closing) else cm
                if isinstance(cm, Obj) and cm.cls is not None and self.repo.find_member(cm.cls, '__enter__') is not None:
                    bound_ = self.call(self.repo.find_member(cm.cls, '__enter__')[1], [], selfv=cm, node=st)          # a context manager of the package: what __enter__ returns
                elif isinstance(cm, Foreign) and not isinstance(cm, _Closing):
                    r_ = cm.sl_method(self, '__enter__', [], {}, st)
                    bound_ = cm if r_ is NotImplemented else r_          # a modelled file-like object: `with` hands out the object itself
                if it_.optional_vars is not None:
                    self.store(it_.optional_vars, bound_, env, mod)
                managed.append(cm)
            sig = self.block(st.body, env, mod)
            for cm in reversed(managed):
                if isinstance(cm, _Closing):          # contextlib.closing(x): x.close() on leaving the block
                    o_ = cm.obj
                    if isinstance(o_, Obj) and o_.cls is not None and self.repo.find_member(o_.cls, 'close') is not None:
                        self.call(self.repo.find_member(o_.cls, 'close')[1], [], selfv=o_, node=st)
                    elif isinstance(o_, Foreign):
                        o_.sl_method(self, 'close', [], {}, st)
                elif isinstance(cm, Obj) and cm.cls is not None and self.repo.find_member(cm.cls, '__exit__') is not None:
                    self.call(self.repo.find_member(cm.cls, '__exit__')[1], [None, None, None], selfv=cm, node=st)
                elif isinstance(cm, Foreign):
                    if cm.sl_method(self, '__exit__', [None, None, None], {}, st) is NotImplemented:
                        cm.sl_method(self, 'close', [], {}, st)          # leaving the block closes a file-like object
            return sig
        if isinstance(st, ast.While):
            # a loop whose test is concrete on every iteration (typically `while True` left by break / return / an exception): unrolled, bounded
            pending = []            # data-dependent breaks met so far: (condition, environment at the break, environment the loop was running on)
            cur = env

            def unwind(cur):
                # leave the loop: the state is that of the break for each pending condition, else what the later iterations made of it
                for c_, e_brk_, outer_ in reversed(pending):
                    self.conds.pop()
                    merge_env(outer_, e_brk_, cur, c_, st)
                    cur = outer_
                del pending[:]
            for _ in range(64):
                dec = self.hooks.decide(self, st.test, cur, mod)
                if dec is None:
                    dec = self._truth(self.expr(st.test, cur, mod))
                if dec is None:
                    unwind(cur)
                    u_ = Unk('while loop with a test the analysis cannot decide', st)
                    self._poison(st, env, u_)
                    env['__tainted__'] = u_          # whatever the function returns (or yields) after this point is not known
                    return None
                if not dec:
                    unwind(cur)
                    return self.block(st.orelse, env, mod) if st.orelse else None
                try:
                    sig = self.block(st.body, cur, mod)
                except BaseException:
                    for _p in pending:
                        self.conds.pop()
                    raise
                if sig:
                    if sig[0] == 'bguard':
                        _, c_, e_brk_, e_go_ = sig
                        pending.append((c_, e_brk_, cur))
                        self.conds.append(alg.b_not(c_))
                        cur = e_go_
                        continue
                    if sig[0] == 'break':
                        unwind(cur)
                        return None
                    if sig[0] == 'continue':
                        continue
                    if pending:
                        unwind(cur)
                        u_ = Unk('a loop left by %s after a data-dependent break' % sig[0], st)
                        self._poison(st, env, u_)
                        env['__tainted__'] = u_
                        return None
                    return sig
            unwind(cur)
            u_ = Unk('while loop did not terminate within 64 iterations although every test was decided', st, definite=True)
            self._poison(st, env, u_)
            env['__tainted__'] = u_
            return None
        if isinstance(st, ast.FunctionDef) and not st.decorator_list:
            from .loader import FuncInfo
            env[st.name] = Closure(FuncInfo(mod, None, st), env)       # free variables are read from the defining scope when called
            return None
        if isinstance(st, (ast.FunctionDef, ast.ClassDef)):
            env[st.name] = Unk('nested definition', st)
            return None
        if isinstance(st, ast.Delete):
            return None
        self._poison(st, env, Unk('statement %s' % type(st).__name__, st))
        return None

    def _truth(self, v):
        """Concrete truth of a value or None."""
        if isinstance(v, Unk):
            return None
        if isinstance(v, Arr):
            if v.ndim == 0 and v.mask is None and any(v.poly == z for z in self.nonzero):
                return True
            if v.ndim == 0 and v.poly.is_const() and v.mask is None:
                return v.poly.const_value() != 0
            return None
        if isinstance(v, (bool, int, float, str)) or v is None:
            return bool(v)
        if isinstance(v, (list, tuple, dict)):
            return bool(v)
        if isinstance(v, (Obj, Marker, FuncRef, ClassRef, GenList, Foreign)):
            return True
        return None

    def _if(self, st, env, mod):
        dec = self.hooks.decide(self, st.test, env, mod)
        src = 'hook'
        if dec is None:
            tv = self.expr(st.test, env, mod)
            dec = self._truth(tv)
            src = 'concrete'
            if dec is None and self.assume and isinstance(tv, Arr) and tv.ndim == 0 and tv.mask is None:
                for p_, b_ in self.assume:
                    if tv.poly == p_:
                        dec = b_
                    elif tv.poly == alg.b_not(p_):
                        dec = not b_
        else:
            self.assumed.append((mod.path, st.lineno, up(st.test), dec, 'configuration'))
        if dec is not None:
            return self.block(st.body if dec else st.orelse, env, mod)
        if not st.orelse and isinstance(tv, Arr) and tv.ndim == 0 and tv.mask is None and tv.poly.is_monomial():
            # `if np.any(m): x[m] = v`: where the mask holds nowhere the masked stores change nothing, so the body may as well run unconditionally
            (m_, c_), = tv.poly.t.items()
            if c_ == 1 and len(m_) == 1 and m_[0][1] == 1 and m_[0][0][0] == 'fn' and m_[0][0][1] == 'any' and len(m_[0][0]) == 3 and m_[0][0][2][0] == 'B':
                lab_, mk_ = m_[0][0][2][1], Poly.from_key(m_[0][0][2][2])

                def masked_by(t_):
                    if not isinstance(t_, ast.Subscript):
                        return False
                    try:
                        ix_ = self.expr(t_.slice, dict(env), mod)
                    except Exception:
                        return False
                    return isinstance(ix_, Arr) and ix_.ndim == 1 and ix_.dims == (lab_,) and ix_.poly == mk_
                def where_by(b_):
                    # name = np.where(m, e, name): where the mask holds nowhere the name keeps its value
                    if not (len(b_.targets) == 1 and isinstance(b_.targets[0], ast.Name) and isinstance(b_.value, ast.Call) and (chain(b_.value.func) or '').split('.')[-1] == 'where'
                            and len(b_.value.args) == 3 and isinstance(b_.value.args[2], ast.Name) and b_.value.args[2].id == b_.targets[0].id):
                        return False
                    try:
                        c0_ = self.expr(b_.value.args[0], dict(env), mod)
                    except Exception:
                        return False
                    return isinstance(c0_, Arr) and c0_.ndim == 1 and c0_.dims == (lab_,) and c0_.poly == mk_

                def temporary(b_):
                    # a name first bound inside the guarded block and not read after it: computed or not, nothing outside sees it
                    if not (len(b_.targets) == 1 and isinstance(b_.targets[0], ast.Name)) or b_.targets[0].id in env:
                        return False
                    fn_ = env.get('__func__')
                    body_ = getattr(getattr(fn_, 'node', None), 'body', None)
                    if body_ is None:
                        return False
                    end_ = getattr(st, 'end_lineno', st.lineno)
                    return not any(isinstance(n_, ast.Name) and n_.id == b_.targets[0].id and isinstance(n_.ctx, ast.Load) and n_.lineno > end_ for n_ in ast.walk(fn_.node))
                if st.body and all(isinstance(b_, ast.Assign) and (all(masked_by(t_) for t_ in b_.targets) or where_by(b_) or temporary(b_)) for b_ in st.body) \
                        and any(isinstance(b_, ast.Assign) and (all(masked_by(t_) for t_ in b_.targets) or where_by(b_)) for b_ in st.body):
                    return self.block(st.body, env, mod)
        if not st.orelse and isinstance(tv, Arr) and tv.ndim == 0 and tv.mask is None and st.body and all(isinstance(b_, ast.Assign) for b_ in st.body):
            # `if not np.all(m): x = x[m]` (several names, possibly as tuples): where the mask holds everywhere the selection is the whole array, so the
            # rebinding may as well happen unconditionally
            def selections_by(m_poly, lab_):
                for b_ in st.body:
                    tg_ = b_.targets[0].elts if isinstance(b_.targets[0], ast.Tuple) else [b_.targets[0]]
                    vl_ = b_.value.elts if isinstance(b_.value, ast.Tuple) and isinstance(b_.targets[0], ast.Tuple) else [b_.value]
                    if len(b_.targets) != 1 or len(tg_) != len(vl_):
                        return False
                    for t_, v_ in zip(tg_, vl_):
                        if not (isinstance(t_, ast.Name) and isinstance(v_, ast.Subscript) and isinstance(v_.value, ast.Name) and v_.value.id == t_.id):
                            return False
                        ix_ = v_.slice.elts if isinstance(v_.slice, ast.Tuple) else [v_.slice]
                        if not all((isinstance(i_, ast.Constant) and i_.value is Ellipsis) or (isinstance(i_, ast.Slice) and not (i_.lower or i_.upper or i_.step)) for i_ in ix_[:-1]):
                            return False
                        try:
                            mv_ = self.expr(ix_[-1], dict(env), mod)
                        except Exception:
                            return False
                        if not (isinstance(mv_, Arr) and mv_.ndim == 1 and mv_.dims == (lab_,) and mv_.poly == m_poly):
                            return False
                return True
            try:
                cand_ = None
                b0_ = st.body[0].value
                b0_ = b0_.elts[0] if isinstance(b0_, ast.Tuple) else b0_
                if isinstance(b0_, ast.Subscript):
                    ixs_ = b0_.slice.elts if isinstance(b0_.slice, ast.Tuple) else [b0_.slice]
                    cand_ = self.expr(ixs_[-1], dict(env), mod)
            except Exception:
                cand_ = None
            if isinstance(cand_, Arr) and cand_.ndim == 1 and cand_.dims[0] and _is_boolean(cand_.poly):
                lab_ = cand_.dims[0]
                forms_ = [alg.b_not(alg.mk_fn('all', B(lab_, cand_.poly))), alg.mk_fn('any', B(lab_, alg.b_not(cand_.poly)))]
                if any(tv.poly == f_ for f_ in forms_) and selections_by(cand_.poly, lab_):
                    return self.block(st.body, env, mod)
        # raise-guards are preconditions: if one side only raises, take the other
        b_raises = _only_raises(st.body)
        o_raises = bool(st.orelse) and _only_raises(st.orelse)
        if b_raises and not o_raises:
            self.assumed.append((mod.path, st.lineno, up(st.test), False, 'raise-guard', tv))
            return self.block(st.orelse, env, mod)
        if o_raises and not b_raises:
            self.assumed.append((mod.path, st.lineno, up(st.test), True, 'raise-guard', tv))
            return self.block(st.body, env, mod)
        # if-conversion on a symbolic scalar condition
        if isinstance(tv, Arr) and tv.ndim == 0 and tv.mask is None and _is_boolean(tv.poly):
            e1, e2 = fork(env), fork(env)
            if tv.poly not in self.forked:
                self.forked.append(tv.poly)
            self.conds.append(tv.poly)
            try:
                s1 = self.block(st.body, e1, mod)
            finally:
                self.conds.pop()
            self.conds.append(alg.b_not(tv.poly))
            try:
                s2 = self.block(st.orelse, e2, mod)
            finally:
                self.conds.pop()
            if s1 is None and s2 is None:
                merge_env(env, e1, e2, tv.poly, st)
                return None
            if bool(s1 and s1[0] == 'raise') != bool(s2 and s2[0] == 'raise'):
                # one arm turned out to raise (through nested tests that were decided): a precondition, like a plain raise-guard - go on with the other arm
                keep_body = bool(s2 and s2[0] == 'raise')
                self.assumed.append((mod.path, st.lineno, up(st.test), keep_body, 'raise-guard', tv))
                go = e1 if keep_body else e2
                for k_ in list(go):
                    if not k_.startswith('__') or k_ in ('__yields__', '__tainted__'):
                        env[k_] = go[k_]
                return s1 if keep_body else s2
            if s1 and s2 and s1[0] == 'return' and s2[0] == 'return':
                return ('return', merge_val(s1[1], s2[1], tv.poly, st))
            # `if c: continue` (or the mirror image): the rest of the loop body runs under (not c)
            if (s1 and s1[0] == 'continue' and s2 is None) or (s2 and s2[0] == 'continue' and s1 is None):
                skip = tv.poly if s1 else alg.b_not(tv.poly)
                taken, other = (e1, e2) if s1 else (e2, e1)
                return ('guard', skip, taken, other)
            # `if c: break` (or the mirror image) in a loop that is unrolled: the rest of the body and the later iterations run under (not c)
            if (s1 and s1[0] == 'break' and s2 is None) or (s2 and s2[0] == 'break' and s1 is None):
                cbrk = tv.poly if s1 else alg.b_not(tv.poly)
                e_brk, e_go = (e1, e2) if s1 else (e2, e1)
                return ('bguard', cbrk, e_brk, e_go)
            # `if c: return X` (or the mirror image): the rest of the function runs under (not c) and its result is selected by c
            if (s1 and s1[0] == 'return' and s2 is None) or (s2 and s2[0] == 'return' and s1 is None):
                cret = tv.poly if s1 else alg.b_not(tv.poly)
                val = (s1 or s2)[1]
                e_ret, e_go = (e1, e2) if s1 else (e2, e1)
                return ('rguard', cret, val, e_ret, e_go)
            self._poison(st, env, Unk('branches of a data-dependent if end differently', st))
            # one arm leaves the loop / function and the other goes on, under a condition only known at run time: whether anything after this point happens
            # is not modelled, so every effect recorded from here on carries an opaque condition and the value returned is unknown
            self._unknown_conds = getattr(self, '_unknown_conds', 0) + 1
            self.flow_taint.append(alg.mk_ind('true', alg.sym('undecided-flow#%d' % self._unknown_conds)))
            env['__tainted__'] = Unk('control flow after a data-dependent %s is not modelled' % ('break' if 'break' in (s1 and s1[0], s2 and s2[0]) else 'exit'), st)
            return None
        # unknown condition: everything assigned in either branch is unknown
        e1, e2 = fork(env), fork(env)
        self._unknown_conds = getattr(self, '_unknown_conds', 0) + 1
        uc = alg.mk_ind('true', alg.sym('undecided-condition#%d' % self._unknown_conds))     # an opaque bracket: side effects recorded by hooks happen under it
        self.conds.append(uc)
        try:
            s1 = self.block(st.body, e1, mod)
        finally:
            self.conds.pop()
        self.conds.append(alg.b_not(uc))
        try:
            s2 = self.block(st.orelse, e2, mod)
        finally:
            self.conds.pop()
        def leaves(sg):
            return sg is not None and sg[0] in ('return', 'raise')
        if leaves(s1) and leaves(s2):
            if s1[0] == 'return' and s2[0] == 'return':
                return ('return', merge_val(s1[1], s2[1], None, st))
            return s1 if s1[0] == 'return' else s2
        if leaves(s1) or leaves(s2):
            # one arm leaves the function under a condition the analysis cannot decide: go on with the other arm,
            # but whatever the function finally returns is unknown
            env['__tainted__'] = Unk('the function may already have returned under an undecided condition', st)
            go = e2 if leaves(s1) else e1
            for k_ in list(go):
                if not k_.startswith('__'):
                    env[k_] = go[k_]
            return None
        merge_env(env, e1, e2, None, st)
        return None

    def _for(self, st, env, mod):
        it = st.iter
        # idiom: for j in np.where(MASK)[0]
        if (isinstance(it, ast.Subscript) and isinstance(it.value, ast.Call) and (chain(it.value.func) or '').split('.')[-1] in ('where', 'nonzero')
                and up(it.slice) == '0' and len(it.value.args) == 1):
            m = self.expr(it.value.args[0], env, mod)
            if isinstance(m, Arr) and m.ndim == 1 and m.mask is None and m.dims[0] in self.axis_len and self.axis_len[m.dims[0]] <= 16 and isinstance(st.target, ast.Name) and not st.orelse:
                # an axis of a few known positions: position k is visited exactly when the mask holds there
                for k_ in range(self.axis_len[m.dims[0]]):
                    test_ = ast.copy_location(ast.Subscript(value=it.value.args[0], slice=ast.Constant(value=k_), ctx=ast.Load()), it)
                    body_ = [ast.copy_location(ast.Assign(targets=[ast.Name(id=st.target.id, ctx=ast.Store())], value=ast.Constant(value=k_), lineno=st.lineno), st)] + list(st.body)
                    if_ = ast.fix_missing_locations(ast.copy_location(ast.If(test=test_, body=body_, orelse=[]), st))
                    sig = self._if(if_, env, mod)
                    if sig:
                        if sig[0] in ('return', 'raise'):
                            return sig
                        u_ = Unk('a loop over the positions of a mask left by %s' % sig[0], st)
                        self._poison(st, env, u_)
                        env['__tainted__'] = u_
                        return None
                return None
            if isinstance(m, Arr) and m.ndim == 1 and m.mask is not None:
                # positions in a compressed selection (x[sel] == value): they count the selected elements, not the positions of the axis
                self.store(st.target, Pinned('sel:' + alg.show(m.mask, 400), m.poly), env, mod)
                sig = self.block(st.body, env, mod)
                return sig if sig and sig[0] in ('return', 'raise') else None
            if isinstance(m, Arr) and m.ndim == 1:
                self.store(st.target, Pinned(m.dims[0], m.poly), env, mod)
                sig = self.block(st.body, env, mod)
                return sig if sig and sig[0] in ('return', 'raise') else None
        itv = self.expr(it, env, mod)
        if isinstance(itv, Obj):
            itv = self.iterate_obj(itv, st)
        if isinstance(itv, _ArgWhere) and isinstance(st.target, ast.Name) and not st.orelse:
            # one row per selected position: the loop variable is an index *array* of one element
            self.store(st.target, _Idx1(Pinned(itv.mask.dims[0], itv.mask.poly)), env, mod)
            sig = self.block(st.body, env, mod)
            return sig if sig and sig[0] in ('return', 'raise') else None
        if isinstance(itv, _WhereIdx) and isinstance(itv.mask, Arr) and itv.mask.ndim == 1 and itv.mask.mask is None and itv.mask.dims[0] in self.axis_len \
                and self.axis_len[itv.mask.dims[0]] <= 16 and isinstance(st.target, ast.Name) and not st.orelse:
            # the positions where a mask over a few known positions holds: position k is visited exactly when the mask holds there
            tmp_ = '__mask%d__' % id(st)
            env[tmp_] = itv.mask
            try:
                for k_ in range(self.axis_len[itv.mask.dims[0]]):
                    test_ = ast.copy_location(ast.Subscript(value=ast.Name(id=tmp_, ctx=ast.Load()), slice=ast.Constant(value=k_), ctx=ast.Load()), st)
                    body_ = [ast.copy_location(ast.Assign(targets=[ast.Name(id=st.target.id, ctx=ast.Store())], value=ast.Constant(value=k_), lineno=st.lineno), st)] + list(st.body)
                    if_ = ast.fix_missing_locations(ast.copy_location(ast.If(test=test_, body=body_, orelse=[]), st))
                    sig = self._if(if_, env, mod)
                    if sig:
                        if sig[0] in ('return', 'raise'):
                            return sig
                        u_ = Unk('a loop over the positions of a mask left by %s' % sig[0], st)
                        self._poison(st, env, u_)
                        env['__tainted__'] = u_
                        return None
            finally:
                env.pop(tmp_, None)
            return None
        gen = self._generic_iter(itv, st)
        if gen is not None:
            if isinstance(gen, list):          # concrete unrolling
                pending, cur, rets = [], env, []
                try:
                    for v in gen:
                        if isinstance(v, _Guarded):
                            # an item the generator yields under a condition: the body runs under it, and what it changes is selected by it
                            e_run, e_skip = fork(cur), fork(cur)
                            self.store(st.target, v.value, e_run, mod)
                            self.conds.append(v.cond)
                            try:
                                sig = self.block(st.body, e_run, mod)
                            finally:
                                self.conds.pop()
                            if sig and sig[0] != 'continue':
                                u_ = Unk('a loop body that leaves the loop on an item yielded under a condition', st)
                                self._poison(st, env, u_)
                                env['__tainted__'] = u_
                                return None
                            merge_env(cur, e_run, e_skip, v.cond, st)
                            continue
                        self.store(st.target, v, cur, mod)
                        sig = self.block(st.body, cur, mod)
                        if sig:
                            if sig[0] == 'bguard':
                                _, c_, e_brk_, e_go_ = sig
                                pending.append((c_, e_brk_, cur))
                                self.conds.append(alg.b_not(c_))
                                cur = e_go_
                                continue
                            if sig[0] == 'rguard':
                                # `if c: return v` inside the loop: the later iterations run under (not c); the value returned is kept
                                _, c_, val_, e_ret_, e_go_ = sig
                                rets.append((c_, val_))
                                pending.append((c_, e_ret_, cur))
                                self.conds.append(alg.b_not(c_))
                                cur = e_go_
                                continue
                            if sig[0] == 'break':
                                break
                            if sig[0] == 'continue':
                                continue
                            if pending:
                                u_ = Unk('a loop left by %s after a data-dependent break' % sig[0], st)
                                self._poison(st, env, u_)
                                env['__tainted__'] = u_
                                return None
                            return sig
                    done_ = True
                finally:
                    for c_, e_brk_, outer_ in reversed(pending):
                        self.conds.pop()
                        merge_env(outer_, e_brk_, cur, c_, st)
                        cur = outer_
                if rets:
                    # the loop ran to its end on the paths that did not return: what follows the loop runs under "none of the conditions held"
                    C_, V_ = rets[0]
                    for c_, v_ in rets[1:]:
                        V_ = merge_val(V_, v_, C_, st)
                        C_ = C_ + alg.b_not(C_) * c_
                    return ('rguard', C_, V_, fork(env), env)
                return None
            self.store(st.target, gen, env, mod)
            sig = self.block(st.body, env, mod)
            if not (sig and sig[0] in ('return', 'raise')) and isinstance(itv, GenList) and isinstance(st.target, ast.Name) and itv.label is not None:
                # after the loop its variable still names the LAST element, not the generic one: code further down that reads it (a stale name in a later
                # loop or comprehension) gets the last element for every position
                env[st.target.id] = _last_element(env.get(st.target.id), itv.label)
            return sig if sig and sig[0] in ('return', 'raise') else None
        self.store(st.target, Unk('loop variable of an unmodelled iterable %s' % up(it)[:60], st), env, mod)
        if any(isinstance(n_, ast.Call) for b_ in st.body for n_ in ast.walk(b_)):
            # how often the body runs, and with what, is not known: whatever its calls do is lost
            self.lost.append((getattr(st, 'lineno', 0), 'for ... in %s' % up(it)[:60], 'loop over an unmodelled iterable'))
        before_ = dict(env)
        objs_ = [(o_, dict(o_.attrs)) for o_ in {id(v_): v_ for v_ in env.values() if isinstance(v_, Obj)}.values()]
        self.block(st.body, env, mod)
        # the body may have run any number of times, or not at all: whatever it rebinds is not known after the loop
        for k_ in list(env):
            if k_ not in before_ or not _same_value(env[k_], before_[k_]):
                env[k_] = Unk('name bound in a loop over an unmodelled iterable %s' % up(it)[:60], st)
        for o_, a0_ in objs_:
            for k_ in list(o_.attrs):
                if k_ not in a0_ or not _same_value(o_.attrs[k_], a0_[k_]):
                    o_.attrs[k_] = Unk('attribute stored in a loop over an unmodelled iterable %s' % up(it)[:60], st)
        return None

    def _generic_iter(self, itv, st):
        """Value(s) bound to the loop target for one generic iteration, or a list for concrete unrolling."""
        if isinstance(itv, dict):
            itv = list(itv)
        if isinstance(itv, Foreign):
            r = itv.sl_iter(self)
            itv = None if r is NotImplemented else r
        if isinstance(itv, (list, tuple)):
            return list(itv) if len(itv) <= 64 else None
        if isinstance(itv, GenList):
            return itv.elem
        if isinstance(itv, Arr) and itv.ndim >= 1 and itv.dims[0] is None and itv.mask is None:
            if itv.ndim == 1 and itv.dt == 'i' and itv.poly.is_const() and itv.poly.const_value().denominator == 1:
                return [int(itv.poly.const_value())]
            return [Arr(itv.dims[1:], itv.poly, None, itv.unit)]          # an unlabelled axis has one position
        if isinstance(itv, Arr) and itv.ndim >= 1 and itv.dims[0] and itv.mask is None and self.axis_len.get(itv.dims[0], 99) <= 16:
            # the configuration fixes the length of this axis: one iteration per position
            els_ = [Arr(itv.dims[1:], alg.index_at(itv.poly, itv.dims[0], num(k_)), None, itv.unit, dt=itv.dt) for k_ in range(self.axis_len[itv.dims[0]])]
            if itv.ndim == 1 and itv.dt == 'i' and all(x_.poly.is_const() and x_.poly.const_value().denominator == 1 for x_ in els_):
                return [int(x_.poly.const_value()) for x_ in els_]          # whole numbers (positions from arange, a list of indices): used as such
            return els_
        if isinstance(itv, Arr) and itv.ndim >= 1 and itv.dims[0]:
            return Arr(itv.dims[1:], itv.poly, itv.mask, itv.unit)       # generic element (label stays free)
        if isinstance(itv, _WhereIdx):
            return Pinned(itv.mask.dims[0], itv.mask.poly)
        if isinstance(itv, _Range):
            return Pinned(itv.label) if itv.label else None
        if isinstance(itv, SymTable):
            return {c: Arr(tuple(a.dims[1:]), a.poly, unit=a.unit) for c, a in itv.cols.items() if isinstance(a, Arr)}         # the generic row
        if isinstance(itv, _Zip):
            inners = [self._generic_iter(x, st) for x in itv.inners]
            if all(isinstance(x, list) for x in inners):
                return [tuple(r) for r in zip(*inners)]
            if any(x is None or isinstance(x, list) for x in inners):
                return None
            return tuple(inners)             # the generic elements of each, at the same position of the shared axis
        if isinstance(itv, _Enumerate):
            inner = self._generic_iter(itv.inner, st)
            if isinstance(inner, list):
                return [(i, v) for i, v in enumerate(inner, getattr(itv, 'start', 0))]
            lab = itv.label
            if isinstance(itv.inner, _WhereIdx) and inner is not None:
                return (Pinned(itv.inner.sel_label()), inner)      # counter within the selection, position on the axis
            if inner is not None and lab:
                if getattr(itv, 'start', 0):
                    return (Arr((), alg.sym('idx:' + str(lab), lab) + num(itv.start), unit=num(1)), inner)       # the counter starts at ``start``: position + start
                return (Pinned(lab), inner)
        return None

    # ------------------------------------------------------------------ stores
    def store(self, t, val, env, mod):
        if isinstance(t, ast.Name):
            env[t.id] = val
            return
        if isinstance(t, (ast.Tuple, ast.List)):
            if isinstance(val, (tuple, list)) and len(val) == len(t.elts):
                for tt, v in zip(t.elts, val):
                    self.store(tt, v, env, mod)
            elif isinstance(val, Arr) and val.ndim >= 1 and val.mask is None and val.dims[0]:
                # a, b = x : element k of the first axis (python raises unless the length matches)
                for k, tt in enumerate(t.elts):
                    self.store(tt, Arr(val.dims[1:], alg.mk_fn('at', B(val.dims[0], val.poly), P(num(k))), unit=val.unit), env, mod)
            else:
                for tt in t.elts:
                    self.store(tt, val if isinstance(val, Unk) else Unk('cannot unpack %r' % (val,), t), env, mod)
            return
        if isinstance(t, ast.Attribute):
            o = self.expr(t.value, env, mod)
            if isinstance(o, Obj):
                self.setattr(o, t.attr, val, t, mod)
                return
            if isinstance(o, Foreign):
                o.sl_setattr(self, t.attr, val, t)
                return
            if isinstance(o, Arr) and t.attr == 'unit':
                return
            return
        if isinstance(t, ast.Subscript):
            self.store_sub(t, val, env, mod)
            return

    def _in_generic_loop_over(self, lab, env):
        return any(isinstance(v, Pinned) and v.label == lab for v in env.values())

    def _dead_store(self, t, env, mod):
        ix = t.slice
        idx = ix.elts if isinstance(ix, ast.Tuple) else [ix]
        for i in idx:
            if isinstance(i, (ast.Slice, ast.Constant)):
                continue
            try:
                v = self._expr(i, env, mod)
            except Exception:
                return False
            if isinstance(v, Arr) and v.ndim >= 1 and v.poly.is_zero():
                return True
        return False

    def class_attr(self, ci, name):
        """value of an attribute assigned in the body of class ``ci`` or one of its bases (evaluated once: the same object for every instance), or _MISSING"""
        cache = self.__dict__.setdefault('_clsattrs', {})
        for c in self.repo.mro(ci):
            if name in c.class_attrs:
                key = (c.qual, name)
                if key not in cache:
                    cache[key] = _MISSING            # guards against re-entry while it is being evaluated
                    try:
                        cenv_ = {'__module__': c.module}
                        for n_ in ast.walk(c.class_attrs[name]):
                            if isinstance(n_, ast.Name) and n_.id != name and n_.id in c.class_attrs:
                                cenv_[n_.id] = self.class_attr(c, n_.id)          # a name of the class body defined further up
                        v = self.expr(c.class_attrs[name], cenv_, c.module)
                    except (Raised, PyRaise):
                        v = Unk('class attribute %s.%s' % (c.name, name))
                    cache[key] = v
                    if isinstance(v, Obj) and v.cls is not None:
                        sn = self.repo.find_member(v.cls, '__set_name__')
                        if sn is not None and sn[0] == 'method':
                            self.call(sn[1], [ClassRef(c), name], selfv=v)
                return cache[key]
        return _MISSING

    def _descriptor(self, o, name, which):
        """the descriptor object bound to ``name`` in the class of ``o`` and its ``which`` (__get__ / __set__) method, or None"""
        if o.cls is None or not any(name in c.class_attrs for c in self.repo.mro(o.cls)):
            return None
        d = self.class_attr(o.cls, name)
        if isinstance(d, Obj) and d.cls is not None:
            m = self.repo.find_member(d.cls, which)
            if m is not None and m[0] == 'method':
                return d, m[1]
        return None

    def setattr(self, o, name, val, node, mod):
        ds = self._descriptor(o, name, '__set__') if isinstance(o, Obj) else None
        if ds is not None:
            self.call(ds[1], [o, val], selfv=ds[0], node=node)          # a data descriptor of the class: its __set__ decides what is stored
            return
        if o.cls is not None:
            setter = self.repo.find_setter(o.cls, name)
            if setter is not None:
                r = NotImplemented if getattr(self, '_guard_mode', False) else self.hooks.setter(self, o, name, val, setter, node)
                if r is not NotImplemented:
                    return
                self.call(setter, [val], selfv=o, node=node)
                return
        o.attrs[name] = val

    def getattr(self, o, name, node, mod):
        if name == '__class__' and o.cls is not None:
            return ClassRef(o.cls)
        if name == '__dict__':
            return o.attrs          # the attribute table itself: what is written into it is set on the object
        dg = self._descriptor(o, name, '__get__') if o.cls is not None and any(name in c.class_attrs for c in self.repo.mro(o.cls)) else None
        if dg is not None and (name not in o.attrs or self.repo.find_member(dg[0].cls, '__set__') is not None):
            return self.call(dg[1], [o, ClassRef(o.cls)], selfv=dg[0], node=node)          # a descriptor of the class (a data descriptor wins over the instance)
        if name in o.attrs:
            return o.attrs[name]
        if o.cls is not None:
            m = self.repo.find_member(o.cls, name)
            if m is not None:
                if m[0] == 'getter':
                    return self.call(m[1], [], selfv=o, node=node)
                if 'classmethod' in m[1].decorators:
                    return Bound(m[1], ClassRef(o.cls))
                if 'staticmethod' in m[1].decorators:
                    return FuncRef(m[1])
                return Bound(m[1], o)
            cv = self.class_attr(o.cls, name)
            if cv is not _MISSING:
                return cv
            if not name.startswith('__') and self.depth < 8:
                dyn = self.repo.find_member(o.cls, '__getattr__')
                if dyn is not None and dyn[0] == 'method':
                    # attributes computed by the class's own __getattr__ (e.g. FitInfo.n_fits)
                    try:
                        r_ = self.call(dyn[1], [name], selfv=o, node=node)
                    except Raised:
                        r_ = Unk('unknown attribute %s.%s' % (o.cls.name, name), node)
                    if not (isinstance(r_, Unk) and 'always raises' in r_.why):
                        return r_
        if o.strict:
            raise PyRaise('AttributeError', '%s object has no attribute %s' % (o.cls.name if o.cls else 'object', name))
        return Unk('unknown attribute %s.%s' % (o.cls.name if o.cls else '?', name), node)

    def _holder(self, node, env, mod):
        """Resolve the container of a subscript store to (get, set) closures."""
        if isinstance(node, ast.Name):
            return (lambda: env.get(node.id, Unk('unbound %s' % node.id, node)), lambda v: env.__setitem__(node.id, v))
        if isinstance(node, ast.Attribute):
            o = self.expr(node.value, env, mod)
            if isinstance(o, Obj):
                key = node.attr
                priv = '_' + key
                if o.cls is not None:
                    st = self.repo.find_setter(o.cls, key)
                    if st is not None:
                        priv = setter_private_attr(st) or priv

                def getter():
                    if key in o.attrs:
                        return o.attrs[key]
                    if priv in o.attrs:
                        return o.attrs[priv]
                    return self.getattr(o, key, node, mod)

                def setter(v):
                    # an in-place store does not go through the property setter: it updates the stored array
                    if key in o.attrs or priv not in o.attrs:
                        o.attrs[key] = v
                    else:
                        o.attrs[priv] = v
                return getter, setter
        return None

    def store_sub(self, t, val, env, mod):
        if not isinstance(t.value, ast.Subscript) or True:
            base_ = None
            try:
                base_ = self.expr(t.value, env, mod) if not isinstance(t.value, ast.Name) or isinstance(env.get(t.value.id), Foreign) else None
            except (Raised, PyRaise):
                raise
            except Exception:
                base_ = None
            if isinstance(base_, Foreign):
                k = tuple(self.expr(x, env, mod) for x in t.slice.elts) if isinstance(t.slice, ast.Tuple) else self.expr(t.slice, env, mod)
                base_.sl_setitem(self, k, val, t)
                return
        # find base holder and accumulated condition
        chain_nodes = []
        node = t
        while isinstance(node, ast.Subscript):
            chain_nodes.append(node)
            node = node.value
        for inner_ in chain_nodes[1:]:
            for ix_ in (inner_.slice.elts if isinstance(inner_.slice, ast.Tuple) else [inner_.slice]):
                if isinstance(ix_, ast.Name) and isinstance(env.get(ix_.id), _Idx1):
                    # x[..., index_array][...] = value: indexing with an array copies - the store goes into a temporary and x keeps its values
                    return
        if isinstance(node, ast.Name) and isinstance(env.get(node.id), Arr) and env[node.id].view_src is not None and not getattr(t, '_through_view', False):
            src, ids = env[node.id].view_src
            if all(id(env.get(k_)) == v_ for k_, v_ in ids.items()):
                # view[...] = value  ==  base[view's index][...] = value
                class _Sub(ast.NodeTransformer):
                    def visit_Name(self_, n_):
                        return ast.copy_location(src, n_) if n_ is node else n_
                import copy as _copy
                t2 = _copy.copy(t)
                chain2, cur = [], t
                while isinstance(cur, ast.Subscript):
                    chain2.append(cur)
                    cur = cur.value
                new_t = src
                for sub_ in reversed(chain2):
                    new_t = ast.Subscript(value=new_t, slice=sub_.slice, ctx=ast.Store())
                    ast.copy_location(new_t, sub_)
                new_t._through_view = True
                self.store_sub(new_t, val, env, mod)
                refreshed = self.expr(src, env, mod)
                if isinstance(refreshed, Arr):
                    refreshed.view_src = (src, {k_: id(env.get(k_)) for k_ in ids})
                env[node.id] = refreshed
                return
            root = src.value
            while isinstance(root, (ast.Subscript, ast.Attribute)):
                root = root.value
            if isinstance(root, ast.Name):
                env[root.id] = Unk('possibly written through a view taken before it was rebound', t)
        h = self._holder(node, env, mod)
        if h is None:
            base = self.expr(node, env, mod)
            if isinstance(base, GenList) and len(chain_nodes) >= 1:
                pass
            return
        get, setv = h
        old = get()
        if isinstance(old, dict):
            k = self.expr(chain_nodes[-1].slice, env, mod)
            if len(chain_nodes) == 1 and isinstance(k, (str, int)):
                old[k] = val
            return
        if isinstance(old, (list,)) and len(chain_nodes) == 1:
            k = self.expr(chain_nodes[0].slice, env, mod)
            if isinstance(k, int) and -len(old) <= k < len(old):
                old[k] = val
            return
        if isinstance(old, GenList):
            return
        if isinstance(old, SymTable) and len(chain_nodes) == 1:
            k = self.expr(chain_nodes[0].slice, env, mod)
            if isinstance(k, str):
                old.cols[k] = val if isinstance(val, Arr) else Unk('table column value', t)
            return
        if isinstance(old, SymTable) and len(chain_nodes) >= 2:
            k = self.expr(chain_nodes[-1].slice, env, mod)
            if isinstance(k, str) and isinstance(old.cols.get(k), Arr):
                # table[column][...] = value: a store into the column's array
                tbl_ = old
                old = tbl_.cols[k]
                setv = lambda v_, tbl_=tbl_, k=k: tbl_.cols.__setitem__(k, v_)
                chain_nodes = chain_nodes[:-1]
        if not isinstance(old, Arr):
            setv(Unk('subscript store into %r' % (old,), t))
            return
        cond = Poly.const(1)
        cur_dims = list(old.dims)
        shifts = []       # (label, k): value stored at running index + k
        scatters = []     # (label, index poly): A[idx] = v
        for sub in reversed(chain_nodes):
            idx = sub.slice.elts if isinstance(sub.slice, ast.Tuple) else [sub.slice]
            ax = 0
            new_dims = []
            for ix in idx:
                if isinstance(ix, ast.Slice):
                    if (ix.lower or ix.upper or ix.step) and len(chain_nodes) == 1 and len(idx) == 1 and old.ndim == 1 and old.mask is None \
                            and old.dims[0] in self.axis_len and self.axis_len[old.dims[0]] <= 64:
                        # x[a:b:c] = v on an axis of known length with fixed bounds: the positions are known, one by one
                        b_ = [self.expr(x_, env, mod) if x_ is not None else None for x_ in (ix.lower, ix.upper, ix.step)]
                        b_ = [int(x_.poly.const_value()) if isinstance(x_, Arr) and x_.ndim == 0 and x_.poly.is_const() and x_.poly.const_value().denominator == 1 else x_ for x_ in b_]
                        if all(x_ is None or (isinstance(x_, int) and not isinstance(x_, bool)) for x_ in b_) and b_[2] != 0:
                            r_ = self._store_positions(old, list(range(*slice(*b_).indices(self.axis_len[old.dims[0]]))), val, t, mod)
                            if r_ is not None:
                                setv(r_)
                                _replace_aliases(env, old, r_)
                                for fr_ in self.frames:
                                    if fr_ is not env:
                                        _replace_aliases(fr_, old, r_)
                                return
                    if ix.lower or ix.upper or ix.step:
                        setv(Unk('store through a partial slice', t))
                        return
                    if ax >= len(cur_dims):
                        setv(Unk('too many indices in store', t))
                        return
                    new_dims.append(cur_dims[ax]); ax += 1
                    continue
                v = self.expr(ix, env, mod)
                if isinstance(v, _WhereIdx):
                    v = v.mask                  # the positions where a mask holds, used as an index: the selection the mask itself makes
                if isinstance(v, type(Ellipsis)) or (isinstance(ix, ast.Constant) and ix.value is Ellipsis):
                    rest = len(idx) - idx.index(ix) - 1
                    while len(cur_dims) - ax > rest:
                        new_dims.append(cur_dims[ax]); ax += 1
                    continue
                if ax >= len(cur_dims):
                    setv(Unk('too many indices in store', t))
                    return
                lab = cur_dims[ax]
                if isinstance(v, Pinned) and isinstance(v.label, str) and v.label.startswith('sel:'):
                    if old.mask is not None and ('sel:' + alg.show(old.mask, 400)) == v.label:
                        cond = cond * v.guard          # a position of the selection the array itself is: the store lands on the selected elements
                        ax += 1
                        continue
                    self.findings.append(Finding('label-clash', 'counter of the selection %s used to store into %s in %s' % (v.label[4:][:80], 'another selection' if old.mask is not None else 'an unselected array', up(sub)), sub, mod.path))
                    setv(Unk('label clash', t, definite=True))
                    return
                if isinstance(v, Pinned):
                    if lab != v.label:
                        self.findings.append(Finding('label-clash', 'index over axis %r used on axis %r in store %s' % (v.label, lab, up(sub)), sub, mod.path))
                        setv(Unk('label clash', t, definite=True))
                        return
                    cond = cond * v.guard
                    ax += 1
                elif isinstance(v, Arr) and v.ndim >= 1 and _is_boolean(v.poly) and v.dt not in ('i', 'f'):
                    for k, d in enumerate(v.dims):
                        if ax + k < len(cur_dims) and cur_dims[ax + k] != d and self._positional(d) and self._positional(cur_dims[ax + k]) \
                                and self.axis_len[d] == self.axis_len[cur_dims[ax + k]] and cur_dims[ax + k] not in v.dims:
                            v = self._relabel_axis(v, d, cur_dims[ax + k])          # two position-counting axes of the same length line up
                        elif ax + k < len(cur_dims) and cur_dims[ax + k] is None and self._positional(d) and self.axis_len[d] == 1:
                            v = v.with_(dims=tuple(None if d_ == d else d_ for d_ in v.dims), poly=alg.index_at(v.poly, d, num(0)))          # one position each
                    for k, d in enumerate(v.dims):
                        if ax + k >= len(cur_dims) or cur_dims[ax + k] != d:
                            self.findings.append(Finding('label-clash', 'mask over %r used on axes %r in store %s' % (v.dims, tuple(cur_dims[ax:ax + v.ndim]), up(sub)), sub, mod.path))
                            setv(Unk('label clash', t, definite=True))
                            return
                    cond = cond * v.poly
                    for k in range(v.ndim):
                        new_dims.append(cur_dims[ax]); ax += 1
                elif isinstance(v, Arr) and v.ndim == 0 and lab is not None and _index_offset(v.poly, lab) is not None:
                    # A[i + k] = f(i)  for the running index i of this axis:  A[j] = f(j - k)
                    k = _index_offset(v.poly, lab)
                    shift_store = -k
                    shifts.append((lab, shift_store))
                    ax += 1
                elif isinstance(v, Arr) and v.ndim == 1 and not _is_boolean(v.poly) and lab is not None and v.dims == (lab,):
                    scatters.append((lab, v.poly))
                    new_dims.append(cur_dims[ax]); ax += 1
                elif isinstance(v, int) and not isinstance(v, bool) and lab in self.axis_len and -self.axis_len[lab] <= v < self.axis_len[lab] \
                        and not self._in_generic_loop_over(lab, env):
                    # x[..., k, ...] = v at a fixed position of an axis of known length: the store lands where the running position is k
                    self.positional.append((lab, v, mod.path, sub.lineno))
                    cond = cond * alg.mk_ind('==0', alg.sym('idx:' + lab, lab) - num(v % self.axis_len[lab]))
                    ax += 1
                elif isinstance(v, int) and not isinstance(v, bool):
                    self.positional.append((lab, v, mod.path, sub.lineno))
                    if lab is not None and self._in_generic_loop_over(lab, env):
                        self.findings.append(Finding('label-clash', 'store at the constant position %d of axis %r inside a loop over that axis: %s' % (v, lab, up(sub)), sub, mod.path))
                        setv(Unk('store at a constant position of the looped axis', t, definite=True))
                    else:
                        setv(Unk('store at a constant position of a labelled axis', t))
                    return
                else:
                    setv(Unk('store index form %s' % up(ix), t))
                    return
            new_dims += cur_dims[ax:]
            cur_dims = new_dims
        v = val
        if isinstance(v, (int, float)) and not isinstance(v, bool):
            v = Arr((), num(v))
        if isinstance(v, str) and len(v) <= 60:
            v = Arr((), alg.sym('str:' + v))          # a piece of text as an element of an array of strings: a constant that equals only itself
        if isinstance(v, Unk) or not isinstance(v, Arr):
            setv(v if isinstance(v, Unk) else Unk('non-array value stored into an array', t))
            return
        if v.mask is not None:
            if not (v.mask == cond):
                setv(Unk('masked value stored under a different mask', t))
                return
        if isinstance(v, Arr) and v.ndim and cur_dims:
            for k_ in range(1, min(len(cur_dims), v.ndim) + 1):          # position-counting axes of the same length line up (trailing axes, as numpy broadcasts)
                x_, y_ = cur_dims[-k_], v.dims[-k_]
                if x_ and y_ and x_ != y_ and self._positional(x_) and (self._positional(y_) or y_ in self.axis_len) and self.axis_len[x_] == self.axis_len[y_] and x_ not in v.dims:
                    v = self._relabel_axis(v, y_, x_)          # the buffer only counts positions: position k of it receives element k of the value's axis
                elif x_ is None and y_ and self.axis_len.get(y_) == 1:
                    # an axis of one known position stored along an axis of one (unlabelled) position: its only element
                    d_ = list(v.dims)
                    d_[len(d_) - k_] = None
                    v = v.with_(dims=tuple(d_), poly=alg.index_at(v.poly, y_, num(0)), mask=None if v.mask is None else alg.index_at(v.mask, y_, num(0)))
        try:
            bdims(tuple(cur_dims), v.dims)
        except LabelClash as e:
            self.findings.append(Finding('label-clash', '%s in store %s' % (e, up(t)), t, mod.path))
            setv(Unk('label clash', t, definite=True))
            return
        vp = v.poly
        for lab, k in shifts:
            vp = alg.shift_index(vp, lab, k)
            cond = alg.shift_index(cond, lab, k)
        for lab, ip in scatters:
            vp = alg.mk_fn('at', B(lab, vp), P(alg.array_fn('invperm', lab, ip)))
        conv = old.conv
        if old.unit is not None and v.unit is not None and not (old.unit == v.unit) and not (vp.is_const()):
            # astropy converts on assignment; the physical value is unchanged, the stored number is a rounded conversion
            conv = conv + (('assign', alg.show(v.unit, 30), alg.show(old.unit, 30), alg.show(vp, 60), getattr(t, 'lineno', 0)),)
        self._dtype_finding(old, v, node, t, mod)
        newp = old.poly + cond * (vp - old.poly)
        newv = Arr(old.dims, newp, old.mask, old.unit, dt=old.dt)
        newv.conv = conv
        newv.dt_src = old.dt_src
        setv(newv)
        _replace_aliases(env, old, newv)      # an in-place store is seen through every view of the buffer
        for fr_ in self.frames:
            if fr_ is not env:
                _replace_aliases(fr_, old, newv)      # ... including the callers that passed the array in

    # ------------------------------------------------------------------ expressions
    def expr(self, e, env, mod):
        try:
            return self._expr(e, env, mod)
        except LabelClash as ex:
            self.findings.append(Finding('label-clash', str(ex), e, mod.path))
            return Unk('label clash: %s' % ex, e, definite=True)
        except ZeroDivisionError as ex:
            return Unk('division by zero in normal form', e)
        except (ValueError, OverflowError) as ex:
            return Unk('constant folding: %s' % ex, e)

    def _decorated(self, fi):
        """the value a module-level name of a function is bound to: the function, or what the package's own decorators make of it (@deco above a def
        binds the name to deco(function)); decorators from outside the package are taken to leave the behaviour as it is"""
        if not fi.node.decorator_list or fi.cls is not None:
            return FuncRef(fi)
        cache = self.__dict__.setdefault('_decorated_cache', {})
        if fi.qual in cache:
            return cache[fi.qual]
        val = FuncRef(fi)
        cache[fi.qual] = val          # (a decorator that refers to the name while it is being applied sees the bare function)
        for d in reversed(fi.node.decorator_list):
            try:
                dv = self.expr(d, {'__module__': fi.module}, fi.module)
            except Exception:
                dv = None
            if isinstance(dv, (FuncRef, ClassRef, Closure)):
                val = self.apply(dv, [val], {}, d, fi.module)
            elif isinstance(dv, (Marker, type(None))):
                continue
            else:
                val = Unk('decorator %s of %s' % (up(d), fi.qual), d)
        cache[fi.qual] = val
        return val

    def _wrap_resolved(self, r):
        if r is None:
            return None
        k, v = r
        if k == 'func':
            return self._decorated(v)
        if k == 'class':
            return ClassRef(v)
        if k == 'module':
            return ModRef(v)
        if k == 'ext':
            return Marker(v)
        return None

    def _name(self, e, env, mod):
        if e.id in env:
            return env[e.id]
        if e.id in ('True', 'False', 'None'):
            return {'True': True, 'False': False, 'None': None}[e.id]
        r = self.repo.resolve_name(mod, e.id)
        if r is not None:
            return self._wrap_resolved(r)
        if e.id in mod.globals:
            return self.module_value(mod, e.id)
        imp = mod.imports.get(e.id)
        if imp is not None and imp[0] != 'ext' and imp[1] in self.repo.modules and imp[2] and imp[2] in self.repo.modules[imp[1]].globals:
            other = self.repo.modules[imp[1]]              # a constant imported from another module of the package
            return self.module_value(other, imp[2])
        if e.id in BUILTINS:
            return Marker('builtins.' + e.id)
        return Unk('unbound name %s' % e.id, e)

    def path_cond(self):
        c = Poly.const(1)
        for x in self.conds:
            c = c * x
        for x in self.flow_taint:
            c = c * x
        return c

    def iterate_obj(self, o, node):
        """what iterating an object of a repo class gives: its __iter__ run eagerly"""
        it = self.repo.find_member(o.cls, '__iter__') if o.cls is not None else None
        if it is not None and it[0] == 'method':
            r = self.call(it[1], [], selfv=o, node=node)
            if isinstance(r, Obj) and r.cls is not None and self.repo.find_member(r.cls, '__next__') is not None:
                return self._drain(r, node)
            return r
        if o.cls is not None and self.repo.find_member(o.cls, '__next__') is not None:
            return self._drain(o, node)
        return Unk('iteration over %r' % (o,), node)

    def _drain(self, it, node):
        """an iterator object of a repo class: __next__ called until it raises StopIteration (bounded)"""
        nx = self.repo.find_member(it.cls, '__next__')[1]
        out = []
        for _ in range(64):
            try:
                v = self.call(nx, [], selfv=it, node=node)
            except PyRaise as pr:
                if pr.exc == 'StopIteration':
                    return out
                raise
            except Raised as rz:
                nd_ = getattr(rz, 'node', None)
                if isinstance(nd_, ast.Raise) and nd_.exc is not None and (chain(nd_.exc.func if isinstance(nd_.exc, ast.Call) else nd_.exc) or '').split('.')[-1] == 'StopIteration':
                    return out
                raise
            if isinstance(v, Unk):
                if 'always raises' in v.why and getattr(v, 'exc', None) == 'StopIteration':
                    return out
                return v
            out.append(v)
        return Unk('an iterator that does not stop within 64 items', node, definite=True)

    def module_value(self, mod, name):
        """value of a module-level name: the module body's simple statements (assignments to names, stores into their items,
        augmented assignments) are interpreted once, in order, so that `TABLE = {}` followed by `TABLE['k'] = v` is the filled table"""
        cache = self.__dict__.setdefault('_modenv', {})
        if mod.name not in cache:
            env = {'__module__': mod}
            cache[mod.name] = env
            for st in mod.tree.body:
                ok = False
                if isinstance(st, ast.Assign) and all(isinstance(t, ast.Name) or (isinstance(t, ast.Subscript) and isinstance(t.value, ast.Name) and t.value.id in env) for t in st.targets):
                    ok = True
                elif isinstance(st, ast.AugAssign) and isinstance(st.target, ast.Name) and st.target.id in env:
                    ok = True
                elif isinstance(st, ast.Expr) and isinstance(st.value, ast.Call) and isinstance(st.value.func, ast.Attribute) and st.value.func.attr in ('append', 'extend', 'update', 'setdefault', 'insert') \
                        and (lambda r_: isinstance(r_, ast.Name) and r_.id in env)(_root_of(st.value.func.value)):
                    # TABLE['k'].append(v) / TABLE.update(...): a module-level container filled statement by statement
                    try:
                        self.stmt(st, env, mod)
                    except Exception:
                        env[_root_of(st.value.func.value).id] = Unk('module-level container filled by an unmodelled call', st)
                    continue
                if ok:
                    try:
                        self.stmt(st, env, mod)
                    except Exception:
                        for t in (st.targets if isinstance(st, ast.Assign) else [st.target]):
                            if isinstance(t, ast.Name):
                                env[t.id] = Unk('module-level value of %s' % t.id, st)
        env = cache[mod.name]
        if name in env:
            return env[name]
        return self.expr(mod.globals[name], {'__module__': mod}, mod)

    def _expr(self, e, env, mod):
        if isinstance(e, ast.Constant):
            return e.value
        if isinstance(e, ast.Name):
            return self._name(e, env, mod)
        if isinstance(e, ast.Tuple):
            return tuple(self.expr(x, env, mod) for x in e.elts)
        if isinstance(e, ast.List):
            return [self.expr(x, env, mod) for x in e.elts]
        if isinstance(e, ast.Dict):
            d = {}
            for k, v in zip(e.keys, e.values):
                kk = self.expr(k, env, mod) if k is not None else None
                if not isinstance(kk, (str, int)) and not (k is not None and isinstance(kk, tuple) and all(isinstance(x_, (str, int, float)) or x_ is None for x_ in kk)):
                    return Unk('dict key', e)
                d[kk] = self.expr(v, env, mod)
            return d
        if isinstance(e, ast.UnaryOp):
            v = self.expr(e.operand, env, mod)
            if isinstance(v, Unk):
                return v
            if isinstance(v, Marker):
                v = self._as_arr(v)
                if isinstance(v, Unk):
                    return v
            if isinstance(e.op, ast.USub):
                if isinstance(v, (int, float)) and not isinstance(v, bool):
                    return -v
                if isinstance(v, Arr):
                    r_ = v.with_(poly=-v.poly)
                    if self.track_xr:
                        r_.xr = ('neg', _xr(v))
                    return r_
            if isinstance(e.op, ast.UAdd):
                return v
            if isinstance(e.op, ast.Invert) and isinstance(v, Arr):
                r_ = v.with_(poly=alg.b_not(v.poly))
                if self.track_xr:
                    r_.xr = ('not', _xr(v))
                return r_
            if isinstance(e.op, ast.Not):
                tv = self._truth(v)
                if tv is not None:
                    return not tv
                if isinstance(v, Arr) and _is_boolean(v.poly):
                    return v.with_(poly=alg.b_not(v.poly))
                if isinstance(v, Arr) and v.ndim == 0 and v.mask is None:
                    return Arr((), alg.mk_ind('==0', v.poly))        # not x  for a number: x == 0
            return Unk('unary %s' % type(e.op).__name__, e)
        if isinstance(e, ast.BinOp):
            return self.binop(e.op, self.expr(e.left, env, mod), self.expr(e.right, env, mod), e)
        if isinstance(e, ast.BoolOp):
            vals = [self.expr(v, env, mod) for v in e.values]
            tvs = [self._truth(v) for v in vals]
            if all(t is not None for t in tvs):
                if isinstance(e.op, ast.And):
                    for v, t in zip(vals, tvs):
                        if not t:
                            return v
                    return vals[-1]
                for v, t in zip(vals, tvs):
                    if t:
                        return v
                return vals[-1]
            if len(vals) == 2 and tvs[0] is None and isinstance(vals[0], Arr) and vals[0].ndim == 0 and vals[0].mask is None and not _is_boolean(vals[0].poly) \
                    and (isinstance(vals[1], Arr) and vals[1].ndim == 0 and vals[1].mask is None or _is_pynum(vals[1]) or isinstance(vals[1], Marker)):
                # `x or default` / `x and other` on a number decided by the data: Python tests x for truth - a value of exactly 0 counts as missing
                a_, b_ = vals[0], self._as_arr(vals[1])
                if isinstance(b_, Arr):
                    zero_ = alg.eq(a_.poly, 0)
                    if isinstance(e.op, ast.Or):
                        return Arr((), a_.poly + zero_ * b_.poly, None, a_.unit if a_.unit == b_.unit else None)          # (x where x is not 0; where it is, [x == 0] * x is 0)
                    return Arr((), alg.b_not(zero_) * b_.poly, None, a_.unit if a_.unit == b_.unit else None)
            if isinstance(e.op, ast.And) and any(t is False for t in tvs):
                return False              # one operand is false whatever the undecided ones are
            if isinstance(e.op, ast.Or) and any(t is True for t in tvs):
                return True
            ps = []
            for v, t in zip(vals, tvs):
                if t is not None:
                    ps.append(Poly.const(1 if t else 0))
                elif isinstance(v, Arr) and all(d_ is None for d_ in v.dims) and v.mask is None and _is_boolean(v.poly):
                    ps.append(v.poly)          # (an array of one element has the truth value of that element)
                else:
                    return Unk('boolean operator on %r' % (v,), e)
            r = ps[0]
            for p in ps[1:]:
                r = alg.b_and(r, p) if isinstance(e.op, ast.And) else alg.b_or(r, p)
            return Arr((), r)
        if isinstance(e, ast.Compare):
            return self.compare(e, env, mod)
        if isinstance(e, ast.IfExp):
            dec = self.hooks.decide(self, e.test, env, mod)
            if dec is None:
                dec = self._truth(self.expr(e.test, env, mod))
            if dec is None:
                tv_ = self.expr(e.test, env, mod)
                if isinstance(tv_, Arr) and tv_.ndim == 0 and tv_.mask is None and _is_boolean(tv_.poly):
                    return merge_val(self.expr(e.body, env, mod), self.expr(e.orelse, env, mod), tv_.poly, e)
                return Unk('conditional expression on a symbolic test', e)
            return self.expr(e.body if dec else e.orelse, env, mod)
        if isinstance(e, ast.Attribute):
            return self.attribute(e, env, mod)
        if isinstance(e, ast.Subscript):
            return self.subscript(e, env, mod)
        if isinstance(e, ast.Call):
            return self.callexpr(e, env, mod)
        if isinstance(e, (ast.ListComp, ast.GeneratorExp, ast.SetComp, ast.DictComp)) and len(e.generators) == 1:
            # comprehension over a concrete sequence (conditions decided concretely): unrolled
            g = e.generators[0]
            itv0 = self.expr(g.iter, env, mod)
            if isinstance(itv0, Obj):
                itv0 = self.iterate_obj(itv0, e)
            gen0 = self._generic_iter(itv0, e)
            if isinstance(gen0, list) and any(isinstance(x_, _Guarded) for x_ in gen0):
                return Unk('comprehension over items yielded under a data-dependent condition', e)
            if isinstance(gen0, list):
                sub = dict(env)
                out, ok_ = [], True
                for v in gen0:
                    self.store(g.target, v, sub, mod)
                    keep_ = True
                    for c_ in g.ifs:
                        t_ = self._truth(self.expr(c_, sub, mod))
                        if t_ is None:
                            ok_ = False
                            break
                        keep_ = keep_ and t_
                    if not ok_:
                        break
                    if keep_:
                        out.append((self.expr(e.key, sub, mod), self.expr(e.value, sub, mod)) if isinstance(e, ast.DictComp) else self.expr(e.elt, sub, mod))
                if ok_:
                    if isinstance(e, ast.DictComp):
                        if all(isinstance(k_, (str, int)) for k_, _ in out):
                            return dict(out)
                        return Unk('dict comprehension with symbolic keys', e)
                    return out
            if not isinstance(e, ast.ListComp) or g.ifs:
                return Unk('comprehension over %s' % up(g.iter)[:50], e)
        if isinstance(e, ast.ListComp) and len(e.generators) == 1 and not e.generators[0].ifs:
            g = e.generators[0]
            itv = self.expr(g.iter, env, mod)
            gen = self._generic_iter(itv, e)
            if isinstance(gen, list) and any(isinstance(x_, _Guarded) for x_ in gen):
                return Unk('comprehension over items yielded under a data-dependent condition', e)
            sub = dict(env)
            if isinstance(gen, list):
                out = []
                for v in gen:
                    self.store(g.target, v, sub, mod)
                    out.append(self.expr(e.elt, sub, mod))
                return out
            if gen is not None:
                self.store(g.target, gen, sub, mod)
                lab = itv.label if isinstance(itv, (GenList, _Range, _Enumerate, _Zip)) else (itv.dims[0] if isinstance(itv, Arr) else None)
                return GenList(lab, self.expr(e.elt, sub, mod))
            return Unk('list comprehension over %s' % up(g.iter)[:50], e)
        if isinstance(e, ast.Set):
            vs_ = [self.expr(x_, env, mod) for x_ in e.elts]
            if all(isinstance(x_, (int, float, str)) and not isinstance(x_, bool) for x_ in vs_):
                return set(vs_)
            return Unk('set display', e)
        if isinstance(e, ast.JoinedStr):
            # an f-string: its literal pieces, with the formatted values kept in order (as '%s' fields of a Fmt when any of them is symbolic)
            fmt_, vals_ = '', []
            for part_ in e.values:
                if isinstance(part_, ast.Constant) and isinstance(part_.value, str):
                    fmt_ += part_.value.replace('%', '%%')
                elif isinstance(part_, ast.FormattedValue) and part_.format_spec is None and part_.conversion == -1:
                    v_ = self.expr(part_.value, env, mod)
                    if isinstance(v_, (str, int, float)) and not isinstance(v_, bool):
                        fmt_ += str(v_).replace('%', '%%')
                    elif isinstance(v_, (Arr, bool, type(None), tuple, Shape)):
                        fmt_ += '%s'
                        vals_.append(v_)
                    else:
                        return Unk('f-string', e)
                else:
                    return Unk('f-string', e)
            return Fmt(fmt_, tuple(vals_)) if vals_ else fmt_.replace('%%', '%')
        if isinstance(e, ast.Slice):
            # a slice met as a value (the key handed to a modelled library object): the same as slice(lo, hi, step)
            return _SliceVal(*[(self.expr(x_, env, mod) if x_ is not None else None) for x_ in (e.lower, e.upper, e.step)])
        if isinstance(e, ast.Lambda):
            # lambda args: expr  is a nested function whose body returns the expression, with the scope it is written in
            from .loader import FuncInfo
            fd_ = ast.FunctionDef(name='<lambda>', args=e.args, body=[ast.copy_location(ast.Return(value=e.body), e)], decorator_list=[], returns=None, type_comment=None)
            ast.copy_location(fd_, e)
            ast.fix_missing_locations(fd_)
            return Closure(FuncInfo(mod, None, fd_), env)
        if isinstance(e, ast.Starred):
            return Unk('starred', e)
        return Unk('expression %s' % type(e).__name__, e)

    # ---- arithmetic
    def binop(self, op, a, b, node):
        r = self._binop(op, a, b, node)
        if self.track_xr and isinstance(r, Arr):
            r.xr = ('bin', type(op).__name__, _xr(a), _xr(b))
        if isinstance(r, Arr) and r.dt is None:
            def real(v):
                return (isinstance(v, Arr) and v.dt == 'f') or (isinstance(v, float) and v != int(v) if isinstance(v, float) and v == v and abs(v) != float('inf') else False)
            if isinstance(op, ast.Div) or real(a) or real(b):
                r.dt = 'f'
            elif isinstance(op, (ast.Add, ast.Sub, ast.Mult, ast.FloorDiv, ast.Mod)) and all((isinstance(v, Arr) and v.dt == 'i') or (isinstance(v, int) and not isinstance(v, bool)) for v in (a, b)):
                r.dt = 'i'          # whole numbers combined with whole numbers
        return r

    def _binop(self, op, a, b, node):
        if isinstance(a, Unk):
            return a
        if isinstance(b, Unk):
            return b
        if _is_pynum(a) and _is_pynum(b):
            try:
                if isinstance(op, ast.Add): return a + b
                if isinstance(op, ast.Sub): return a - b
                if isinstance(op, ast.Mult): return a * b
                if isinstance(op, ast.Div): return Fraction(a) / Fraction(b) if isinstance(a, int) and isinstance(b, int) else a / b
                if isinstance(op, ast.FloorDiv): return a // b
                if isinstance(op, ast.Mod): return a % b
                if isinstance(op, ast.Pow): return a ** b
            except Exception as ex:
                return Unk('constant arithmetic: %s' % ex, node)
        if isinstance(a, str) and isinstance(op, ast.Mod):
            if isinstance(b, (str, int, float)) or (isinstance(b, tuple) and all(isinstance(x_, (str, int, float)) for x_ in b)):
                try:
                    return a % b
                except Exception:
                    pass
            vals_ = b if isinstance(b, tuple) else (b,)
            if all(isinstance(x_, (str, int, float, Arr, bool)) for x_ in vals_):
                return Fmt(a, tuple(vals_))          # a string formatted from symbolic values: the values are kept (a hook that receives it can inspect them)
            return Unk('string formatting (%s)' % ', '.join(repr(x_)[:50] for x_ in vals_), node)
        if isinstance(a, str) and isinstance(b, str) and isinstance(op, ast.Add):
            return a + b
        if isinstance(op, ast.Add) and (isinstance(a, Shape) or isinstance(b, Shape)) and isinstance(a, (Shape, tuple)) and isinstance(b, (Shape, tuple)):
            # (n,) + x.shape: a shape spelled as a tuple of extents
            return ext_(a) + ext_(b)
        if isinstance(op, ast.Add) and (isinstance(a, _SelectVal) or isinstance(b, _SelectVal)) and _is_text(a) and _is_text(b):
            # text joined to one of two pieces of text chosen by a data-dependent condition: joined to each
            if isinstance(a, _SelectVal):
                return _SelectVal(a.cond, self._binop(op, a.a, b, node), self._binop(op, a.b, b, node))
            return _SelectVal(b.cond, self._binop(op, a, b.a, node), self._binop(op, a, b.b, node))
        if isinstance(op, ast.Add) and (isinstance(a, Fmt) or isinstance(b, Fmt)) and isinstance(a, (str, Fmt)) and isinstance(b, (str, Fmt)):
            fa, va = (a.fmt, a.values) if isinstance(a, Fmt) else (a.replace('%', '%%'), ())
            fb, vb = (b.fmt, b.values) if isinstance(b, Fmt) else (b.replace('%', '%%'), ())
            return Fmt(fa + fb, va + vb)
        if isinstance(op, ast.Mult) and (isinstance(a, list) and len(a) == 1 and isinstance(b, Arr) or isinstance(b, list) and len(b) == 1 and isinstance(a, Arr)):
            seq_, k_ = (a, b) if isinstance(a, list) else (b, a)
            lab_ = _len_label(k_.poly) if k_.ndim == 0 else None
            if lab_ is not None and isinstance(seq_[0], (Obj, Foreign)):
                # [obj] * n: a list of n references to ONE object - what is stored through one entry is seen through every entry
                g_ = GenList(lab_, seq_[0])
                g_.shared = True
                return g_
        if isinstance(op, ast.Mult) and (isinstance(a, (tuple, list)) and isinstance(b, int) or isinstance(a, int) and isinstance(b, (tuple, list))) and not isinstance(a, bool) and not isinstance(b, bool):
            seq_, k_ = (a, b) if isinstance(a, (tuple, list)) else (b, a)
            if len(seq_) * max(k_, 0) <= 256:
                return type(seq_)(seq_) * k_          # a sequence repeated: (1,) * 2 is (1, 1)
        if isinstance(op, ast.Add) and isinstance(a, tuple) and isinstance(b, tuple):
            return a + b
        if isinstance(op, ast.Mult) and (isinstance(a, str) and isinstance(b, int) or isinstance(a, int) and isinstance(b, str)) and not isinstance(a, bool) and not isinstance(b, bool):
            return a * b if max(len(a) if isinstance(a, str) else a, len(b) if isinstance(b, str) else b) < 100000 else Unk('string repeated many times', node)
        if isinstance(a, str) or isinstance(b, str):
            return Unk('string arithmetic', node)
        if isinstance(a, list) and isinstance(b, list) and isinstance(op, ast.Add):
            return a + b
        if isinstance(op, ast.Mult) and (isinstance(a, list) and isinstance(b, int) or isinstance(a, int) and isinstance(b, list)) and not isinstance(a, bool) and not isinstance(b, bool):
            return a * b if (b if isinstance(b, int) else a) <= 64 else Unk('list repeated many times', node)
        if isinstance(a, tuple) and isinstance(b, tuple) and isinstance(op, ast.Add):
            return a + b
        if isinstance(a, (list, tuple)) and isinstance(b, (Marker, Arr)) and isinstance(op, ast.Mult):
            a = self._list_to_arr(a)
        if isinstance(b, (list, tuple)) and isinstance(a, (Marker, Arr)) and isinstance(op, ast.Mult):
            b = self._list_to_arr(b)
        a, b = self._as_arr(a), self._as_arr(b)
        if isinstance(a, Unk):
            return a
        if isinstance(b, Unk):
            return b
        a, b = _align_primed(a, b)
        a, b = self._align_positional(a, b)
        if isinstance(op, (ast.BitAnd, ast.BitOr)):
            d = bdims(a.dims, b.dims)
            p = alg.b_and(a.poly, b.poly) if isinstance(op, ast.BitAnd) else alg.b_or(a.poly, b.poly)
            return Arr(d, p, _merge_mask(a, b))
        d = bdims(a.dims, b.dims)
        mk = _merge_mask(a, b)
        if isinstance(mk, Unk):
            return mk
        if isinstance(mk, Poly) and mk.is_zero() and isinstance(op, (ast.Div, ast.Pow, ast.FloorDiv, ast.Mod)) and (b.poly.is_zero() if not isinstance(op, ast.Pow) else a.poly.is_zero()):
            return Arr(d, Poly(), mk)          # a selection that selects nothing: there is no element to divide
        if isinstance(op, ast.Add):
            return Arr(d, a.poly + b.poly, mk, a.unit if a.unit is not None else b.unit)
        if isinstance(op, ast.Sub):
            return Arr(d, a.poly - b.poly, mk, a.unit if a.unit is not None else b.unit)
        if isinstance(op, ast.Mult):
            for x_, y_ in ((a, b), (b, a)):
                if _is_boolean(x_.poly) and not x_.poly.is_const() and x_.ndim >= 1 and not _is_boolean(y_.poly) and _may_be_infinite(y_.poly):
                    # a truth value used as a 0/1 factor of a term that can be infinite: over IEEE doubles 0 * inf is NaN, not 0 (a masked store selects; a product does not)
                    self.findings.append(Finding('zero-times-inf', 'a truth value (%s) multiplies %s, which is infinite where the logarithm\'s argument vanishes: there False * inf is NaN, not 0'
                                                 % (alg.show(x_.poly, 60), alg.show(y_.poly, 60)), node, (self.stack[-1].split(':')[0].replace('.', '/') + '.py') if self.stack else '?'))
            return Arr(d, a.poly * b.poly, mk, _umul(a.unit, b.unit))
        if isinstance(op, ast.Div):
            if _is_boolean(a.poly) and not a.poly.is_const() and a.ndim >= 1 and not _is_boolean(b.poly) and _may_vanish(b.poly):
                # a truth value used as a 0/1 numerator over something that can be zero: over IEEE doubles 0 / 0 is NaN, not 0
                self.findings.append(Finding('zero-times-inf', 'a truth value (%s) is divided by %s, which can be zero: there False / 0 is NaN, not 0'
                                             % (alg.show(a.poly, 60), alg.show(b.poly, 60)), node, (self.stack[-1].split(':')[0].replace('.', '/') + '.py') if self.stack else '?'))
            return Arr(d, a.poly * b.poly.pow(-1), mk, _umul(a.unit, _upow(b.unit, -1)))
        if isinstance(op, ast.Pow):
            if b.poly.is_const() and b.ndim == 0:
                ex = b.poly.const_value()
                return Arr(d, a.poly.pow(ex), mk, _upow(a.unit, ex))
            if a.poly.is_const() and a.poly.const_value() == 10:
                return Arr(d, alg.mk_fn('exp10', P(b.poly)), mk, None if a.unit is None else num(1))
            return Arr(d, alg.mk_fn('power', P(a.poly), P(b.poly)), mk)
        if isinstance(op, ast.FloorDiv):
            return Arr(d, alg.mk_fn('floor', P(a.poly * b.poly.pow(-1))), mk)
        return Unk('operator %s' % type(op).__name__, node)

    def _concat_slices(self, parts, fname):
        """np.concatenate / hstack / vstack of consecutive pieces x[a:b], x[b:c], ... of one array (fixed bounds, an axis of known length) along the
        first axis: the piece x[a:c], which is x itself when the pieces cover the axis.  None when the parts are not of that form."""
        if fname == 'hstack' and any(x.ndim != 1 for x in parts):
            return None
        if fname == 'vstack' and any(x.ndim < 2 for x in parts):
            return None
        base, lab, rest, spans = None, None, None, []
        for x in parts:
            if x.mask is not None:
                return None
            d0 = x.dims[0]
            if d0 is not None and d0 in self.axis_len and base is not None and d0 == lab and x.poly.key() == base and tuple(x.dims[1:]) == rest:
                spans.append((0, self.axis_len[d0]))            # the whole array as a part
                continue
            if not x.poly.is_monomial():
                if base is None and d0 in self.axis_len:
                    base, lab, rest = x.poly.key(), d0, tuple(x.dims[1:])
                    spans.append((0, self.axis_len[d0]))
                    continue
                return None
            (m_, c_), = x.poly.t.items()
            a = m_[0][0] if len(m_) == 1 and m_[0][1] == 1 and c_ == 1 else None
            if a is not None and a[0] == 'fn' and a[1] == 'slice' and len(a) == 7 and a[2] == ('L', d0) and a[3][0] == 'B' and a[3][1] in self.axis_len \
                    and a[6] == ('C', None) and all(b == ('C', None) or (b[0] == 'P' and Poly.from_key(b[1]).is_const() and Poly.from_key(b[1]).const_value().denominator == 1) for b in a[4:6]):
                lo, hi = [None if b == ('C', None) else int(Poly.from_key(b[1]).const_value()) for b in a[4:6]]
                st_, en_, _ = slice(lo, hi).indices(self.axis_len[a[3][1]])
                if base is None:
                    base, lab, rest = a[3][2], a[3][1], tuple(x.dims[1:])
                elif (a[3][2], a[3][1], tuple(x.dims[1:])) != (base, lab, rest):
                    return None
                if en_ > st_:
                    spans.append((st_, en_))
                continue
            if base is None and d0 in self.axis_len:
                base, lab, rest = x.poly.key(), d0, tuple(x.dims[1:])
                spans.append((0, self.axis_len[d0]))
                continue
            return None
        if base is None:
            return None
        if not spans:
            spans = [(0, 0)]
        for (a0, a1), (b0, b1) in zip(spans, spans[1:]):
            if a1 != b0:
                return None
        st_, en_ = spans[0][0], spans[-1][1]
        ref = parts[0]
        whole = Arr((lab,) + rest, Poly.from_key(base), unit=ref.unit, dt=ref.dt)
        if (st_, en_) == (0, self.axis_len[lab]):
            return whole
        newlab = '%s[%s:%s]' % (lab, '' if st_ == 0 else st_, en_)
        self.axis_len[newlab] = en_ - st_
        return Arr((newlab,) + rest, alg.array_fn('slice', lab, whole.poly, C(None) if st_ == 0 else P(num(st_)), P(num(en_)), C(None), out=newlab), unit=ref.unit, dt=ref.dt)

    def path_cond_local(self):
        return None

    def _store_positions(self, old, positions, val, t, mod, cond=None):
        """the 1-d array ``old`` (axis of known length) after ``old[positions] = val``, position by position; None when the value does not fit"""
        lab = old.dims[0]
        n = self.axis_len[lab]
        v = val
        if isinstance(v, (int, float, Fraction)) and not isinstance(v, bool):
            v = self._as_arr(v)
        if isinstance(v, Foreign) and hasattr(v, 'as_value'):
            v = self._as_arr(v)
        if not isinstance(v, Arr) or v.mask is not None or v.ndim > 1:
            return None
        if v.ndim == 1:
            vl = v.dims[0]
            ln = 1 if vl is None else self.axis_len.get(vl)
            if ln is None:
                return None
            if ln != len(positions) and ln != 1:
                raise PyRaise('ValueError', 'could not broadcast %d values into %d positions' % (ln, len(positions)))
            vals = [v.poly if vl is None else alg.index_at(v.poly, vl, num(k_ if ln > 1 else 0)) for k_ in range(len(positions))]
        else:
            vals = [v.poly] * len(positions)
        elems = [alg.index_at(old.poly, lab, num(j_)) for j_ in range(n)]
        for pos_, vp_ in zip(positions, vals):
            elems[pos_] = vp_
        if positions:
            self._dtype_finding(old, v, t, t, mod)
        run = alg.sym('idx:' + lab, lab)
        p = Poly()
        for j_, e_ in enumerate(elems):
            p = p + alg.mk_ind('==0', run - num(j_)) * e_
        r_ = Arr(old.dims, p, None, old.unit, dt=old.dt)
        r_.conv = old.conv
        r_.dt_src = old.dt_src
        return r_

    def _dtype_finding(self, old, v, node, t, mod):
        src = old.dt_src or ()
        other = v.dt in (None, 'inherit') and old.dt == 'inherit' and src and not v.poly.is_const() \
            and not ({str(x_).split('@')[0] for x_ in alg.leaf_syms(v.poly)[0]} <= set(src)) and not (v.dt == 'inherit' and v.dt_src and set(v.dt_src) <= set(src))
        if old.dt in ('inherit', 'i') and (v.dt == 'f' or other):
            self.findings.append(Finding('dtype', 'a %s is stored into %s, %s: the values are truncated to integers%s'
                                         % ('real-valued result' if v.dt == 'f' else 'value of another array (%s)' % ', '.join(sorted({str(x_) for x_ in alg.leaf_syms(v.poly)[0]})[:3]),
                                            up(node), 'a buffer created with the element type of a caller-supplied array' + (' (%s)' % ', '.join(src) if src else '') if old.dt == 'inherit' else 'an integer buffer',
                                            ' whenever the caller supplies integers there' if old.dt == 'inherit' else ''), t, mod.path))

    def _concrete_elems(self, x):
        """the elements of a 1-d array over a position-counting axis of known length (None for any other value)"""
        if isinstance(x, Arr) and x.ndim == 1 and x.mask is None and self._positional(x.dims[0]) and self.axis_len[x.dims[0]] <= 64 and str(x.dims[0]).startswith('pos#'):
            return [alg.index_at(x.poly, x.dims[0], num(j_)) for j_ in range(self.axis_len[x.dims[0]])]
        return None

    def _from_elems(self, like, elems):
        lab = like.dims[0]
        run = alg.sym('idx:' + lab, lab)
        p = Poly()
        for j_, e_ in enumerate(elems):
            p = p + alg.mk_ind('==0', run - num(j_)) * e_
        return Arr((lab,), p, None, like.unit, dt=like.dt)

    def _positional(self, lab):
        """an axis that only counts positions (a list made into an array, a fixed slice of one, concrete repeats), of known length: two such axes of the same
        length line up position by position, as numpy lines them up"""
        return isinstance(lab, str) and lab in self.axis_len and (lab.startswith('pos#') or lab.startswith('rep#') or '[' in lab)

    def _relabel_axis(self, x, old, new):
        return x.with_(dims=tuple(new if d_ == old else d_ for d_ in x.dims), poly=alg.rename_labels(x.poly, {old: new}), mask=None if x.mask is None else alg.rename_labels(x.mask, {old: new}))

    def _align_positional(self, a, b):
        if not (isinstance(a, Arr) and isinstance(b, Arr)) or not a.dims or not b.dims:
            return a, b
        for k_ in range(1, min(len(a.dims), len(b.dims)) + 1):
            x, y = a.dims[-k_], b.dims[-k_]
            if x and y and x != y and self._positional(x) and self._positional(y) and self.axis_len[x] == self.axis_len[y] and x not in b.dims and y not in a.dims:
                b = self._relabel_axis(b, y, x)
        return a, b

    def _reshape_concrete(self, x, shape, node):
        """x.reshape(shape) for a 1-D array of known length and concrete extents: out[i, j, ...] is x[((i * n1) + j) * n2 + ...] (row-major); the
        extents have to multiply to len(x) (one of them may be -1), else numpy raises ValueError"""
        if isinstance(x, Arr) and x.ndim >= 2 and x.mask is None and all(d_ is None or d_ in self.axis_len for d_ in x.dims):
            # several axes of known length: the elements in row-major order, then as for a 1-d array
            import itertools as _it
            ext_ = [1 if d_ is None else self.axis_len[d_] for d_ in x.dims]
            tot_ = 1
            for v_ in ext_:
                tot_ *= v_
            if tot_ > 256:
                return None
            el_ = []
            for ix_ in _it.product(*[range(v_) for v_ in ext_]):
                p_ = x.poly
                for d_, i_ in zip(x.dims, ix_):
                    if d_ is not None:
                        p_ = alg.index_at(p_, d_, num(i_))
                el_.append(p_)
            self._n_lists = getattr(self, '_n_lists', 0) + 1
            lab_ = 'pos#%d' % self._n_lists
            self.axis_len[lab_] = tot_
            run_ = alg.sym('idx:' + lab_, lab_)
            fp_ = Poly()
            for j_, e_ in enumerate(el_):
                fp_ = fp_ + alg.mk_ind('==0', run_ - num(j_)) * e_
            x = Arr((lab_,), fp_, unit=x.unit, dt=x.dt)
        if isinstance(x, Arr) and x.ndim == 1 and x.dims[0] is None and x.mask is None:
            # an array of one element: an axis of one position
            self._n_lists = getattr(self, '_n_lists', 0) + 1
            lab_ = 'pos#%d' % self._n_lists
            self.axis_len[lab_] = 1
            x = x.with_(dims=(lab_,))
        if not (isinstance(x, Arr) and x.ndim == 1 and x.dims[0] is not None and x.mask is None):
            return None
        n = self.axis_len.get(x.dims[0])
        sh = []
        for v in shape:
            a = self._as_arr(v) if not isinstance(v, int) else None
            if isinstance(v, bool):
                return None
            if isinstance(v, int):
                sh.append(v)
            elif isinstance(a, Arr) and a.ndim == 0 and a.poly.is_const() and a.poly.const_value().denominator == 1:
                sh.append(int(a.poly.const_value()))
            else:
                return None
        if n is None or n > 64 or not sh or len(sh) > 3 or sum(1 for v in sh if v == -1) > 1 or any(v < -1 for v in sh):
            return None
        known = 1
        for v in sh:
            if v != -1:
                known *= v
        if -1 in sh:
            if known == 0 or n % known:
                raise PyRaise('ValueError', 'cannot reshape array of size %d into shape %r' % (n, tuple(sh)))
            sh[sh.index(-1)] = n // known
        elif known != n:
            raise PyRaise('ValueError', 'cannot reshape array of size %d into shape %r' % (n, tuple(sh)))
        if len(sh) == 1:
            return x
        elems = [alg.index_at(x.poly, x.dims[0], num(k)) for k in range(n)]
        labs = []
        for ext in sh:
            if ext == 1:
                labs.append(None)
                continue
            self._n_lists = getattr(self, '_n_lists', 0) + 1
            lab = 'pos#%d' % self._n_lists
            self.axis_len[lab] = ext
            labs.append(lab)
        import itertools as _it
        p = Poly()
        for k, ix in enumerate(_it.product(*[range(ext) for ext in sh])):
            t = elems[k]
            for lab, i_ in zip(labs, ix):
                if lab is not None:
                    t = t * alg.mk_ind('==0', alg.sym('idx:' + lab, lab) - num(i_))
            p = p + t
        return Arr(tuple(labs), p, unit=x.unit, dt=x.dt)

    def _list_to_arr(self, lst):
        vals = [self._as_arr(x) for x in lst]
        if len(vals) == 1 and isinstance(vals[0], Arr) and vals[0].ndim == 0:
            return Arr((None,), vals[0].poly, unit=vals[0].unit, dt='i' if isinstance(lst[0], int) and not isinstance(lst[0], bool) else vals[0].dt)
        if len(vals) <= 64 and all(isinstance(v, Arr) and v.ndim == 0 and v.mask is None for v in vals) and len({repr(v.unit) for v in vals}) <= 1:
            # a list of scalars made into an array: a fresh axis of that many positions, element k being the k-th scalar
            self._n_lists = getattr(self, '_n_lists', 0) + 1
            lab = 'pos#%d' % self._n_lists
            self.axis_len[lab] = len(vals)
            run = alg.sym('idx:' + lab, lab)
            p = Poly()
            for k_, v in enumerate(vals):
                p = p + alg.mk_ind('==0', run - num(k_)) * v.poly
            return Arr((lab,), p, unit=vals[0].unit if vals else num(1), dt='i' if lst and all(isinstance(x, int) and not isinstance(x, bool) for x in lst) else None)
        return Unk('list literal as array')

    def _as_arr(self, v):
        if isinstance(v, Arr):
            return v
        if isinstance(v, Foreign) and hasattr(v, 'as_value'):
            return self._as_arr(v.as_value())          # a table column used as an array
        if isinstance(v, bool):
            return Arr((), num(1 if v else 0))
        if isinstance(v, (int, float, Fraction)):
            try:
                return Arr((), num(v), unit=num(1))
            except ValueError:
                if v == float('inf'):
                    return Arr((), alg.sym('INF'))
                if v == float('-inf'):
                    return Arr((), -alg.sym('INF'))
                return Arr((), alg.sym('NAN'))          # not-a-number as a value handed on: a symbol that equals nothing else (arithmetic with it is not modelled)
        if isinstance(v, Marker):
            last = v.name.split('.')[-1]
            if v.name.startswith('astropy.units') and last in UNIT_ATOMS:
                ua = unit_atom(last)
                return Arr((), ua, unit=ua)
            if v.name.startswith('astropy.units') and last in ('dimensionless_unscaled', 'one'):
                return Arr((), num(1), unit=num(1))
            if v.name in ('numpy.inf', 'numpy.Inf', 'numpy.infty'):
                return Arr((), alg.sym('INF'))
            if v.name in ('numpy.pi',):
                return Arr((), alg.sym('PI'))
            if v.name in ('numpy.nan', 'numpy.NaN', 'numpy.NAN', 'math.nan'):
                return Arr((), alg.sym('NAN'))
            return Unk('external value %s' % v.name)
        if isinstance(v, Pinned):
            return Arr((), alg.sym('idx:' + str(v.label), v.label))
        if isinstance(v, Unk):
            return v
        if isinstance(v, (list, tuple)) and len(v) == 1:
            return self._list_to_arr(v)
        return Unk('not an array value: %r' % (v,))

    def compare(self, e, env, mod):
        if len(e.ops) != 1:
            # a op1 b op2 c  is  (a op1 b) and (b op2 c): Python chains comparisons, whatever the spacing suggests
            parts_ = []
            operands_ = [e.left] + list(e.comparators)
            for k_, op_ in enumerate(e.ops):
                parts_.append(ast.copy_location(ast.Compare(left=operands_[k_], ops=[op_], comparators=[operands_[k_ + 1]]), e))
            return self.expr(ast.copy_location(ast.BoolOp(op=ast.And(), values=parts_), e), env, mod)
        a, b = self.expr(e.left, env, mod), self.expr(e.comparators[0], env, mod)
        if isinstance(a, str) != isinstance(b, str) and type(e.ops[0]) in (ast.Eq, ast.NotEq) and all(isinstance(x_, (str, Arr, bool, int, float)) for x_ in (a, b)):
            return type(e.ops[0]) is ast.NotEq          # a string is never equal to a number or a truth value
        opn = type(e.ops[0])
        if opn in (ast.Is, ast.IsNot):
            if isinstance(a, Unk) or isinstance(b, Unk):
                return a if isinstance(a, Unk) else b
            same = (a is b) or (a is None and b is None)
            if (a is None) != (b is None):
                same = False
            return same if opn is ast.Is else not same
        if opn in (ast.In, ast.NotIn) and isinstance(b, Foreign):
            r = b.sl_contains(self, a)
            if r is NotImplemented or r is None:
                return Unk('membership test on %s' % type(b).__name__, e)
            return r if opn is ast.In else not r
        if opn in (ast.In, ast.NotIn):
            if isinstance(b, (list, tuple, dict, str)) and isinstance(a, (str, int, float, bool, type(None), Foreign)):
                try:
                    r = a in b
                except TypeError as ex_:
                    raise PyRaise('TypeError', str(ex_))
                return r if opn is ast.In else not r
            if isinstance(a, (Marker, ClassRef)) and isinstance(b, (list, tuple)) and all(isinstance(x_, (Marker, ClassRef)) for x_ in b):
                # type(x) in [list, tuple]: names of types compared by identity
                key_ = lambda v_: ('m', v_.name) if isinstance(v_, Marker) else ('c', id(v_.ci))
                r = key_(a) in [key_(x_) for x_ in b]
                return r if opn is ast.In else not r
            return Unk('membership test', e)
        if isinstance(a, Unk):
            return a
        if isinstance(b, Unk):
            return b
        if isinstance(a, Obj) and isinstance(b, Obj) and opn in (ast.Eq, ast.NotEq) and a.cls is not None:
            m_eq = self.repo.find_member(a.cls, '__eq__')
            m_ne = self.repo.find_member(a.cls, '__ne__')
            if opn is ast.NotEq and m_ne is not None and m_ne[0] == 'method':
                return self.call(m_ne[1], [b], selfv=a, node=e)
            if m_eq is not None and m_eq[0] == 'method':
                r_ = self.call(m_eq[1], [b], selfv=a, node=e)
                if opn is ast.Eq:
                    return r_
                t_ = self._truth(r_)
                if t_ is not None:
                    return not t_
                if isinstance(r_, Arr) and r_.ndim == 0 and _is_boolean(r_.poly):
                    return r_.with_(poly=alg.b_not(r_.poly))
                return Unk('!= through __eq__ of %s' % a.cls.name, e)
            return (a is b) if opn is ast.Eq else (a is not b)
        if (a is None or b is None) and opn in (ast.Eq, ast.NotEq) and not (isinstance(a, Obj) or isinstance(b, Obj)):
            same_ = a is None and b is None       # None == <array / number / string> is False
            return same_ if opn is ast.Eq else not same_
        if _is_pyconst(a) and _is_pyconst(b):
            try:
                return {ast.Eq: a == b, ast.NotEq: a != b, ast.Lt: a < b, ast.Gt: a > b, ast.LtE: a <= b, ast.GtE: a >= b}[opn]
            except TypeError:
                return Unk('comparison of constants', e)
        if isinstance(a, Shape) and isinstance(b, Shape) and opn in (ast.Eq, ast.NotEq):
            # two shapes are equal when they have as many axes and the axes are as long
            if len(a.dims) != len(b.dims):
                return opn is ast.NotEq
            p_ = Poly.const(1)
            for da_, db_ in zip(a.dims, b.dims):
                if da_ != db_:
                    if da_ is None or db_ is None:
                        return Unk('shape comparison', e)
                    p_ = p_ * alg.mk_ind('==0', alg.count(da_) - alg.count(db_))
            if p_.is_const():
                return (p_.const_value() == 1) == (opn is ast.Eq)
            return Arr((), p_ if opn is ast.Eq else alg.b_not(p_))
        if isinstance(a, (Shape, tuple)) or isinstance(b, (Shape, tuple)):
            return Unk('shape comparison', e)
        if isinstance(a, str) or isinstance(b, str):
            return Unk('string comparison with a symbolic value', e)
        a, b = self._as_arr(a), self._as_arr(b)
        if isinstance(a, Unk):
            return a
        if isinstance(b, Unk):
            return b
        self._unit_kind_check(a, b, e, mod, 'comparison')
        a, b = _align_primed(a, b)
        a, b = self._align_positional(a, b)
        d = bdims(a.dims, b.dims)
        mk = _merge_mask(a, b)
        if isinstance(mk, Unk):
            return mk
        diff = a.poly - b.poly
        if opn is ast.Eq:
            p = alg.mk_ind('==0', diff)
        elif opn is ast.NotEq:
            p = alg.b_not(alg.mk_ind('==0', diff))
        elif opn is ast.Lt:
            p = alg.mk_ind('<0', diff)
        elif opn is ast.Gt:
            p = alg.mk_ind('<0', -diff)
        elif opn is ast.LtE:
            p = _le(diff) if not self.exact_le else alg.b_not(alg.mk_ind('<0', -diff))
        elif opn is ast.GtE:
            p = _le(-diff) if not self.exact_le else alg.b_not(alg.mk_ind('<0', diff))
        else:
            return Unk('comparison operator', e)
        r_ = Arr(d, p, mk)
        if self.track_xr:
            r_.xr = ('cmp', opn.__name__, _xr(a), _xr(b))
        return r_

    def _unit_kind_check(self, a, b, node, mod, what):
        """A bare number meets a dimensional quantity: astropy raises UnitConversionError."""
        ua, ub = a.unit, b.unit
        if ua is None or ub is None:
            return
        bare_a, bare_b = ua == num(1), ub == num(1)
        if bare_a != bare_b:
            zero = (a.poly.is_zero() if bare_a else b.poly.is_zero())
            inf = any(at[0] == 'sym' and at[1] == 'INF' for at in (a.poly.atoms() if bare_a else b.poly.atoms()))
            if not zero and not inf:
                self.findings.append(Finding('unit-kind', '%s between a bare number and a quantity with unit %s: %s'
                                             % (what, alg.show(ub if bare_a else ua), up(node)[:120]), node, mod.path))

    # ---- attribute access
    def attribute(self, e, env, mod):
        v = self.expr(e.value, env, mod)
        name = e.attr
        if isinstance(v, Unk):
            return v
        if isinstance(v, Obj):
            return self.getattr(v, name, e, mod)
        if isinstance(v, Foreign):
            r = v.sl_getattr(self, name, e)
            return BoundExt(v, name) if r is NotImplemented else r
        if isinstance(v, ModRef):
            r = self.repo.resolve_name(v.mod, name)
            if r is not None:
                return self._wrap_resolved(r)
            if name in v.mod.globals:
                return self.expr(v.mod.globals[name], {'__module__': v.mod}, v.mod)
            return Unk('module attribute %s.%s' % (v.mod.name, name), e)
        if isinstance(v, ClassRef):
            m = self.repo.find_member(v.ci, name)
            if m is not None and m[0] == 'method':
                if 'classmethod' in m[1].decorators:
                    return Bound(m[1], v)
                return FuncRef(m[1])
            cv_ = self.class_attr(v.ci, name)
            if cv_ is not _MISSING:
                return cv_
            if name == '__new__':
                # cls.__new__(cls): a bare instance, no __init__ run
                def _new(c_=None, *a_, **k_):
                    o_ = Obj(c_.ci if isinstance(c_, ClassRef) else v.ci, {})
                    o_.strict = True
                    return o_
                return _new
            if name == '__name__':
                return v.ci.name
            return Unk('class attribute %s.%s' % (v.ci.name, name), e)
        if isinstance(v, Marker):
            if v.name in ('numpy', 'np') and name == 'newaxis':
                return None
            return Marker(v.name + '.' + name)
        if isinstance(v, Arr):
            if name == 'ndim':
                return v.ndim
            if name == 'shape':
                return Shape(v.dims)
            if name == 'size' and v.ndim == 1:
                return Arr((), alg.count(v.dims[0]), unit=num(1))
            if name == 'value':
                if v.unit is not None:
                    return v.with_(poly=v.poly * v.unit.pow(-1), unit=num(1))
                return v.with_(poly=alg.mk_fn('value', P(v.poly)), unit=num(1))
            if name == 'unit':
                if v.unit is not None:
                    return Arr((), v.unit, unit=v.unit)
                return Arr((), alg.mk_fn('unit', P(_strip_labels(v.poly))))
            if name == 'T' and v.ndim == 2:
                return v.with_(dims=(v.dims[1], v.dims[0]))
            if name == 'dtype':
                return _DtypeOf(v)
            if name in ('data',):
                return v
            if name == 'physical_type':
                return Unk('physical_type', e)
            return BoundExt(v, name)
        if isinstance(v, SymTable):
            if name == 'dtype':
                return Obj(None, {'names': v.names()})
            if name == 'columns':
                return _Cols(v.names())          # the ordered mapping name -> column: iterates, measures and tests membership as the list of names
            if name == 'colnames':
                return v.names()
            return BoundExt(v, name)
        if isinstance(v, Shape):
            return Unk('shape attribute', e)
        if isinstance(v, _Interp1d):
            if name in ('x', 'y'):
                if ('assume_sorted', 'True') in v.opts:
                    return getattr(v, name)
                # interp1d keeps the table sorted by its abscissa
                lab_ = v.x.dims[0]
                srt_ = alg.array_fn('argsort', lab_, v.x.poly)
                t_ = getattr(v, name)
                return t_.with_(poly=alg.index_at(t_.poly, lab_, srt_))
            return Unk('attribute %s of an interp1d object' % name, e)
        if isinstance(v, _WhereIdx) and name == 'size' and isinstance(v.mask, Arr) and v.mask.ndim == 1 and v.mask.mask is None:
            return Arr((), alg.sum_over(v.mask.poly, v.mask.dims[0]), unit=num(1))          # as many positions as the mask holds at
        if isinstance(v, (GenList, _Repeat, _WhereIdx)):
            return BoundExt(v, name)
        if isinstance(v, (list, dict, str, tuple, bytes, _ArrSelect)):
            return BoundExt(v, name)
        if isinstance(v, (Bound, FuncRef)):
            return Unk('function attribute', e)
        if isinstance(v, Pinned):
            return Unk('attribute of loop index', e)
        return Unk('attribute %s of %r' % (name, v), e)

    # ---- subscripts (reads)
    def subscript(self, e, env, mod):
        v = self.expr(e.value, env, mod)
        if isinstance(v, Unk):
            return v
        if v is None:
            raise PyRaise('TypeError', "'NoneType' object is not subscriptable (%s)" % up(e)[:60])
        if isinstance(v, _ArrSelect):
            outs_ = []
            for alt_ in (v.a, v.b):
                env2_ = dict(env)
                env2_['__alt__'] = alt_
                outs_.append(self.subscript(ast.copy_location(ast.Subscript(value=ast.Name(id='__alt__', ctx=ast.Load()), slice=e.slice, ctx=ast.Load()), e), env2_, mod))
            return merge_val(outs_[0], outs_[1], v.cond, e)
        for el_ in (e.slice.elts if isinstance(e.slice, ast.Tuple) else [e.slice]):
            if isinstance(el_, ast.Name) and isinstance(env.get(el_.id), _SelectVal) and _is_index_alt(env[el_.id]):
                # x[..., s] with s one of two slices chosen by a data-dependent condition: the subscript is taken with each and the results merged
                sv_, outs_ = env[el_.id], []
                for alt_ in (sv_.a, sv_.b):
                    env2_ = dict(env)
                    env2_[el_.id] = alt_
                    outs_.append(self.subscript(e, env2_, mod))
                return merge_val(outs_[0], outs_[1], sv_.cond, e)
        if isinstance(v, Foreign):
            k = tuple(self.expr(x, env, mod) for x in e.slice.elts) if isinstance(e.slice, ast.Tuple) else (_SliceVal(*[self.expr(x, env, mod) if x is not None else None for x in (e.slice.lower, e.slice.upper, e.slice.step)]) if isinstance(e.slice, ast.Slice) else self.expr(e.slice, env, mod))
            r = v.sl_getitem(self, k, e)
            return Unk('item %r of %s' % (k, type(v).__name__), e) if r is NotImplemented else r
        if isinstance(v, (tuple, list)):
            if isinstance(e.slice, ast.Slice):
                lo = self.expr(e.slice.lower, env, mod) if e.slice.lower else None
                hi = self.expr(e.slice.upper, env, mod) if e.slice.upper else None
                stp = self.expr(e.slice.step, env, mod) if e.slice.step else None
                lo, hi, stp = [(int(x.poly.const_value()) if isinstance(x, Arr) and x.ndim == 0 and x.mask is None and x.poly.is_const() and x.poly.const_value().denominator == 1
                                else int(x) if isinstance(x, Fraction) and x.denominator == 1 else x) for x in (lo, hi, stp)]          # (a whole number held as a numpy scalar)
                if all(x is None or isinstance(x, int) for x in (lo, hi, stp)):
                    return v[lo:hi:stp]
                return Unk('list slice with symbolic bounds', e)
            k = self.expr(e.slice, env, mod)
            if isinstance(k, int) and -len(v) <= k < len(v):
                return v[k]
            if isinstance(k, int) and not isinstance(k, bool):
                raise PyRaise('IndexError', 'list index %d out of range for a list of %d' % (k, len(v)))
            if isinstance(k, Arr) and k.ndim == 0 and k.mask is None and _is_boolean(k.poly) and len(v) == 2:
                return merge_val(v[1], v[0], k.poly, e)          # seq[flag] for a flag decided by the data: the second item where it holds, the first where not
            return Unk('list index %r' % (k,), e)
        if isinstance(v, dict):
            k = self.expr(e.slice, env, mod)
            if isinstance(k, (str, int)) and k in v:
                return v[k]
            if isinstance(k, tuple) and all(isinstance(x_, (str, int, float)) or x_ is None or (isinstance(x_, Arr) and x_.ndim == 0 and x_.mask is None and _is_boolean(x_.poly)) for x_ in k):
                # a key made of several parts, some of them flags decided by the data: the entry for each way the flags can fall, chosen by the flags
                def pick_(done, rest):
                    if not rest:
                        if tuple(done) in v:
                            return v[tuple(done)]
                        raise PyRaise('KeyError', repr(tuple(done)))
                    if isinstance(rest[0], Arr):
                        if rest[0].poly.is_const():
                            return pick_(done + [bool(rest[0].poly.const_value())], rest[1:])
                        return merge_val(pick_(done + [True], rest[1:]), pick_(done + [False], rest[1:]), rest[0].poly, e)
                    return pick_(done + [rest[0]], rest[1:])
                if all(isinstance(x_, tuple) or isinstance(x_, (str, int)) for x_ in v):
                    return pick_([], list(k))
            if isinstance(k, Arr) and k.ndim == 0 and k.mask is None and _is_boolean(k.poly) and True in v and False in v:
                return _Select(k.poly, v[True], v[False])         # d[flag] for a flag decided by the data
            if isinstance(k, (str, int, type(None), Foreign)) and all(isinstance(x, (str, int)) for x in v):
                raise PyRaise('KeyError', repr(k))        # a concrete key (or an object that is no string) that the literal dict does not hold
            if isinstance(k, Arr) and k.ndim == 0 and k.mask is None:
                # a dictionary keyed by values (a memo keyed by a unit): a hit when a key is the very same value, a miss when the dictionary is empty
                hit_ = [x for x in v if isinstance(x, Arr) and x.ndim == 0 and x.mask is None and x.poly == k.poly]
                if hit_:
                    return v[hit_[0]]
                if not v:
                    raise PyRaise('KeyError', up(e.slice)[:40])
            return Unk('dict key %r' % (k,), e)
        if isinstance(v, GenList):
            k = self.expr(e.slice, env, mod)
            if isinstance(k, Pinned):
                if v.label is not None and k.label != v.label:
                    self.findings.append(Finding('label-clash', 'list over %r indexed by a loop over %r: %s' % (v.label, k.label, up(e)), e, mod.path))
                    return Unk('label clash', e, definite=True)
                return v.elem
            if isinstance(k, int) and not isinstance(k, bool):
                if v.label is not None:
                    self.positional.append((v.label, k, mod.path, e.lineno))
                    return _element_at(v.elem, v.label, k)
                return v.elem
            return Unk('generic list index', e)
        if isinstance(v, SymTable):
            k = self.expr(e.slice, env, mod)
            if isinstance(k, str):
                return v.cols.get(k, Unk('table has no column %r' % k, e))
            if isinstance(k, _WhereIdx):
                k = k.mask              # the rows at the positions where a mask holds: the rows the mask selects
            if isinstance(k, Arr) and k.ndim == 1 and k.dims == (v.label,) and _is_boolean(k.poly):
                new = v.label + "'"
                return SymTable({c: Arr((new,) + tuple(a.dims[1:]), alg.mk_fn('compress', L(new), B(v.label, a.poly), B(v.label, k.poly)), unit=a.unit) for c, a in v.cols.items()}, new)
            if isinstance(k, Arr) and k.ndim == 1 and not _is_boolean(k.poly):
                return SymTable({c: Arr(k.dims + tuple(a.dims[1:]), alg.mk_fn('at', B(v.label, a.poly), P(k.poly)), unit=a.unit) for c, a in v.cols.items()}, k.dims[0])
            if isinstance(k, Pinned):
                return {c: Arr(tuple(a.dims[1:]), a.poly, unit=a.unit) for c, a in v.cols.items()}
            if isinstance(k, Arr) and k.ndim == 0 and k.mask is None and not _is_boolean(k.poly):
                # one row, at a position computed from data
                return {c: Arr(tuple(a.dims[1:]), alg.mk_fn('at', B(v.label, a.poly), P(k.poly)), unit=a.unit) for c, a in v.cols.items()}
            if isinstance(k, int) and not isinstance(k, bool):
                return {c: Arr(tuple(a.dims[1:]), alg.mk_fn('at', B(v.label, a.poly), P(num(k))), unit=a.unit) for c, a in v.cols.items()}
            if isinstance(k, Arr) and k.ndim == 1 and _is_boolean(k.poly):
                raise LabelClash('row mask over axis %r applied to a table whose rows are axis %r in %s' % (k.dims[0], v.label, up(e)))
            return Unk('table index %r' % (k,), e)
        if isinstance(v, Shape):
            k = self.expr(e.slice, env, mod)
            if isinstance(k, int) and -len(v.dims) <= k < len(v.dims):
                lab = v.dims[k]
                if lab in self.axis_len:
                    return self.axis_len[lab]          # the configuration being analysed fixes the length of this axis
                return Arr((), alg.count(lab), unit=num(1)) if lab else 1
            return Unk('shape index', e)
        if isinstance(v, _SelIdx):
            return v            # an element of selection-space positions is a selection-space position
        if isinstance(v, _WhereIdx):
            k = self.expr(e.slice, env, mod)
            if isinstance(k, int) and not isinstance(k, bool) and k in (0, -1):
                # first / last position at which the mask holds (IndexError when it holds nowhere)
                return Arr((), alg.mk_fn('first' if k == 0 else 'last', B(v.mask.dims[0], v.mask.poly)), unit=num(1))
            if isinstance(k, Arr) and k.ndim == 1 and not _is_boolean(k.poly) and k.mask is None:
                return v.gather(k)
            return Unk('element %r of the positions selected by a mask' % (k,), e)
        if not isinstance(v, Arr):
            return Unk('subscript of %r' % (v,), e)
        idx = e.slice.elts if isinstance(e.slice, ast.Tuple) else [e.slice]
        # expand Ellipsis
        n_real = sum(1 for ix in idx if not (isinstance(ix, ast.Constant) and ix.value is Ellipsis)
                     and not (isinstance(ix, ast.Attribute) and ix.attr == 'newaxis') and not (isinstance(ix, ast.Constant) and ix.value is None))
        exp = []
        for ix in idx:
            if isinstance(ix, ast.Constant) and ix.value is Ellipsis:
                exp += [ast.Slice()] * (v.ndim - n_real)
            else:
                exp.append(ix)
        idx = exp
        vals = []
        for ix in idx:
            if isinstance(ix, ast.Slice):
                vals.append(ix)
            else:
                vals.append(self.expr(ix, env, mod))
        if len(idx) == 1 and isinstance(vals[0], tuple) and not isinstance(idx[0], ast.Slice):
            # a[t] with t a tuple built elsewhere: the same as a[t[0], t[1], ...]
            vals = list(vals[0])
            idx = [None] * len(vals)
        for k_, x_ in enumerate(vals):
            if isinstance(x_, _SliceVal):
                # a slice object built with slice(lo, hi, step): the same as the literal lo:hi:step
                vals[k_] = x_
        for k_, x_ in enumerate(vals):
            if isinstance(x_, _WhereIdx):
                vals[k_] = x_.mask              # the positions where a mask holds, used as an index: the selection the mask itself makes
        for k_, x_ in enumerate(vals):
            if isinstance(x_, _SelIdx):
                if v.mask is not None and v.mask == x_.mask:
                    return Unk('gather within a compressed selection', e)
                raise LabelClash('positions counted within a compressed selection of axis %r (%s of the selected elements) index the full axis in %s' % (x_.label, x_.what, up(e)))
        # paired fancy gather  A[arange(n), best, ...]
        arrs = [(k, x) for k, x in enumerate(vals) if isinstance(x, Arr) and x.ndim == 1 and not _is_boolean(x.poly)]
        if len(arrs) == 2:
            (k0, a0), (k1, a1) = arrs
            ar = _is_arange(a0.poly)
            if ar is not None and k0 < v.ndim and k1 < v.ndim and all(isinstance(x, (ast.Slice, _SliceVal)) or i in (k0, k1) for i, x in enumerate(vals)):
                if ar != v.dims[k0] or a1.dims != (v.dims[k0],):
                    raise LabelClash('gather index over %s paired with arange(%s) on array axes %s in %s' % (a1.dims, ar, v.dims, up(e)))
                dims = [dd for k, dd in enumerate(v.dims) if k != k1]
                return Arr(dims, alg.mk_fn('at', B(v.dims[k1], v.poly), P(a1.poly)), v.mask, v.unit)
        if len(arrs) >= 2:
            # several index arrays are paired element by element (numpy broadcasts them against each other), not combined as an outer product
            ks_ = [k for k, _ in arrs]
            if len({a.dims for _, a in arrs}) != 1 or ks_ != list(range(ks_[0], ks_[0] + len(ks_))) or v.mask is not None or \
                    not all(isinstance(x, (ast.Slice, _SliceVal)) and _full_slice(x, idx[i_]) or i_ in ks_ for i_, x in enumerate(vals)) or ks_[-1] >= v.ndim:
                return Unk('index arrays paired element by element in %s' % up(e)[:60], e)
            shared_ = arrs[0][1].dims[0]
            poly_ = v.poly
            todo_ = []
            for k, a_ in arrs:
                lab_ = v.dims[k]
                if lab_ is None:
                    return Unk('index array on an unlabelled axis', e)
                if lab_ == shared_:
                    if a_.poly == Poly.atom(('fn', 'arange', ('L', lab_))):
                        continue                   # x[..., arange(n), ...] paired with indices over n: element n of that axis, which is what the label already says
                    # the axis being gathered has the same label as the index arrays: gather it through a temporary name
                    t_ = lab_ + '#g'
                    poly_ = alg.relabel(poly_, lab_, t_)
                    lab_ = t_
                todo_.append((lab_, a_))
            for lab_, a_ in todo_:
                poly_ = alg.mk_fn('at', B(lab_, poly_), P(a_.poly))
            dims_ = [d_ for i_, d_ in enumerate(v.dims) if i_ < ks_[0]] + [shared_] + [d_ for i_, d_ in enumerate(v.dims) if i_ > ks_[-1]]
            return Arr(tuple(dims_), poly_, None, v.unit)
        dims, ax, mask, poly = [], 0, v.mask, v.poly
        for k, ix in enumerate(idx):
            w = vals[k]
            if isinstance(ix, ast.Slice) or isinstance(w, _SliceVal):
                if ax >= v.ndim:
                    return Unk('too many indices', e)
                lab = v.dims[ax]
                if isinstance(w, _SliceVal):
                    lo, hi, stp = w.lo, w.hi, w.step
                else:
                    lo = self.expr(ix.lower, env, mod) if ix.lower else None
                    hi = self.expr(ix.upper, env, mod) if ix.upper else None
                    stp = self.expr(ix.step, env, mod) if ix.step else None
                if lo == 0 and not isinstance(lo, bool):
                    lo = None
                if stp == 1 and not isinstance(stp, bool):
                    stp = None
                if lo is None and hi is None and isinstance(stp, Arr) and stp.ndim == 0 and stp.mask is None and not stp.poly.is_const() \
                        and _is_boolean((Poly.const(1) - stp.poly) * Fraction(1, 2)):
                    # x[::s] with s = -1 under a condition and +1 otherwise: the array, reversed exactly when the condition holds
                    c_ = (Poly.const(1) - stp.poly) * Fraction(1, 2)
                    poly = poly + c_ * (alg.array_fn('rev', lab, poly) - poly)
                    dims.append(lab)
                elif lo is None and hi is None and stp is None:
                    dims.append(lab)
                elif lo is None and hi is None and stp == -1:
                    poly = alg.array_fn('rev', lab, poly)
                    dims.append(lab)
                elif stp is None and lo == 1 and hi is None and lab and lab not in self.axis_len:
                    poly = alg.relabel(poly, lab, lab + '~', '@+1'); dims.append(lab + '~')
                elif stp is None and lo is None and hi == -1 and lab and lab not in self.axis_len:
                    poly = alg.relabel(poly, lab, lab + '~', '@0'); dims.append(lab + '~')
                else:
                    sl = [self._as_arr(x) if x is not None else None for x in (lo, hi, stp)]
                    if any(isinstance(x, Unk) for x in sl):
                        return Unk('slice bounds', e)
                    args = [C(None) if x is None else P(x.poly) for x in sl]
                    newlab = '%s[%s]' % (lab, ':'.join('' if x is None else alg.show(x.poly, 200) for x in sl))
                    poly = alg.array_fn('slice', lab, poly, *args, out=newlab)
                    dims.append(newlab)
                    if (lab is None or lab in self.axis_len) and all(x is None or (x.poly.is_const() and x.poly.const_value().denominator == 1) for x in sl) and (sl[2] is None or sl[2].poly.const_value() != 0):
                        # a slice with fixed bounds of an axis of known length (an unlabelled axis has one position) has a known length
                        self.axis_len[newlab] = len(range(*slice(*[None if x is None else int(x.poly.const_value()) for x in sl]).indices(1 if lab is None else self.axis_len[lab])))
                ax += 1
                continue
            if w is None:         # np.newaxis / None
                dims.append(None)
                continue
            if isinstance(w, Unk):
                return w
            if ax >= v.ndim:
                return Unk('too many indices in %s' % up(e), e)
            lab = v.dims[ax]
            if isinstance(w, _Idx1):
                if lab != w.pinned.label:
                    raise LabelClash('index over axis %r used on axis %r in %s' % (w.pinned.label, lab, up(e)))
                dims.append(None)          # the selected position, on an axis of one position (advanced indexing: a copy)
                ax += 1
                continue
            if isinstance(w, Pinned):
                if isinstance(w.label, str) and w.label.startswith('sel:'):
                    # the k-th element of a boolean selection: only meaningful in the selection it counts
                    if mask is None or ('sel:' + alg.show(mask, 400)) != w.label:
                        raise LabelClash('counter of the selection %s used to index %s in %s' % (w.label[4:][:80], ('the selection ' + alg.show(mask, 80)) if mask is not None else 'an unselected array', up(e)))
                    poly = _under_mask(poly, mask)
                    mask = None
                    ax += 1
                    continue
                if lab != w.label:
                    raise LabelClash('index over axis %r used on axis %r in %s' % (w.label, lab, up(e)))
                ax += 1
                continue
            if isinstance(w, Arr) and w.ndim >= 1 and _is_boolean(w.poly) and w.dt not in ('i', 'f'):          # (an array of integers that happens to hold 0 / 1 is an index array, not a mask)
                for j, d in enumerate(w.dims):
                    if ax + j < v.ndim and v.dims[ax + j] != d and self._positional(d) and self._positional(v.dims[ax + j]) \
                            and self.axis_len[d] == self.axis_len[v.dims[ax + j]] and v.dims[ax + j] not in w.dims:
                        w = self._relabel_axis(w, d, v.dims[ax + j])
                    elif ax + j < v.ndim and v.dims[ax + j] is None and self._positional(d) and self.axis_len[d] == 1:
                        w = w.with_(dims=tuple(None if d_ == d else d_ for d_ in w.dims), poly=alg.index_at(w.poly, d, num(0)))
                for j, d in enumerate(w.dims):
                    if ax + j >= v.ndim or v.dims[ax + j] != d:
                        raise LabelClash('mask over %r used on axes %r in %s' % (w.dims, v.dims[ax:ax + w.ndim], up(e)))
                if mask is not None and not (mask == w.poly):
                    return Unk('second mask on a masked value', e)
                mask = w.poly
                poly = _under_mask(poly, mask)
                for j in range(w.ndim):
                    dims.append(v.dims[ax]); ax += 1
                continue
            if isinstance(w, Arr) and w.ndim == 1:       # gather by an index array
                dims.append(w.dims[0])
                poly = alg.mk_fn('at', B(lab, poly), P(w.poly))
                ax += 1
                continue
            if isinstance(w, Arr) and w.ndim == 0:        # symbolic scalar index
                poly = alg.mk_fn('at', B(lab, poly), P(w.poly))
                ax += 1
                continue
            if isinstance(w, int) and not isinstance(w, bool) and mask is not None and lab is not None and lab in alg.poly_labels(mask):
                # position w of a compressed selection: the first (w == 0) or last (w == -1) position of the axis at which the mask holds
                if w in (0, -1) and alg.poly_labels(mask) == {lab}:
                    poly = alg.mk_fn('at', B(lab, poly), P(alg.mk_fn('first' if w == 0 else 'last', B(lab, mask))))
                    mask = None
                    ax += 1
                    continue
                return Unk('element %d of a compressed selection' % w, e)
            if isinstance(w, int) and not isinstance(w, bool):
                self.positional.append((lab, w, mod.path, e.lineno))
                if lab is not None and lab in self.axis_len and not -self.axis_len[lab] <= w < self.axis_len[lab]:
                    raise PyRaise('IndexError', 'index %d is out of bounds for an axis of %d positions' % (w, self.axis_len[lab]))
                if lab is not None:
                    # on an axis of known length a position counted from the end is a position counted from the front
                    poly = alg.mk_fn('at', B(lab, poly), P(num(w + self.axis_len[lab] if w < 0 and lab in self.axis_len else w)))
                ax += 1
                continue
            if isinstance(w, str):
                return Unk('field access %r' % w, e)
            return Unk('index form %r in %s' % (w, up(e)), e)
        dims += list(v.dims[ax:])
        if tuple(dims) == v.dims and poly is v.poly and mask is v.mask:
            return v         # x[:] / x[...] : a view of the same buffer (alias)
        res = Arr(dims, poly, mask, v.unit)
        res.dt, res.conv = v.dt, v.conv
        if mask is None and all(x is None or isinstance(x, (ast.Slice, _SliceVal, Pinned, int)) or x is Ellipsis for x in vals) and isinstance(e.value, (ast.Name, ast.Attribute)):
            # basic indexing gives a view: remember how it was obtained, so that a later store into it can be written through
            res.view_src = (e, {n_.id: id(env.get(n_.id)) for n_ in ast.walk(e) if isinstance(n_, ast.Name)})
        return res

    # ---- calls
    def callexpr(self, e, env, mod):
        f = self.expr(e.func, env, mod)
        args, kw = [], {}
        for a in e.args:
            if isinstance(a, ast.Starred):
                sv_ = self.expr(a.value, env, mod)
                if not isinstance(sv_, (list, tuple)):
                    return sv_ if isinstance(sv_, Unk) else Unk('star arguments', e)
                args.extend(sv_)          # f(*seq) with a sequence whose items are known
            else:
                args.append(self.expr(a, env, mod))
        for k in e.keywords:
            if k.arg is None:
                dv_ = self.expr(k.value, env, mod)
                if not (isinstance(dv_, dict) and all(isinstance(x_, str) for x_ in dv_)):
                    return dv_ if isinstance(dv_, Unk) else Unk('star arguments', e)
                kw.update(dv_)
            else:
                kw[k.arg] = self.expr(k.value, env, mod)
        return self.apply(f, args, kw, e, mod, env)

    def apply(self, f, args, kw, e, mod, env=None):
        """call the value f"""
        env = env if env is not None else {}
        if isinstance(f, Unk):
            return f
        if isinstance(f, Obj) and f.cls is not None and self.repo.find_member(f.cls, '__call__') is not None:
            m_ = self.repo.find_member(f.cls, '__call__')
            self.trace.append((m_[1].qual, args, kw, e, mod.path))
            return self.call(m_[1], args, kw, selfv=f, node=e)          # an instance of a class that defines __call__
        if isinstance(f, FuncRef):
            self.trace.append((f.fi.qual, args, kw, e, mod.path))
            return self.call(f.fi, args, kw, node=e)
        if isinstance(f, Bound):
            self.trace.append((f.fi.qual, args, kw, e, mod.path))
            return self.call(f.fi, args, kw, selfv=f.selfv, node=e)
        if isinstance(f, Closure):
            return self.call(f.fi, args, kw, node=e, closure=f.env)
        if isinstance(f, _SelectVal) and isinstance(f.a, (FuncRef, Closure)) and isinstance(f.b, (FuncRef, Closure)):
            ra_, rb_ = self.apply(f.a, list(args), dict(kw), e, mod, env), self.apply(f.b, list(args), dict(kw), e, mod, env)
            return merge_val(ra_, rb_, f.cond, e)
        if isinstance(f, ClassRef):
            r = self.hooks.construct(self, f.ci, args, kw, e)
            if r is not NotImplemented:
                return r
            o = Obj(f.ci)
            init = self.repo.find_member(f.ci, '__init__')
            if init is not None:
                self.call(init[1], args, kw, selfv=o, node=e)
            return o
        if isinstance(f, Marker):
            r = self.hooks.external(self, f.name, args, kw, e, mod)
            if r is not NotImplemented:
                return r
            out_ = kw.pop('out', None) if isinstance(kw.get('out'), Arr) else None
            wh_ = None
            if 'where' in kw and f.name.split('.')[0] in ('numpy', 'np') and f.name.split('.')[-1] not in ('where', 'copyto', 'putmask'):
                wh_ = self._as_arr(kw.pop('where'))
                if wh_ is True or (isinstance(wh_, Arr) and wh_.poly == Poly.const(1)):
                    wh_ = None
                elif not (isinstance(wh_, Arr) and _is_boolean(wh_.poly) and wh_.mask is None):
                    return Unk('ufunc where= %r' % (wh_,), e)
                elif out_ is None:
                    return Unk('ufunc with where= and no out=: the other elements are left uninitialised', e)
            r = self.libcall(f.name, args, kw, e, mod)
            if wh_ is not None and isinstance(r, Arr) and r.mask is None:
                # ufunc(..., out=a, where=m): computed where m holds, a's own value elsewhere
                try:
                    d_ = bdims(bdims(out_.dims, r.dims), wh_.dims)
                except LabelClash:
                    d_ = None
                if d_ is None or tuple(d_) != tuple(out_.dims):
                    return Unk('ufunc where= on differently shaped operands', e)
                r = Arr(out_.dims, out_.poly + wh_.poly * (r.poly - out_.poly), None, r.unit, dt=r.dt)
            if out_ is not None:
                # ufunc(..., out=a): the result is written into a's buffer, seen through every view of it
                if isinstance(r, Arr) and tuple(r.dims) == tuple(out_.dims):
                    r2 = Arr(out_.dims, r.poly, r.mask, out_.unit, dt=out_.dt)
                    for fr_ in [env] + [f_ for f_ in self.frames if f_ is not env]:
                        _replace_aliases(fr_, out_, r2)
                    return r2
                _replace_aliases(env, out_, Unk('array overwritten through out= by an unmodelled call', e))
            return r
        if isinstance(f, BoundExt):
            return self.method(f.recv, f.name, args, kw, e, mod)
        if callable(f) and not isinstance(f, type):
            return f(*args, **kw)
        return Unk('call target %r' % (f,), e)

    def _reduce(self, x, axis, kind, node):
        if isinstance(x, Unk):
            return x
        x = self._as_arr(x)
        if isinstance(x, Unk):
            return x
        if isinstance(axis, Arr) and axis.ndim == 0 and axis.poly.is_const():
            axis = int(axis.poly.const_value())
        if axis is None:
            axes = list(range(x.ndim))
        elif isinstance(axis, int):
            if not -x.ndim <= axis < x.ndim:
                raise LabelClash('reduction axis %d out of range for array with axes %s' % (axis, x.dims))
            axes = [axis % x.ndim]
        else:
            return Unk('reduction axis', node)
        p = x.poly
        if x.mask is not None and kind in ('min', 'max') and x.ndim == 1 and x.mask == alg.b_not(alg.mk_ind('isnan', x.poly)):
            # the smallest / largest of the elements that are not NaN
            return Arr((), alg.mk_fn('nan' + kind, B(x.dims[0], x.poly)), None, x.unit)
        if x.mask is not None:
            if kind in ('sum', 'any'):
                p = x.mask * p
            else:
                return Unk('%s over a masked selection' % kind, node)
        mask = x.mask
        for ax in axes:
            lab = x.dims[ax]
            if lab is None:
                continue
            if kind == 'sum':
                p = alg.sum_over(p, lab)
            elif kind in ('any', 'all', 'max', 'min', 'nanmax', 'nanmin') and self.axis_len.get(lab, 0) > 0 and lab not in alg.poly_labels(p):
                pass                   # the same value at every position of a non-empty axis: that value
            else:
                p = alg.mk_fn(kind, B(lab, p))
        if mask is not None:
            gone = {x.dims[ax] for ax in axes}
            if alg.poly_labels(mask) & gone:
                mask = None
            elif mask.is_const() and kind in ('sum', 'any'):
                mask = None          # a selection that takes everything or nothing: the sum already carries the factor
        dims = [d for k, d in enumerate(x.dims) if k not in axes]
        if self.track_xr:
            self.xr_log.append((p, kind, _xr(x)))
        return Arr(dims, p, mask, x.unit if kind in ('sum', 'max', 'min', 'nanmax', 'nanmin') else None)

    def libcall(self, name, args, kw, e, mod):
        last = name.split('.')[-1]
        root = name.split('.')[0]
        for k_, a_ in enumerate(args):
            if isinstance(a_, _ArrSelect):
                r1_ = self.libcall(name, list(args[:k_]) + [a_.a] + list(args[k_ + 1:]), dict(kw), e, mod)
                r2_ = self.libcall(name, list(args[:k_]) + [a_.b] + list(args[k_ + 1:]), dict(kw), e, mod)
                return merge_val(r1_, r2_, a_.cond, e)
        if name == 'warnings.warn' or (root == 'logging' and last in ('debug', 'info', 'warning', 'warn', 'error', 'critical', 'exception', 'log')) \
                or name.startswith('astropy.log.') or name.startswith('astropy.logger.log.'):
            return None       # a diagnostic: no effect on any value, file or object the properties speak about
        if name == 'logging.getLogger':
            return Marker('logging.Logger')
        if root in ('numpy', 'np') and last == 'memmap' and 'shape' in kw:
            # a fresh zero-initialised buffer of the given shape (storage class is not modelled)
            return self.libcall('numpy.zeros', [kw['shape']], {}, e, mod)
        if root in ('numpy', 'np') and last == 'frombuffer' and args and isinstance(args[0], Foreign) and hasattr(args[0], 'sl_frombuffer'):
            return args[0].sl_frombuffer(self, kw, e)          # the values a block of raw bytes holds, flat
        if root in ('numpy', 'np') and last == 'fromfile' and args and isinstance(args[0], Foreign):
            # the next values of a binary file, as a flat array (fewer than asked for, without an error, when the file ends first)
            r_ = args[0].sl_method(self, 'raw_read_array', [kw.get('count', args[2] if len(args) > 2 else None)], {}, e)
            return Unk('np.fromfile on %s' % type(args[0]).__name__, e) if r_ is NotImplemented else r_
        if name in ('builtins.setattr', 'builtins.delattr') and args and isinstance(args[0], Obj) and len(args) >= 2 and not isinstance(args[1], str):
            # attribute chosen by a name the analysis does not know: any attribute of the object may have changed
            for k_ in list(args[0].attrs):
                args[0].attrs[k_] = Unk('attribute possibly rebound by %s() with a computed name' % last, e)
            return Unk('%s with a computed attribute name' % last, e)
        if any(isinstance(a, Unk) for a in args):
            return [a for a in args if isinstance(a, Unk)][0]
        if root in ('numpy', 'np'):
            if last in ('shape', 'ndim', 'size') and len(args) == 1 and not kw and isinstance(args[0], Arr) and args[0].mask is None:
                v_ = args[0]                                          # np.shape(x) is x.shape
                if last == 'ndim':
                    return v_.ndim
                if last == 'shape':
                    return Shape(v_.dims)
                if v_.ndim == 1:
                    return Arr((), alg.count(v_.dims[0]), unit=num(1))
            if last in ('sum', 'any', 'all', 'max', 'min', 'nanmax', 'nanmin', 'amax', 'amin'):
                kind = {'amax': 'max', 'amin': 'min'}.get(last, last)
                return self._reduce(args[0], kw.get('axis', args[1] if len(args) > 1 else None), kind, e)
            if last == 'fromiter' and args and isinstance(args[0], (list, tuple)):
                # the first `count` items of the iterable (all of them without count): surplus items are left unread, too few is a ValueError
                cnt_ = kw.get('count', args[2] if len(args) > 2 else -1)
                if isinstance(cnt_, Arr) and cnt_.ndim == 0 and cnt_.poly.is_const() and cnt_.poly.const_value().denominator == 1:
                    cnt_ = int(cnt_.poly.const_value())
                if isinstance(cnt_, int) and not isinstance(cnt_, bool):
                    seq_ = list(args[0])
                    if cnt_ >= 0 and len(seq_) < cnt_:
                        raise PyRaise('ValueError', 'iterator too short: %d items where count=%d' % (len(seq_), cnt_))
                    return self._list_to_arr(seq_ if cnt_ < 0 else seq_[:cnt_])
            if last in ('atleast_2d', 'atleast_3d') and len(args) == 1:
                want_ = 2 if last == 'atleast_2d' else 3
                if args[0] is None:
                    return Arr((None,) * want_, alg.sym('object:None'))          # np.atleast_2d(None) is array([[None]], dtype=object): no longer None
                x = self._as_arr(args[0])
                if isinstance(x, Arr):
                    if x.ndim >= want_:
                        return x
                    if last == 'atleast_2d':
                        return x.with_(dims=(None,) * (2 - x.ndim) + tuple(x.dims))          # new axes in front
            if last == 'isclose' and len(args) >= 2:
                # equal within a tolerance (by default a relative 1e-5): a truth value of its own - it holds for equal values and for some that differ
                a_, b_ = self._as_arr(args[0]), self._as_arr(args[1])
                if isinstance(a_, Arr) and isinstance(b_, Arr) and a_.mask is None and b_.mask is None:
                    try:
                        d_ = bdims(a_.dims, b_.dims)
                    except LabelClash:
                        d_ = None
                    if d_ is not None:
                        same_ = alg.eq(a_.poly - b_.poly, 0)
                        close_ = alg.mk_ind('true', alg.mk_fn('isclose', P(a_.poly), P(b_.poly)))
                        return Arr(d_, same_ + alg.b_not(same_) * close_)          # certainly where they are equal; where they differ, whatever the tolerance says
            if last == 'unique' and len(args) == 1 and not (set(kw) - {'return_index'}):
                # the distinct values in increasing order: an axis of its own (as long as the array only when no value repeats); with return_index also the
                # position of the first occurrence of each
                x = self._as_arr(args[0])
                if isinstance(x, Arr) and x.ndim == 1 and x.dims[0] is not None and x.mask is None:
                    lab_ = 'uniq:' + str(x.dims[0])
                    vals_ = Arr((lab_,), alg.mk_fn('unique', L(lab_), B(x.dims[0], x.poly)), unit=x.unit, dt=x.dt)
                    if kw.get('return_index') is True:
                        return (vals_, Arr((lab_,), alg.mk_fn('unique_index', L(lab_), B(x.dims[0], x.poly)), unit=num(1), dt='i'))
                    if not kw.get('return_index'):
                        return vals_
            if last == 'nan_to_num' and len(args) == 1 and not (set(kw) - {'copy'}):
                # NaN becomes 0; every other value stays (an infinity becomes the largest finite number: still not 0, and still infinite for what the analysis asks)
                x = self._as_arr(args[0])
                if isinstance(x, Arr) and x.mask is None:
                    return x.with_(poly=x.poly * alg.b_not(alg.mk_ind('isnan', x.poly)))
            if last == 'nan_to_num' and len(args) == 1 and not (set(kw) - {'copy', 'nan', 'posinf', 'neginf'}) and ('posinf' in kw) == ('neginf' in kw):
                # nan= / posinf= / neginf= given: NaN becomes nan= (left alone when that is NaN itself), either infinity becomes the value given for both
                x = self._as_arr(args[0])
                nv_ = kw.get('nan', 0.)
                keep_nan_ = (isinstance(nv_, Marker) and nv_.name in ('numpy.nan', 'numpy.NaN', 'math.nan')) or (isinstance(nv_, float) and nv_ != nv_)
                pv_, mv_ = (self._as_arr(kw[k_]) for k_ in ('posinf', 'neginf')) if 'posinf' in kw else (None, None)
                if isinstance(x, Arr) and x.mask is None and (keep_nan_ or _is_pynum(nv_)) and (pv_ is None or (isinstance(pv_, Arr) and isinstance(mv_, Arr) and pv_.ndim == 0 and pv_.poly == mv_.poly)):
                    p_ = x.poly
                    if pv_ is not None:
                        inf_ = alg.mk_ind('isinf', x.poly)
                        p_ = inf_ * pv_.poly + alg.b_not(inf_) * p_
                    if not keep_nan_:
                        nan_ = alg.mk_ind('isnan', x.poly)
                        p_ = nan_ * num(nv_) + alg.b_not(nan_) * p_
                    return x.with_(poly=p_)
            if last == 'nansum':
                # the sum of the terms that are not NaN: sum(x * [not isnan(x)])
                x = self._as_arr(args[0])
                if isinstance(x, Arr) and x.mask is None:
                    return self._reduce(x.with_(poly=x.poly * alg.b_not(alg.mk_ind('isnan', x.poly))), kw.get('axis', args[1] if len(args) > 1 else None), 'sum', e)
            if last in ('log10', 'log', 'abs', 'absolute', 'sqrt', 'isinf', 'isnan', 'isfinite', 'ceil', 'floor', 'exp'):
                x = self._as_arr(args[0])
                if isinstance(x, Unk):
                    return x
                if last == 'log10':
                    return x.with_(poly=alg.log10(x.poly), unit=num(1) if x.unit == num(1) else None, dt='f')       # the logarithm of a bare number is a bare number
                if last == 'log':
                    return x.with_(poly=alg.ln(x.poly), unit=num(1) if x.unit == num(1) else None, dt='f')
                if last in ('abs', 'absolute'):
                    return x.with_(poly=alg.mk_fn('abs', P(x.poly)))
                if last == 'sqrt':
                    return x.with_(poly=x.poly.pow(Fraction(1, 2)), unit=_upow(x.unit, Fraction(1, 2)), dt='f')
                if last in ('isinf', 'isnan'):
                    return x.with_(poly=alg.mk_ind(last, x.poly), unit=None, dt=None)
                if last == 'isfinite':
                    return x.with_(poly=alg.b_not(alg.mk_ind('isinf', x.poly)) * alg.b_not(alg.mk_ind('isnan', x.poly)), unit=None, dt=None)
                if last in ('ceil', 'floor') and x.ndim == 0 and x.poly.is_const():
                    import math as _math
                    return float(getattr(_math, last)(x.poly.const_value()))           # of a plain number: a plain number
                return x.with_(poly=alg.mk_fn(last, P(x.poly)), dt='f' if last == 'exp' else x.dt)
            if last in ('isin', 'in1d') and len(args) == 2 and isinstance(args[1], (set, frozenset)):
                # numpy makes ONE object of a set (np.asarray(set) is a 0-d object array): no element of the array equals it - every entry is False
                a = self._as_arr(args[0])
                if isinstance(a, Arr) and a.mask is None:
                    return Arr(a.dims, Poly(), unit=num(1))
            if last in ('isin', 'in1d') and len(args) == 2 and isinstance(args[1], (list, tuple)) and args[1] and all(_is_pynum(x_) for x_ in args[1]):
                a = self._as_arr(args[0])
                if isinstance(a, Arr):
                    p_ = Poly()
                    for c_ in sorted(set(args[1])):
                        p_ = alg.b_or(p_, alg.mk_ind('==0', a.poly - num(c_)))
                    return Arr(a.dims, p_, a.mask)
            if last in ('isin', 'in1d') and len(args) == 2:
                a, b = self._as_arr(args[0]), self._as_arr(args[1])
                if isinstance(a, Arr) and isinstance(b, Arr) and b.ndim == 1:
                    return Arr(a.dims, alg.mk_ind('true', alg.mk_fn('isin', P(a.poly), B(b.dims[0], b.poly))), unit=num(1))
                return Unk('isin', e)
            if last == 'strip' and args:
                x = self._as_arr(args[0])
                return x.with_(poly=alg.mk_fn('strip', P(x.poly))) if isinstance(x, Arr) else x
            if last == 'memmap' and 'shape' in kw:
                # a fresh zero-initialised buffer of the given shape (storage class is not modelled)
                args, last = [kw['shape']], 'zeros'
            if last == 'result_type':
                return Marker('dtype')
            if last in ('zeros', 'ones', 'empty'):
                sh = args[0]
                c = 1 if last == 'ones' else 0
                if last == 'empty':
                    # memory that nothing has written yet: whatever was there before - a value of its own, equal to nothing the analysis knows
                    self._n_uninit = getattr(self, '_n_uninit', 0) + 1
                    c = alg.sym('UNINIT#%d' % self._n_uninit)
                dta_ = kw.get('dtype', args[1] if len(args) > 1 else None)
                dt = _dtype_kind(dta_, 'f')
                if isinstance(sh, Arr) and sh.ndim == 0 and sh.poly.is_const() and sh.poly.const_value().denominator == 1:
                    sh = int(sh.poly.const_value())
                if isinstance(sh, tuple) and len(sh) == 1 and isinstance(sh[0], int) and not isinstance(sh[0], bool):
                    sh = sh[0]
                if isinstance(sh, int) and not isinstance(sh, bool) and 0 <= sh <= 64:
                    # a concrete number of elements: a fresh axis that only counts positions
                    self._n_lists = getattr(self, '_n_lists', 0) + 1
                    lab_ = 'pos#%d' % self._n_lists
                    if sh == 0:
                        lab_ = 'pos#%d<empty>' % self._n_lists          # (an array of no elements: recognisable where it is merged with the general case)
                    self.axis_len[lab_] = sh
                    r_ = Arr((lab_,), c if isinstance(c, Poly) else num(c), unit=num(1), fresh=True, dt=dt)
                    r_.dt_src = dta_.src if isinstance(dta_, _DtypeOf) else None
                    return r_
                if isinstance(sh, Shape):
                    r_ = Arr(sh.dims, c if isinstance(c, Poly) else num(c), unit=num(1), fresh=True, dt=dt)
                    r_.dt_src = dta_.src if isinstance(dta_, _DtypeOf) else None
                    return r_
                def lab_of(s_):
                    # the axis with that many positions: a length read off an array, or the count an axis was created with
                    if not isinstance(s_, Arr) or s_.ndim != 0:
                        return None
                    return _len_label(s_.poly) or next((l_ for l_, c_ in self.axis_count.items() if c_ == s_.poly), None)
                if isinstance(sh, Arr) and sh.ndim == 0:
                    lab = lab_of(sh)
                    if lab:
                        return Arr((lab,), c if isinstance(c, Poly) else num(c), unit=num(1), fresh=True, dt=dt)
                if isinstance(sh, tuple):
                    dims = []
                    for s in sh:
                        if isinstance(s, Arr) and s.ndim == 0 and s.poly.is_const() and s.poly.const_value().denominator == 1:
                            s = int(s.poly.const_value())
                        if isinstance(s, int) and not isinstance(s, bool) and s == 1:
                            dims.append(None)
                            continue
                        if isinstance(s, int) and not isinstance(s, bool) and 0 <= s <= 64:
                            self._n_lists = getattr(self, '_n_lists', 0) + 1
                            dims.append('pos#%d' % self._n_lists)          # a concrete extent: an axis that only counts positions
                            self.axis_len[dims[-1]] = s
                            continue
                        lab = lab_of(s)
                        if lab is None:
                            return Unk('array shape %r' % (sh,), e)
                        dims.append(lab)
                    return Arr(dims, c if isinstance(c, Poly) else num(c), unit=num(1), fresh=True, dt=dt)
                return Unk('array shape %r' % (sh,), e)
            if last in ('zeros_like', 'ones_like', 'empty_like'):
                x = self._as_arr(args[0])
                if not isinstance(x, Arr):
                    return x
                dt = _dtype_kind(kw.get('dtype', args[1] if len(args) > 1 else None), x.dt if x.dt in ('f', 'i') else 'inherit')
                r_ = Arr(x.dims, num(1 if last == 'ones_like' else 0), unit=num(1), fresh=True, dt=dt)
                if dt == 'inherit' and not ('dtype' in kw or len(args) > 1):
                    r_.dt_src = tuple(sorted({str(x_).split('@')[0] for x_ in alg.leaf_syms(x.poly)[0]}))
                return r_
            if last in ('argmin', 'argmax'):
                x = self._as_arr(args[0])
                ax = kw.get('axis', args[1] if len(args) > 1 else None)
                if isinstance(x, Unk):
                    return x
                if ax is None and x.ndim == 1:
                    ax = 0
                if not isinstance(ax, int) or not -x.ndim <= ax < x.ndim:
                    if isinstance(ax, int):
                        raise LabelClash('%s axis %d out of range for axes %s' % (last, ax, x.dims))
                    return Unk('%s axis' % last, e)
                ax %= x.ndim
                return Arr([d for k, d in enumerate(x.dims) if k != ax], alg.mk_fn(last, B(x.dims[ax], x.poly)), unit=num(1))
            if last == 'lexsort' and len(args) == 1 and isinstance(args[0], (tuple, list)) and args[0] and not kw:
                # sorted by the last key, ties by the one before, ...: an argsort of the last key (the order it gives to equal values is one of those argsort may give)
                x = self._as_arr(args[0][-1])
                if isinstance(x, Arr) and x.ndim == 1 and x.mask is None and all(isinstance(self._as_arr(k_), Arr) for k_ in args[0]):
                    return Arr(x.dims, alg.array_fn('argsort', x.dims[0], x.poly), unit=num(1))
                return Unk('lexsort', e)
            if last in ('round', 'around', 'round_') and args:
                x = self._as_arr(args[0])
                nd_ = kw.get('decimals', args[1] if len(args) > 1 else 0)
                if isinstance(x, Arr) and isinstance(nd_, int):
                    return x.with_(poly=alg.mk_fn('round', P(x.poly), C(nd_)))          # not an order-preserving map: values that differ may round to the same number
                return Unk('np.round', e)
            if last == 'argsort':
                x = self._as_arr(args[0])
                if isinstance(x, Arr) and x.ndim == 1 and x.mask is not None:
                    return _SelIdx(x.mask, x.dims[0], 'argsort')          # positions counted within the compressed selection
                if isinstance(x, Arr) and x.ndim == 1:
                    return Arr(x.dims, alg.array_fn('argsort', x.dims[0], x.poly), unit=num(1))
                return Unk('argsort of %r' % (x,), e)
            if last == 'choose' and len(args) == 2 and not kw:
                # np.choose(index, choices): choices[index[i]][i] - with the choices taken as a sequence of arrays, of which numpy accepts no more than 32 (64
                # from numpy 2): a choices axis whose length the data decide (grid distances, models) raises ValueError as soon as it is longer
                ix_, ch_ = self._as_arr(args[0]), self._as_arr(args[1])
                if isinstance(ix_, Arr) and isinstance(ch_, Arr) and ch_.ndim >= 1 and ch_.dims[0] is not None and ix_.mask is None and ch_.mask is None:
                    lab_ = ch_.dims[0]
                    if self.axis_len.get(lab_, 10 ** 9) > 32:
                        self.findings.append(Finding('library-limit', 'np.choose takes at most 32 choices (64 from numpy 2): the choices here run over the axis %r, whose length the data decide - a longer one raises ValueError' % lab_, e, mod.path))
                    if tuple(ix_.dims) == tuple(ch_.dims[1:1 + ix_.ndim]) or ix_.ndim == 0:
                        return Arr(tuple(ch_.dims[1:]), alg.mk_fn('at', B(lab_, ch_.poly), P(ix_.poly)), None, ch_.unit, dt=ch_.dt)
            if last == 'norm' and 'linalg' in name and args:
                # np.linalg.norm(x, ord=None, axis=None): the 2-norm over all elements, or along `axis`; any other `ord` is another norm (for a matrix, ord=1
                # is the largest column sum: a single number)
                x = self._as_arr(args[0])
                ord_ = kw.get('ord', args[1] if len(args) > 1 else None)
                ax_ = kw.get('axis', args[2] if len(args) > 2 else None)
                if isinstance(x, Arr) and x.mask is None:
                    sq_ = x.with_(poly=x.poly * x.poly, unit=None if x.unit is None else x.unit * x.unit)
                    if ord_ in (None, 2) and (ord_ is None or x.ndim == 1 or ax_ is not None):
                        tot_ = self._reduce(sq_, ax_, 'sum', e)
                        if isinstance(tot_, Arr):
                            return tot_.with_(poly=tot_.poly.pow(Fraction(1, 2)), unit=x.unit, dt='f')
                    elif isinstance(ord_, (int, float)) and not isinstance(ord_, bool):
                        out_dims_ = () if ax_ is None else tuple(d_ for k_, d_ in enumerate(x.dims) if k_ != (ax_ + x.ndim if isinstance(ax_, int) and ax_ < 0 else ax_))
                        args_ = [B(d_, x.poly) if False else None for d_ in ()]
                        p_ = x.poly
                        for d_ in x.dims:
                            if d_ is not None and d_ not in out_dims_:
                                p_ = alg.mk_fn('norm_ord%s' % str(ord_).replace('.', '_').replace('-', 'm'), B(d_, p_))
                        return Arr(out_dims_, p_, None, x.unit, dt='f')
            if last == 'argwhere' and len(args) == 1:
                m_ = self._as_arr(args[0])
                if isinstance(m_, Arr) and m_.ndim == 1 and m_.mask is None and _is_boolean(m_.poly):
                    return _ArgWhere(m_)
                return Unk('np.argwhere of %r' % (m_,), e)
            if last == 'flatnonzero' and len(args) == 1:
                m_ = self._as_arr(args[0])
                if isinstance(m_, Arr) and m_.ndim == 1 and _is_boolean(m_.poly):
                    return _WhereIdx(m_)
                return Unk('np.flatnonzero of %r' % (m_,), e)
            if last == 'flip' and args:
                x = self._as_arr(args[0])
                ax_ = kw.get('axis', args[1] if len(args) > 1 else None)
                if isinstance(x, Arr):
                    axes_ = list(range(x.ndim)) if ax_ is None else ([ax_ % x.ndim] if isinstance(ax_, int) and -x.ndim <= ax_ < x.ndim else None)
                    if axes_ is not None:
                        p_ = x.poly
                        for a_ in axes_:
                            if x.dims[a_]:
                                p_ = alg.array_fn('rev', x.dims[a_], p_)
                        return x.with_(poly=p_)
                return Unk('np.flip', e)
            if last in ('sort', 'flip', 'cumsum', 'flipud', 'fliplr'):
                x = self._as_arr(args[0])
                if isinstance(x, Arr) and x.ndim == 1:
                    nm = 'rev' if last.startswith('flip') else last
                    return x.with_(poly=alg.array_fn(nm, x.dims[0], x.poly))
                return Unk('np.%s of %r' % (last, x), e)
            if last in ('multiply', 'add', 'subtract', 'divide', 'true_divide', 'power') and len(args) == 2:
                opn = {'multiply': ast.Mult, 'add': ast.Add, 'subtract': ast.Sub, 'divide': ast.Div, 'true_divide': ast.Div, 'power': ast.Pow}[last]
                return self.binop(opn(), args[0], args[1], e)
            if last == 'square':
                return self.binop(ast.Pow(), args[0], 2, e)
            if last == 'negative':
                return self.binop(ast.Mult(), args[0], -1, e)
            if last == 'arange':
                args = [(int(a_.poly.const_value()) if isinstance(a_, Arr) and a_.ndim == 0 and a_.mask is None and a_.poly.is_const() and a_.poly.const_value().denominator == 1 and a_.dt != 'f' else a_)
                        for a_ in args]          # (whole numbers held as numpy scalars)
                n = args[0]
                if len(args) == 1 and isinstance(n, int) and not isinstance(n, bool) and 0 <= n <= 64:
                    return self._list_to_arr(list(range(n)))
                if len(args) in (2, 3) and all(isinstance(a_, int) and not isinstance(a_, bool) for a_ in args) and args[-1] != 0 and 0 < len(range(*args)) <= 64 \
                        and not (set(kw) - {'dtype'}):
                    return self._list_to_arr(list(range(*args)))
                lab = _len_label(n.poly) if isinstance(n, Arr) else None
                if lab is None and isinstance(n, Arr) and n.ndim == 0:
                    lab = next((l_ for l_, c_ in self.axis_count.items() if c_ == n.poly), None)         # as many positions as an axis created earlier with that count
                if lab and len(args) == 1:
                    return Arr((lab,), alg.mk_fn('arange', L(lab)), unit=num(1))
                return Unk('arange(%r)' % (n,), e)
            if last in ('where', 'nonzero') and len(args) == 1:
                m_ = self._as_arr(args[0])
                if isinstance(m_, Arr) and m_.ndim == 1 and _is_boolean(m_.poly) and m_.mask is not None:
                    return (_SelIdx(m_.mask, m_.dims[0], 'nonzero'),)      # positions within the compressed selection
                if isinstance(m_, Arr) and m_.ndim == 1 and _is_boolean(m_.poly):
                    return (_WhereIdx(m_),)
                return Unk('np.where of %r' % (m_,), e)
            if last == 'where' and len(args) == 3:
                c, a, b = [self._as_arr(x) for x in args]
                if any(isinstance(x, Unk) for x in (c, a, b)):
                    return Unk('where', e)
                d = bdims(bdims(c.dims, a.dims), b.dims)
                return Arr(d, c.poly * a.poly + alg.b_not(c.poly) * b.poly, unit=a.unit)
            if last == 'select' and len(args) in (2, 3) and isinstance(args[0], (list, tuple)) and isinstance(args[1], (list, tuple)) and not (set(kw) - {'default'}):
                # the choice of the first condition that holds, the default (0) where none does
                if len(args[0]) != len(args[1]):
                    raise PyRaise('ValueError', 'list of cases must be same length as list of conditions (%s)' % up(e)[:60])
                if not args[0]:
                    raise PyRaise('ValueError', 'select with an empty condition list is not possible (%s)' % up(e)[:60])
                cs_ = [self._as_arr(c_) for c_ in args[0]]
                vs_ = [self._as_arr(v_) for v_ in args[1]]
                r_ = self._as_arr(kw.get('default', args[2] if len(args) == 3 else 0))
                if all(isinstance(x_, Arr) and x_.mask is None for x_ in cs_ + vs_ + [r_]) and all(_is_boolean(c_.poly) for c_ in cs_):
                    for c_, v_ in reversed(list(zip(cs_, vs_))):
                        r_ = Arr(bdims(bdims(c_.dims, v_.dims), r_.dims), c_.poly * v_.poly + alg.b_not(c_.poly) * r_.poly, unit=v_.unit if v_.unit is not None else r_.unit)
                    return r_
                return Unk('numpy.select', e)
            if last in ('greater_equal', 'less_equal', 'greater', 'less', 'equal', 'not_equal') and len(args) == 2 and not kw:
                op_ = {'greater_equal': ast.GtE, 'less_equal': ast.LtE, 'greater': ast.Gt, 'less': ast.Lt, 'equal': ast.Eq, 'not_equal': ast.NotEq}[last]()
                env_ = {'__module__': mod, '_a': args[0], '_b': args[1]}
                return self.compare(ast.Compare(left=ast.Name(id='_a', ctx=ast.Load()), ops=[op_], comparators=[ast.Name(id='_b', ctx=ast.Load())]), env_, mod)
            if last == 'count_nonzero' and len(args) == 1 and not kw:
                x_ = self._as_arr(args[0])
                if isinstance(x_, Arr) and _is_boolean(x_.poly):
                    return self._reduce(x_, None, 'sum', e)
                if isinstance(x_, Arr):
                    return self._reduce(x_.with_(poly=alg.b_not(alg.mk_ind('==0', x_.poly))), None, 'sum', e)
                return Unk('count_nonzero', e)
            if last in ('logical_and', 'logical_or') and len(args) == 2 and not kw:
                return self.binop(ast.BitAnd() if last == 'logical_and' else ast.BitOr(), args[0], args[1], e)
            if last == 'logical_not' and len(args) == 1:
                x_ = self._as_arr(args[0])
                return x_.with_(poly=alg.b_not(x_.poly)) if isinstance(x_, Arr) and _is_boolean(x_.poly) else Unk('logical_not', e)
            if last in ('add', 'subtract', 'multiply', 'divide', 'true_divide') and len(args) == 2 and not kw:
                return self.binop({'add': ast.Add(), 'subtract': ast.Sub(), 'multiply': ast.Mult(), 'divide': ast.Div(), 'true_divide': ast.Div()}[last], args[0], args[1], e)
            if last == 'square' and len(args) == 1:
                return self.binop(ast.Pow(), args[0], 2, e)
            if last in ('maximum', 'minimum', 'fmax', 'fmin') and len(args) == 2 and not kw:
                a_, b_ = self._as_arr(args[0]), self._as_arr(args[1])
                if isinstance(a_, Unk) or isinstance(b_, Unk):
                    return Unk(last, e)
                d_ = bdims(a_.dims, b_.dims)
                mk_ = _merge_mask(a_, b_)
                if isinstance(mk_, Unk):
                    return mk_
                dt_ = 'i' if all(v_.dt == 'i' or (v_.ndim == 0 and v_.poly.is_const() and v_.poly.const_value().denominator == 1) for v_ in (a_, b_)) and 'i' in (a_.dt, b_.dt) else None
                for x_, y_ in ((a_, b_), (b_, a_)):
                    el_ = self._concrete_elems(x_)
                    if el_ is not None and y_.ndim == 0 and mk_ is None:
                        # an array of a few known positions: position by position
                        big_ = last in ('maximum', 'fmax')
                        r_ = self._from_elems(x_, [e_ + (alg.lt(e_, y_.poly) if big_ else alg.lt(y_.poly, e_)) * (y_.poly - e_) for e_ in el_])
                        r_.dt = dt_
                        return r_
                if last in ('maximum', 'fmax'):
                    return Arr(d_, a_.poly + alg.lt(a_.poly, b_.poly) * (b_.poly - a_.poly), mk_, a_.unit if a_.unit is not None else b_.unit, dt=dt_)
                return Arr(d_, a_.poly + alg.lt(b_.poly, a_.poly) * (b_.poly - a_.poly), mk_, a_.unit if a_.unit is not None else b_.unit, dt=dt_)
            if last in ('full', 'full_like') and len(args) >= 2:
                base = self.libcall('numpy.zeros' if last == 'full' else 'numpy.zeros_like', [args[0]], {k_: v_ for k_, v_ in kw.items() if k_ == 'dtype'}, e, mod)
                fv = self._as_arr(args[1])
                if isinstance(base, Arr) and isinstance(fv, Arr) and fv.ndim == 0:
                    return Arr(base.dims, fv.poly, unit=fv.unit if fv.unit is not None else num(1), fresh=True, dt=base.dt if 'dtype' in kw else fv.dt)
                return Unk('np.%s' % last, e)
            if last == 'diff' and len(args) == 1 and not kw:
                x_ = self._as_arr(args[0])
                el_ = self._concrete_elems(x_)
                if (el_ is not None and len(el_) >= 1) or (isinstance(x_, Arr) and x_.ndim == 1 and x_.mask is None and x_.dims[0] in self.axis_len and self.axis_len[x_.dims[0]] >= 1):
                    # an array of a few known positions: the differences of neighbours, position by position (the same as x[1:] - x[:-1])
                    return self.binop(ast.Sub(), self.subscript(ast.parse('__d__[1:]', mode='eval').body, {'__d__': x_, '__module__': mod}, mod),
                                      self.subscript(ast.parse('__d__[:-1]', mode='eval').body, {'__d__': x_, '__module__': mod}, mod), e)
                if isinstance(x_, Arr) and x_.ndim == 1 and x_.dims[0] and x_.mask is None:
                    lab_ = x_.dims[0]            # x[1:] - x[:-1]
                    return Arr((lab_ + '~',), alg.relabel(x_.poly, lab_, lab_ + '~', '@+1') - alg.relabel(x_.poly, lab_, lab_ + '~', '@0'), unit=x_.unit)
                return Unk('np.diff', e)
            if name.endswith('multiply.outer') and len(args) == 2 and not kw:
                # out[i..., j...] = a[i...] * b[j...] for operands of any rank
                a_, b_ = self._as_arr(args[0]), self._as_arr(args[1])
                if isinstance(a_, Arr) and isinstance(b_, Arr) and a_.mask is None and b_.mask is None and not (set(d_ for d_ in a_.dims if d_) & set(d_ for d_ in b_.dims if d_)):
                    return Arr(tuple(a_.dims) + tuple(b_.dims), a_.poly * b_.poly, unit=_umul(a_.unit, b_.unit))
                return Unk('np.multiply.outer', e)
            if last == 'outer' and len(args) == 2 and not kw:
                a_, b_ = self._as_arr(args[0]), self._as_arr(args[1])
                if isinstance(a_, Arr) and isinstance(b_, Arr) and a_.ndim == 1 and b_.ndim == 1 and a_.dims[0] != b_.dims[0]:
                    mk_ = _merge_mask(a_, b_)              # rows / columns of a compressed selection stay those of the selection
                    if isinstance(mk_, Unk):
                        return mk_
                    return Arr((a_.dims[0], b_.dims[0]), a_.poly * b_.poly, mk_, unit=_umul(a_.unit, b_.unit))
                return Unk('np.outer', e)
            if last == 'dot' and len(args) == 2 and not kw:
                # contraction of the last axis of a with the first axis of b (1-D . 1-D, 2-D . 1-D, 1-D . 2-D, 2-D . 2-D)
                a_, b_ = self._as_arr(args[0]), self._as_arr(args[1])
                if isinstance(a_, Arr) and isinstance(b_, Arr) and a_.ndim >= 1 and b_.ndim >= 1 and a_.mask is None and b_.mask is None:
                    la, lb = a_.dims[-1], b_.dims[0] if b_.ndim <= 2 else None
                    if la is not None and la == lb and la not in a_.dims[:-1] and la not in b_.dims[1:]:
                        return Arr(tuple(a_.dims[:-1]) + tuple(b_.dims[1:]), alg.sum_over(a_.poly * b_.poly, la), unit=_umul(a_.unit, b_.unit))
                    if la is not None and lb is not None and la != lb:
                        raise LabelClash('np.dot contracts axis %r of the first operand with axis %r of the second' % (la, lb))
                return Unk('np.dot', e)
            if last == 'take' and len(args) >= 2:
                ax_ = kw.get('axis', args[2] if len(args) > 2 else None)
                a_, ix_ = self._as_arr(args[0]), self._as_arr(args[1])
                if isinstance(a_, Arr) and isinstance(ix_, Arr) and ix_.ndim == 1 and a_.mask is None and ix_.mask is None and (ax_ is None and a_.ndim == 1 or isinstance(ax_, int) and -a_.ndim <= ax_ < a_.ndim):
                    k_ = 0 if ax_ is None else ax_ % a_.ndim
                    lab_ = a_.dims[k_]
                    if lab_ is not None and ix_.dims[0] not in [d for j_, d in enumerate(a_.dims) if j_ != k_]:
                        dims_ = list(a_.dims)
                        dims_[k_] = ix_.dims[0]
                        return Arr(dims_, alg.mk_fn('at', B(lab_, a_.poly), P(ix_.poly)), unit=a_.unit)
                    if lab_ is not None and ix_.dims[0] is not None and (ix_.dims[0] + "'") not in a_.dims:
                        # the index runs over an axis the array also has: the result has both (outer product); the index's copy is primed, as for interp1d
                        d2_ = ix_.dims[0] + "'"
                        dims_ = list(a_.dims)
                        dims_[k_] = d2_
                        return Arr(dims_, alg.mk_fn('at', B(lab_, a_.poly), P(alg.relabel(ix_.poly, ix_.dims[0], d2_))), unit=a_.unit)
                return Unk('np.take', e)
            if last == 'take_along_axis' and len(args) >= 2:
                # out[i, 0, ...] = a[i, idx[i, 0], ...] for an index array with a length-1 axis in place of ``axis``
                ax_ = kw.get('axis', args[2] if len(args) > 2 else None)
                a_, ix_ = self._as_arr(args[0]), self._as_arr(args[1])
                if isinstance(a_, Arr) and isinstance(ix_, Arr) and isinstance(ax_, int) and -a_.ndim <= ax_ < a_.ndim and ix_.ndim == a_.ndim and a_.mask is None and ix_.mask is None:
                    k_ = ax_ % a_.ndim
                    lab_ = a_.dims[k_]
                    if lab_ is not None and ix_.dims[k_] is None and all(ix_.dims[j_] in (a_.dims[j_], None) for j_ in range(a_.ndim) if j_ != k_):
                        dims_ = list(a_.dims)
                        dims_[k_] = None
                        return Arr(dims_, alg.mk_fn('at', B(lab_, a_.poly), P(ix_.poly)), unit=a_.unit)
                return Unk('np.take_along_axis', e)
            if last in ('diagonal', 'transpose', 'swapaxes') and args and isinstance(self._as_arr(args[0]), Arr):
                return self.method(self._as_arr(args[0]), last, list(args[1:]), kw, e, mod)           # np.f(x, ...) is x.f(...)
            if last == 'broadcast_to' and len(args) == 2 and not (set(kw) - {'subok'}) and isinstance(args[1], Shape):
                # the same values seen with the (longer) shape of another array: the axes of x are the last axes of that shape
                x = self._as_arr(args[0])
                sd_ = tuple(args[1].dims)
                if isinstance(x, Arr) and x.mask is None and x.ndim <= len(sd_) and all(a_ == b_ or a_ is None for a_, b_ in zip(x.dims, sd_[len(sd_) - x.ndim:])) \
                        and not (set(sd_[:len(sd_) - x.ndim]) & alg.poly_labels(x.poly)):
                    return Arr(sd_, x.poly, None, x.unit)
                return Unk('np.broadcast_to', e)
            if last == 'putmask' and len(args) == 3 and isinstance(e, ast.Call) and len(e.args) == 3 and not kw:
                # np.putmask(a, mask, values): a[mask] = values, in place (values a scalar, or an array of a's shape taken where the mask holds)
                dst_, wm_, src_ = self._as_arr(args[0]), self._as_arr(args[1]), args[2]
                if isinstance(dst_, Arr) and isinstance(wm_, Arr) and _is_boolean(wm_.poly) and tuple(wm_.dims) == tuple(dst_.dims):
                    tgt_ = ast.Subscript(value=e.args[0], slice=e.args[1], ctx=ast.Store())
                    ast.copy_location(tgt_, e); ast.fix_missing_locations(tgt_)
                    if isinstance(src_, Arr) and src_.ndim >= 1 and src_.mask is not None:
                        # np.putmask(a, mask, values) takes values[n] for position n of a (a shorter vector is repeated): a vector with one value per
                        # *selected* element lands on other positions unless the selected elements are the first ones
                        raise LabelClash('np.putmask takes values[n] for position n of the array: a vector with one value per selected element (%s) is read at the '
                                         'positions of the whole array in %s' % (alg.show(src_.mask, 50), up(e)[:70]))
                    if isinstance(src_, Arr) and src_.ndim >= 1 and src_.mask is None:
                        src_ = src_.with_(mask=wm_.poly)
                    self.store_sub(tgt_, src_, self.frames[-1], mod)
                    return None
                return Unk('np.putmask', e)
            if last == 'copyto' and len(args) >= 2 and isinstance(e, ast.Call) and e.args:
                # np.copyto(dst, src, where=mask): dst[mask] = src (or dst[...] = src), in place
                wn_ = next((k_.value for k_ in e.keywords if k_.arg == 'where'), None)
                # the mask is broadcast against dst, i.e. aligned with its last axes:  dst[..., mask]
                dst_ = self._as_arr(args[0])
                wv_ = kw.get('where')
                lead_ = (dst_.ndim - wv_.ndim) if isinstance(dst_, Arr) and isinstance(wv_, Arr) else 0
                sl_ = ast.Constant(value=Ellipsis) if wn_ is None else (wn_ if lead_ <= 0 else ast.Tuple(elts=[ast.Slice() for _ in range(lead_)] + [wn_], ctx=ast.Load()))
                tgt_ = ast.Subscript(value=e.args[0], slice=sl_, ctx=ast.Store())
                ast.copy_location(tgt_, e); ast.fix_missing_locations(tgt_)
                src_ = args[1]
                wm_ = kw.get('where')
                if isinstance(wm_, Arr) and isinstance(src_, Arr) and src_.ndim >= 1 and src_.mask is None and _is_boolean(wm_.poly):
                    src_ = src_.with_(mask=wm_.poly)          # the elements of src at the positions where the mask holds
                self.store_sub(tgt_, src_, self.frames[-1], mod)
                return None
            if last == 'expand_dims' and len(args) + len(kw) == 2:
                x, ax_ = self._as_arr(args[0]), kw.get('axis', args[1] if len(args) > 1 else None)
                ax_ = (ax_,) if isinstance(ax_, int) and not isinstance(ax_, bool) else ax_
                if isinstance(x, Arr) and x.mask is None and isinstance(ax_, (tuple, list)) and all(isinstance(a_, int) and not isinstance(a_, bool) for a_ in ax_):
                    nd_ = x.ndim + len(ax_)
                    pos_ = sorted(a_ + nd_ if a_ < 0 else a_ for a_ in ax_)
                    if len(set(pos_)) == len(pos_) and all(0 <= a_ < nd_ for a_ in pos_):
                        it_, dims_ = iter(x.dims), []
                        for k_ in range(nd_):
                            dims_.append(None if k_ in pos_ else next(it_))
                        return x.with_(dims=tuple(dims_))          # axes of one position inserted where asked for
                return Unk('np.expand_dims', e)
            if last == 'take_along_axis' and len(args) + len(kw) == 3:
                v_, ix_, ax_ = self._as_arr(args[0]), self._as_arr(args[1]), kw.get('axis', args[2] if len(args) > 2 else None)
                if isinstance(v_, Arr) and isinstance(ix_, Arr) and v_.mask is None and ix_.mask is None and isinstance(ax_, int) and not isinstance(ax_, bool) and v_.ndim == ix_.ndim:
                    ax_ = ax_ + v_.ndim if ax_ < 0 else ax_
                    lab_ = v_.dims[ax_] if 0 <= ax_ < v_.ndim else None
                    others_ok = all(d_ is None or d_ == v_.dims[k_] for k_, d_ in enumerate(ix_.dims) if k_ != ax_)
                    if lab_ is not None and ix_.dims[ax_] is None and others_ok and lab_ not in alg.poly_labels(ix_.poly):
                        # one position taken along the axis for every position of the others: values[..., index[...], ...]
                        dims_ = tuple(None if k_ == ax_ else d_ for k_, d_ in enumerate(v_.dims))
                        return Arr(dims_, alg.mk_fn('at', B(lab_, v_.poly), P(ix_.poly)), None, v_.unit, dt=v_.dt)
                return Unk('np.take_along_axis', e)
            if last == 'clip':
                x, lo, hi = [self._as_arr(v) for v in (args[0], kw.get('a_min', args[1] if len(args) > 1 else None), kw.get('a_max', args[2] if len(args) > 2 else None))]
                if any(isinstance(v, Unk) for v in (x, lo, hi)):
                    return Unk('clip', e)
                el_ = self._concrete_elems(x)
                if el_ is not None and lo.ndim == 0 and hi.ndim == 0:
                    # an array of a few known positions: clipped position by position (no brackets of sums over the positions)
                    return self._from_elems(x, [e_ + alg.lt(e_, lo.poly) * (lo.poly - e_) + alg.lt(hi.poly, e_) * (hi.poly - e_) for e_ in el_])
                d = bdims(bdims(x.dims, lo.dims), hi.dims)
                p = x.poly + alg.lt(x.poly, lo.poly) * (lo.poly - x.poly) + alg.lt(hi.poly, x.poly) * (hi.poly - x.poly)
                return Arr(d, p, x.mask, x.unit)
            if last == 'asanyarray':
                last = 'asarray'
            if last in ('array', 'asarray', 'float64', 'float32', 'int32', 'int64', 'atleast_1d', 'ascontiguousarray'):
                x = args[0]
                if isinstance(x, (list, tuple)):
                    return self._list_to_arr(x)
                if isinstance(x, Foreign) and hasattr(x, 'as_value'):
                    x = x.as_value()
                if isinstance(x, Fraction) and last in ('int32', 'int64'):
                    return int(x)
                if isinstance(x, Arr) and last in ('array', 'asarray', 'ascontiguousarray') and _narrow_float(kw.get('dtype', args[1] if len(args) > 1 else None)) and x.mask is None and x.dt != 'i':
                    return x.with_(poly=alg.mk_fn('narrow', P(x.poly)), dt='f')          # (see astype)
                if isinstance(x, Arr) and last == 'float32' and x.mask is None:
                    return x.with_(poly=alg.mk_fn('narrow', P(x.poly)), dt='f')
                if isinstance(x, (Arr, int, float)):
                    r_ = self._as_arr(x) if last not in ('int32', 'int64') else self._int(x, e)
                    if isinstance(r_, Arr) and last in ('array', 'asarray', 'ascontiguousarray') and r_.unit is not None and not (r_.unit == num(1)) and not kw.get('subok'):
                        # np.array / np.asarray of a Quantity is a plain array of its values in the unit it is stored in (the unit is dropped)
                        r_ = r_.with_(poly=r_.poly * r_.unit.pow(-1), unit=num(1))
                    if isinstance(r_, Arr) and r_.ndim == 0:
                        if last == 'atleast_1d':
                            r_ = r_.with_(dims=(None,))          # an array of one element
                        elif last in ('array', 'asarray', 'ascontiguousarray'):
                            r_ = r_.with_()
                            r_.arr0 = True          # a 0-d array: the same value, but not a scalar for np.isscalar
                    return r_
                if isinstance(x, GenList) and last in ('array', 'asarray') and isinstance(x.elem, Arr) and x.elem.mask is None and x.label not in x.elem.dims:
                    # a list built with one element per position of an axis, made into an array over that axis
                    return Arr((x.label,) + tuple(x.elem.dims), x.elem.poly, unit=x.elem.unit)
                return Unk('np.%s(%r)' % (last, x), e)
            if last == 'interp':
                a = [self._list_to_arr(v) if isinstance(v, (list, tuple)) else self._as_arr(v) for v in args[:3]]          # (a list of query points is an array of them)
                if any(isinstance(v, Unk) for v in a) or len(a) < 3:
                    return Unk('np.interp arguments', e)
                extra = []
                for kname in ('left', 'right'):
                    if kname in kw and kw[kname] is not None:
                        kv = self._as_arr(kw[kname])
                        if isinstance(kv, Unk):
                            return kv
                        extra.append(C('%s=%s' % (kname, alg.show(kv.poly))))
                xp, fp = a[1], a[2]
                if xp.ndim != 1 or fp.ndim != 1 or xp.dims != fp.dims:
                    raise LabelClash('np.interp table axes %s vs %s' % (xp.dims, fp.dims))
                return Arr(a[0].dims, _linear_fn('interp', a[0].poly, xp.dims[0], xp.poly, fp.poly, extra), unit=fp.unit)
            if last == 'searchsorted':
                a = [self._as_arr(v) for v in args[:2]]
                if any(isinstance(v, Unk) for v in a):
                    return Unk('searchsorted', e)
                side_ = kw.get('side', args[2] if len(args) > 2 else 'left')
                so_ = kw.get('sorter', args[3] if len(args) > 3 else None)
                if so_ is not None and side_ == 'left' and isinstance(so_, Arr) and a[0].ndim == 1 and a[0].dims[0] and so_.dims == a[0].dims \
                        and so_.poly == alg.array_fn('argsort', a[0].dims[0], a[0].poly):
                    # searched through its own argsort: the rank of the query among the sorted keys
                    return Arr(a[1].dims, alg.mk_fn('rank', B(a[0].dims[0], a[0].poly), P(a[1].poly)), unit=num(1))
                if side_ not in ('left', 'right') or so_ is not None:
                    return Unk('searchsorted with side=%r / sorter' % (side_,), e)
                extra_ = [C('right')] if side_ == 'right' else []          # side='right' counts the knots that are <= the query, side='left' those that are <
                r_ss = Arr(a[1].dims, alg.mk_fn('searchsorted', B(a[0].dims[0] if a[0].ndim else None, a[0].poly), P(a[1].poly), *extra_), unit=num(1))
                if self.track_xr and a[0].ndim == 1 and a[1].ndim == 0:
                    # a bisection is a count in the order numpy sorts by (NaN last): the tree of that comparison, for the class evaluation of xreal.py
                    self.xr_log.append((r_ss.poly, 'searchsorted', ('cmp', 'TotLtE' if side_ == 'right' else 'TotLt', _xr(a[0]), _xr(a[1]))))
                return r_ss
            if last == 'linspace' and len(args) >= 3 and not kw:
                # n evenly spaced points from a to b: element i is a + i*(b - a)/(n - 1) (a single point is a); the axis is the one created with that count, if any
                a = [self._as_arr(v) for v in args[:3]]
                if all(isinstance(v, Arr) and v.ndim == 0 for v in a):
                    if a[2].poly.is_const() and a[2].poly.const_value() == 1:
                        return Arr((None,), a[0].poly, unit=a[0].unit)
                    lab = _len_label(a[2].poly) or next((l_ for l_, c_ in self.axis_count.items() if c_ == a[2].poly), None)
                    if lab is not None:
                        return Arr((lab,), a[0].poly + alg.mk_fn('arange', L(lab)) * (a[1].poly - a[0].poly) * (a[2].poly - 1).pow(-1), unit=a[0].unit)
                return Unk('np.linspace', e)
            if last == 'logspace':
                a = [self._as_arr(v) for v in args[:3]]
                if any(isinstance(v, Unk) for v in a) or len(a) < 3:
                    return Unk('logspace', e)
                extra = [C('%s=%s' % (k, v)) for k, v in sorted(kw.items())]
                self.axis_count['d'] = a[2].poly          # the axis has as many positions as logspace was asked for
                return Arr(('d',), alg.mk_fn('logspace', L('d'), P(a[0].poly), P(a[1].poly), P(a[2].poly), *extra), unit=num(1), fresh=True)
            if last in ('hstack', 'concatenate', 'vstack') and args and isinstance(args[0], (list, tuple)) and args[0] and not kw.get('axis') \
                    and all(isinstance(x, Arr) and x.ndim >= 1 for x in args[0]):
                r_ = self._concat_slices(list(args[0]), last)
                if r_ is not None:
                    return r_
            if last in ('hstack', 'concatenate') and args and isinstance(args[0], (list, tuple)) and args[0] and not kw.get('axis'):
                # numbers and 1-d arrays of known length laid end to end: an array over a fresh axis that counts positions
                elems_, unit_, ok_ = [], None, True
                for x_ in args[0]:
                    a_ = self._as_arr(x_)
                    if not isinstance(a_, Arr) or a_.mask is not None or a_.ndim > 1:
                        ok_ = False
                        break
                    if a_.ndim == 1:
                        n_ = 1 if a_.dims[0] is None else self.axis_len.get(a_.dims[0])
                        if n_ is None or n_ > 64:
                            ok_ = False
                            break
                        elems_ += [a_.poly if a_.dims[0] is None else alg.index_at(a_.poly, a_.dims[0], num(j_)) for j_ in range(n_)]
                    else:
                        elems_.append(a_.poly)
                    if unit_ is None:
                        unit_ = a_.unit
                    elif a_.unit is not None and not (a_.unit == unit_):
                        ok_ = False
                        break
                if ok_ and len(elems_) <= 64:
                    self._n_lists = getattr(self, '_n_lists', 0) + 1
                    lab_ = 'pos#%d' % self._n_lists
                    self.axis_len[lab_] = len(elems_)
                    run_ = alg.sym('idx:' + lab_, lab_)
                    p_ = Poly()
                    for j_, e_ in enumerate(elems_):
                        p_ = p_ + alg.mk_ind('==0', run_ - num(j_)) * e_
                    return Arr((lab_,), p_, unit=unit_)
            if last == 'hstack' or last == 'concatenate':
                parts = args[0] if args and isinstance(args[0], (list, tuple)) else []
                sel = [x for x in parts if isinstance(x, _SelIdx)]
                full = [x for x in parts if isinstance(x, _WhereIdx) or (isinstance(x, Arr) and x.ndim == 1)]
                if sel and full:
                    lab = sel[0].label
                    self.findings.append(Finding('label-clash', 'positions counted within a compressed selection of axis %r (%s of the selected elements) are concatenated with '
                                                 'positions on the full axis: the two index spaces differ whenever an unselected element precedes a selected one' % (lab, sel[0].what), e, mod.path))
                    return Unk('index spaces mixed in %s' % last, e, definite=True)
                return Unk('hstack', e)
            if last == 'isreal' and len(args) == 1:
                x = args[0]
                if isinstance(x, Arr) or (_is_pynum(x) and not isinstance(x, complex)):
                    return True            # the arrays modelled here hold real numbers
                return Unk('np.isreal(%r)' % (x,), e)
            if last == 'isscalar':
                x = args[0]
                if isinstance(x, Arr):
                    return x.ndim == 0 and not getattr(x, 'arr0', False)
                return _is_pynum(x)
            if last == 'tile' and len(args) == 2 and not kw:
                x, k = self._as_arr(args[0]), self._as_arr(args[1])
                if isinstance(x, Arr) and x.mask is None and isinstance(k, Arr) and k.ndim == 0 and _len_label(k.poly):
                    r_ = _Repeat(x, _len_label(k.poly))
                    r_.tiled = True            # the whole of x, k times over:  out[j*n + i] == x[i]
                    return r_
                return Unk('np.tile', e)
            if last in ('repeat', 'tile') and len(args) == 2 and 'axis' not in kw and isinstance(args[1], int) and not isinstance(args[1], bool) and 1 <= args[1] <= 16 \
                    and isinstance(self._as_arr(args[0]), Arr) and self._as_arr(args[0]).mask is None:
                # a concrete number of copies: a fresh axis of that many positions
                self._n_lists = getattr(self, '_n_lists', 0) + 1
                lab_ = 'rep#%d' % self._n_lists
                self.axis_len[lab_] = args[1]
                r_ = _Repeat(self._as_arr(args[0]), lab_)
                r_.tiled = last == 'tile'
                return r_
            if last == 'repeat' and len(args) == 2 and 'axis' not in kw and isinstance(args[1], Shape) and len(args[1].dims) == 1:
                # np.repeat(value, x.shape) for a 1-d x: the value at every position of x's axis
                x = self._as_arr(args[0])
                if isinstance(x, Arr) and x.ndim == 0 and x.mask is None:
                    return Arr((args[1].dims[0],), x.poly, unit=x.unit)
                return Unk('np.repeat', e)
            if last == 'repeat' and len(args) == 2 and 'axis' not in kw:
                x, k = self._as_arr(args[0]), self._as_arr(args[1])
                if isinstance(x, Arr) and x.mask is None and isinstance(k, Arr) and k.ndim == 0 and _len_label(k.poly):
                    return _Repeat(x, _len_label(k.poly))
                return Unk('np.repeat', e)
            if last == 'repeat' and len(args) >= 2 and isinstance(kw.get('axis', args[2] if len(args) > 2 else None), int):
                # np.repeat(x, k, axis=ax) along an axis of length one: out[..., j, ...] == x[..., 0, ...] for the k positions j
                x, k = self._as_arr(args[0]), self._as_arr(args[1])
                ax_ = kw.get('axis', args[2] if len(args) > 2 else None)
                if isinstance(x, Arr) and x.mask is None and isinstance(args[1], int) and not isinstance(args[1], bool) and 1 <= args[1] <= 16 and -x.ndim <= ax_ < x.ndim:
                    # a concrete number of copies along an axis of one position: a fresh axis of that many positions
                    ax_ %= x.ndim
                    lab_ = x.dims[ax_]
                    if lab_ is None or self.axis_len.get(lab_) == 1:
                        d_ = list(x.dims)
                        if args[1] == 1:
                            d_[ax_] = None
                        else:
                            self._n_lists = getattr(self, '_n_lists', 0) + 1
                            d_[ax_] = 'rep#%d' % self._n_lists
                            self.axis_len[d_[ax_]] = args[1]
                        return x.with_(dims=tuple(d_), poly=x.poly if lab_ is None else alg.mk_fn('at', B(lab_, x.poly), P(Poly())))
                if isinstance(x, Arr) and x.mask is None and isinstance(k, Arr) and k.ndim == 0 and _len_label(k.poly) and -x.ndim <= ax_ < x.ndim:
                    ax_ %= x.ndim
                    lab_, new_ = x.dims[ax_], _len_label(k.poly)
                    if new_ not in x.dims and (lab_ is None or self.axis_len.get(lab_) == 1):
                        d_ = list(x.dims)
                        d_[ax_] = new_
                        return x.with_(dims=tuple(d_), poly=x.poly if lab_ is None else alg.mk_fn('at', B(lab_, x.poly), P(Poly())))
                return Unk('np.repeat along an axis whose length is not known to be one', e)
            if last == 'repeat':
                return Unk('np.repeat', e)
            if last == 'unique':
                return Unk('np.unique', e)
            return Unk('numpy.%s' % last, e)
        if root == 'builtins':
            if last in ('all', 'any') and len(args) == 1 and isinstance(args[0], (list, tuple)) and not kw:
                # all / any of a concrete sequence of truth values: decided when every one is, else their conjunction / disjunction
                tv_ = [self._truth(x_) for x_ in args[0]]
                if all(t_ is not None for t_ in tv_):
                    return (all if last == 'all' else any)(tv_)
                if (last == 'all' and any(t_ is False for t_ in tv_)) or (last == 'any' and any(t_ is True for t_ in tv_)):
                    return last == 'any'
                p_ = Poly.const(1) if last == 'all' else Poly()
                for x_, t_ in zip(args[0], tv_):
                    if t_ is not None:
                        continue
                    if not (isinstance(x_, Arr) and x_.ndim == 0 and x_.mask is None and _is_boolean(x_.poly)):
                        return Unk('%s of a sequence holding %r' % (last, x_), e)
                    p_ = p_ * x_.poly if last == 'all' else alg.b_or(p_, x_.poly)
                return Arr((), p_)
            if last == 'len':
                x = args[0]
                if isinstance(x, (list, tuple, dict, str)):
                    return len(x)
                if isinstance(x, Foreign):
                    r = x.sl_len(self)
                    return Unk('len of %s' % type(x).__name__, e) if r is NotImplemented else r
                if isinstance(x, Arr) and x.ndim >= 1 and x.mask is not None and x.dims[0] and x.dims[0] in alg.poly_labels(x.mask):
                    if alg.poly_labels(x.mask) == {x.dims[0]}:
                        return Arr((), alg.sum_over(x.mask, x.dims[0]), unit=num(1))          # a compressed selection has as many elements as the mask holds
                    return Unk('len of a selection by a mask over several axes', e)
                if isinstance(x, Arr) and x.ndim >= 1 and x.dims[0] in self.axis_len:
                    return self.axis_len[x.dims[0]]            # the configuration being analysed fixes the length of this axis
                if isinstance(x, Arr) and x.ndim >= 1 and x.dims[0] in self.axis_count:
                    return Arr((), self.axis_count[x.dims[0]], unit=num(1))          # the axis was created with this many positions
                if isinstance(x, Arr) and x.ndim >= 1:
                    return Arr((), alg.count(x.dims[0]), unit=num(1)) if x.dims[0] else 1
                if isinstance(x, GenList):
                    return Arr((), alg.count(x.label), unit=num(1))
                if isinstance(x, SymTable):
                    return Arr((), alg.count(x.label), unit=num(1))
                return Unk('len(%r)' % (x,), e)
            if last == 'range':
                if any(isinstance(a_, float) for a_ in args):
                    # range() takes whole numbers only: a float - even a whole one, 2.0 - is a TypeError
                    raise PyRaise('TypeError', "'float' object cannot be interpreted as an integer (%s)" % up(e)[:60])
                if len(args) == 1:
                    n = args[0]
                    if isinstance(n, int):
                        return list(range(n)) if n <= 64 else Unk('long range', e)
                    lab = _len_label(n.poly) if isinstance(n, Arr) else None
                    if lab:
                        return _Range(lab)
                if len(args) == 3 and args[2] == 0 and not isinstance(args[2], bool):
                    raise PyRaise('ValueError', 'range() arg 3 must not be zero')
                if len(args) in (2, 3) and all(isinstance(a_, int) and not isinstance(a_, bool) for a_ in args):
                    r_ = range(*args)
                    return list(r_) if len(r_) <= 64 else Unk('long range', e)
                return Unk('range%r' % (tuple(args),), e)
            if last == 'zip' and len(args) >= 2 and set(kw) <= {'strict'} and isinstance(kw.get('strict', False), bool):
                if kw.get('strict') and all(isinstance(x, (list, tuple)) for x in args) and len({len(x) for x in args}) > 1:
                    raise PyRaise('ValueError', 'zip() arguments have different lengths (%s)' % up(e)[:60])
                args = [(x.sl_iter(self) if isinstance(x, Foreign) and x.sl_iter(self) is not NotImplemented else x) for x in args]
                if all(isinstance(x, (list, tuple)) for x in args):
                    return [tuple(r) for r in zip(*args)]
                labs = set()
                for x in args:
                    if isinstance(x, GenList):
                        labs.add(x.label)
                    elif isinstance(x, Arr) and x.ndim >= 1 and x.dims[0]:
                        labs.add(x.dims[0])
                    elif isinstance(x, _Range) and x.label:
                        labs.add(x.label)
                    elif isinstance(x, SymTable):
                        labs.add(x.label)
                    else:
                        return Unk('zip of %r' % (x,), e)
                if len(labs) != 1:
                    return Unk('zip of sequences indexed by different axes %s' % sorted(map(str, labs)), e)
                return _Zip(list(args), labs.pop())
            if last == 'enumerate' and (len(args) > 1 or 'start' in kw):
                st_ = kw.get('start', args[1] if len(args) > 1 else 0)
                r_ = self.libcall('builtins.enumerate', [args[0]], {}, e, mod)
                if isinstance(r_, _Enumerate) and isinstance(st_, int) and not isinstance(st_, bool):
                    r_.start = st_
                    return r_
                return Unk('enumerate with a start', e)
            if last == 'enumerate':
                x = args[0]
                if isinstance(x, (list, tuple)):
                    return _Enumerate(list(x), None)
                if isinstance(x, GenList):
                    return _Enumerate(x, x.label)
                if isinstance(x, Arr) and x.ndim >= 1:
                    return _Enumerate(x, x.dims[0])
                if isinstance(x, _WhereIdx):
                    return _Enumerate(x, None)
                if isinstance(x, _Zip):
                    return _Enumerate(x, x.label)
                return Unk('enumerate', e)
            if last in ('int', 'float'):
                return self._int(args[0], e) if last == 'int' else (self._as_arr(args[0]) if not _is_pynum(args[0]) else float(args[0]))
            if last in ('min', 'max') and len(args) == 2 and all(_is_pynum(a_) and not isinstance(a_, bool) for a_ in args):
                return (min if last == 'min' else max)(args[0], args[1])
            if last in ('min', 'max') and len(args) == 2:
                a, b = self._as_arr(args[0]), self._as_arr(args[1])
                if isinstance(a, Unk) or isinstance(b, Unk):
                    return Unk(last, e)
                if a.poly.is_const() and b.poly.is_const():
                    f = min if last == 'min' else max
                    return Arr((), num(f(a.poly.const_value(), b.poly.const_value())), unit=a.unit)
                if last == 'min':
                    return Arr((), a.poly + alg.lt(b.poly, a.poly) * (b.poly - a.poly), unit=a.unit)
                return Arr((), a.poly + alg.lt(a.poly, b.poly) * (b.poly - a.poly), unit=a.unit)
            if last == 'object' and not args and not kw:
                return Obj(None, {}, 'sentinel')             # object(): a value equal only to itself
            if last == 'isinstance':
                return self._isinstance(args[0], args[1], e)
            if last == 'slice' and 1 <= len(args) <= 3 and not kw:
                a_ = [None, None, None]
                if len(args) == 1:
                    a_[1] = args[0]
                else:
                    a_[:len(args)] = args
                return _SliceVal(*a_)
            if last in ('getattr', 'setattr', 'hasattr') and len(args) >= 2 and isinstance(args[0], Obj) and isinstance(args[1], str):
                o_, n_ = args[0], args[1]
                if last == 'setattr' and len(args) == 3:
                    self.setattr(o_, n_, args[2], e, mod)
                    return None
                if last == 'hasattr':
                    return n_ in o_.attrs or (o_.cls is not None and self.repo.find_member(o_.cls, n_) is not None)
                if last == 'getattr':
                    r_ = self.getattr(o_, n_, e, mod)
                    if isinstance(r_, Unk) and len(args) == 3 and 'unknown attribute' in r_.why:
                        return args[2]
                    return r_
            if last in ('getattr', 'setattr', 'delattr') and args and isinstance(args[0], Obj):
                # attribute chosen by a name the analysis does not know: any attribute of the object may have changed
                if last != 'getattr':
                    for k_ in list(args[0].attrs):
                        args[0].attrs[k_] = Unk('attribute possibly rebound by %s() with a computed name' % last, e)
                return Unk('%s with a computed attribute name' % last, e)
            if last == 'bool' and len(args) == 1:
                x = args[0]
                if x is None or isinstance(x, (bool, int, float, str, list, tuple, dict)):
                    return bool(x)
                if isinstance(x, Arr) and x.ndim == 0 and x.mask is None and any(x.poly == z_ for z_ in self.nonzero):
                    return True          # (a number the configuration takes to be non-zero)
                if isinstance(x, Arr) and x.ndim == 0 and x.mask is None:
                    return Arr((), alg.b_not(alg.mk_ind('==0', x.poly)))
                return Unk('bool(%r)' % (x,), e)
            if last == 'type' and len(args) == 1:
                x = args[0]
                for t_ in (bool, int, float, str, list, tuple, dict):
                    if type(x) is t_:
                        return Marker('builtins.' + t_.__name__)
                if x is None:
                    return Marker('builtins.NoneType')
                if isinstance(x, Fraction):
                    return Marker('builtins.float')
                if isinstance(x, Arr):
                    return Marker('astropy.units.Quantity' if (x.unit is not None and not (x.unit == num(1))) else 'numpy.ndarray')
                if isinstance(x, Obj) and x.cls is not None:
                    return ClassRef(x.cls)
                return Unk('type()', e)
            if last == 'type':
                return Unk('type()', e)
            if last in ('print',):
                return None
            if last in ('abs',):
                x = self._as_arr(args[0])
                return x.with_(poly=alg.mk_fn('abs', P(x.poly))) if isinstance(x, Arr) else x
            if last in ('list', 'tuple'):
                if args and isinstance(args[0], dict):
                    return list(args[0])
                if args and isinstance(args[0], (list, tuple)):
                    return list(args[0]) if last == 'list' else tuple(args[0])
                return args[0] if args else ([] if last == 'list' else ())
            if last == 'dict':
                d_ = {}
                if args:
                    if isinstance(args[0], dict):
                        d_.update(args[0])
                    elif isinstance(args[0], (list, tuple)) and all(isinstance(p_, (list, tuple)) and len(p_) == 2 and isinstance(p_[0], (str, int)) for p_ in args[0]):
                        d_.update({p_[0]: p_[1] for p_ in args[0]})
                    else:
                        return Unk('dict(%r)' % (args[0],), e)
                d_.update(kw)
                return d_
            if last == 'format' and len(args) == 2 and isinstance(args[1], str) and not kw:
                if isinstance(args[0], (str, int, float)) and not isinstance(args[0], bool):
                    try:
                        return format(args[0], args[1])
                    except (ValueError, TypeError) as ex_:
                        raise PyRaise(type(ex_).__name__, str(ex_))
                if isinstance(args[0], (Arr, Foreign)):
                    r_ = _brace_format('{0:%s}' % args[1], [args[0]])          # format(v, spec) is '{0:spec}'.format(v)
                    if r_ is not None:
                        return r_
                return Unk('format(%r, %r)' % (args[0], args[1]), e)
            if last == 'sorted' and args and isinstance(args[0], (list, tuple, dict)) and not kw and all(isinstance(x_, (str, int, float)) for x_ in args[0]):
                return sorted(args[0])
            if last == 'reversed' and args and isinstance(args[0], (list, tuple)):
                return list(reversed(args[0]))
            if last == 'divmod' and len(args) == 2 and all(isinstance(a_, int) and not isinstance(a_, bool) for a_ in args) and args[1] != 0:
                return divmod(args[0], args[1])
            if last == 'fromkeys' and 1 <= len(args) <= 2 and isinstance(args[0], (list, tuple)) and all(isinstance(x_, (str, int)) for x_ in args[0]):
                return {k_: (args[1] if len(args) > 1 else None) for k_ in args[0]}          # dict.fromkeys(names[, value])
            return Unk('builtin %s' % last, e)
        if name.startswith('astropy.units'):
            if last == 'Quantity' and args:
                x = self._as_arr(args[0])
                un_ = args[1] if len(args) > 1 else kw.get('unit')
                if un_ is not None and isinstance(x, Arr):
                    uu = self._as_arr(un_)
                    if isinstance(uu, Arr):
                        if x.unit is not None and x.unit != num(1):
                            self._unit_kind_check(x, uu, e, mod, 'Quantity(quantity, unit)')
                            return x.with_(unit=uu.poly)          # a quantity given another unit is converted: the same physical value
                        return Arr(x.dims, x.poly * uu.poly, x.mask, uu.poly)
                return x
            if last in ('spectral', 'spectral_density'):
                return Marker(name)
            return Unk('astropy.units.%s' % last, e)
        if name.startswith('math.') and args and all(_is_pynum(a_) and not isinstance(a_, bool) for a_ in args) and not kw and last in (
                'floor', 'ceil', 'sqrt', 'log', 'log10', 'exp', 'fabs', 'pow', 'trunc', 'isnan', 'isinf', 'isfinite'):
            import math as _math
            try:
                return getattr(_math, last)(*[float(a_) if isinstance(a_, Fraction) else a_ for a_ in args])          # of plain numbers: computed
            except (ValueError, OverflowError, ZeroDivisionError) as ex_:
                raise PyRaise(type(ex_).__name__, str(ex_))
        if name == 'contextlib.closing' and len(args) == 1:
            return _Closing(args[0])
        if name.startswith('copy.') and last in ('copy', 'deepcopy') and args and isinstance(args[0], Obj) and args[0].cls is not None:
            src_ = args[0]
            gs_, ss_ = self.repo.find_member(src_.cls, '__getstate__'), self.repo.find_member(src_.cls, '__setstate__')
            if gs_ is not None and ss_ is not None and gs_[0] == 'method' and ss_[0] == 'method':
                # the copy protocol of a class with its own pickling state: new object, state taken from the original and restored into it
                state_ = self.call(gs_[1], [], selfv=src_, node=e)
                if last == 'deepcopy':
                    state_ = _copy_val(state_, {})
                new_ = Obj(src_.cls, {}, src_.name)
                new_.strict = src_.strict
                r_ = self.call(ss_[1], [state_], selfv=new_, node=e)
                return r_ if isinstance(r_, Unk) else new_
        if name.startswith('copy.') and last == 'copy' and args and isinstance(args[0], Obj):
            o_ = Obj(args[0].cls, dict(args[0].attrs), args[0].name)          # shallow: a new object holding the same attribute values
            return o_
        if name.startswith('copy.') and last == 'copy' and args and type(args[0]) in (list, dict, tuple, set):
            return type(args[0])(args[0])          # shallow: a new container holding the same elements
        if name.startswith('copy.') and last in ('copy', 'deepcopy'):
            return _copy_val(args[0], {})
        if name in ('scipy.interpolate.interp1d', 'scipy.interpolate.interpolate.interp1d'):
            return self._interp1d(args, kw, e, mod)
        return Unk('external call %s' % name, e)

    def _interp1d(self, args, kw, e, mod):
        x, y = [self._as_arr(v) for v in args[:2]]
        if isinstance(x, Unk) or isinstance(y, Unk):
            return Unk('interp1d arguments', e)
        kw = dict(kw)
        axis = kw.pop('axis', -1)
        if isinstance(axis, Arr) and axis.ndim == 0 and axis.poly.is_const():
            axis = int(axis.poly.const_value())
        if not isinstance(axis, int) or not -y.ndim <= axis < max(y.ndim, 1):
            return Unk('interp1d axis', e)
        axis %= y.ndim
        if axis != y.ndim - 1:
            # the table is interpolated along another axis than the last: the same as moving that axis last; scipy puts the query's axes where it was
            d_ = list(y.dims)
            y = y.with_(dims=tuple(d_[:axis] + d_[axis + 1:] + [d_[axis]]))
        if x.ndim != 1 or y.ndim < 1 or y.dims[-1] != x.dims[0]:
            raise LabelClash('interp1d abscissa axis %s vs interpolated axis of values %s' % (x.dims, y.dims))
        opts = tuple(sorted((k, repr(v) if not isinstance(v, Arr) else alg.show(v.poly)) for k, v in kw.items()))
        r_ = _Interp1d(x, y, opts)
        r_.axis = axis
        return r_

    def _int(self, x, node):
        if _is_pynum(x):
            return int(x)
        x = self._as_arr(x)
        if isinstance(x, Unk):
            return x
        if x.poly.is_const():
            return int(x.poly.const_value())
        if x.ndim == 0 and x.mask is None and alg.is_integer_valued(x.poly):
            return x                      # a count is an integer already
        return x.with_(poly=alg.mk_fn('int', P(x.poly)))

    def _isinstance(self, v, t, node):
        names = []
        for x in (t if isinstance(t, tuple) else (t,)):
            if isinstance(x, Marker):
                names.append(x.name.split('.')[-1])
            elif isinstance(x, ClassRef):
                names.append(x.ci.name)
            else:
                return Unk('isinstance type', node)
        if isinstance(v, Obj) and v.cls is not None:
            mro = {c.name for c in self.repo.mro(v.cls)}
            return bool(mro & set(names))
        if isinstance(v, bool):
            return bool({'bool', 'int'} & set(names))
        if isinstance(v, int):
            return 'int' in names
        if isinstance(v, float):
            return 'float' in names
        if v is None:
            return 'NoneType' in names
        if isinstance(v, str):
            return 'str' in names
        if isinstance(v, (list, tuple)):
            return bool({'list', 'tuple'} & set(names))
        if isinstance(v, Foreign) and set(names) <= {'str', 'int', 'float', 'bool', 'list', 'tuple', 'dict', 'bytes', 'NoneType', 'ndarray', 'Quantity'}:
            return bool(set(names) & set(getattr(v, 'py_types', ())))          # a modelled library object is none of the plain data types, unless it says so
        if isinstance(v, Arr):
            if 'Quantity' in names and len(names) == 1:
                if v.unit is None:
                    return Unk('isinstance(Quantity) of a value with untracked unit', node)
                return not (v.unit == num(1))
            if 'ndarray' in names:
                return True
            return False
        return Unk('isinstance of %r' % (v,), node)

    # ---- methods of symbolic values
    def method(self, recv, name, args, kw, e, mod):
        if isinstance(recv, _ArrSelect):
            return merge_val(self.method(recv.a, name, args, kw, e, mod), self.method(recv.b, name, args, kw, e, mod), recv.cond, e)
        if isinstance(recv, bytes) and name == 'join' and len(args) == 1 and isinstance(args[0], (list, tuple)) and all(isinstance(x_, Foreign) for x_ in args[0]):
            return BytesSeq(list(args[0]))          # pieces of binary data laid end to end (each piece a modelled object, e.g. the bytes of one pickle)
        if isinstance(recv, Foreign) and any(isinstance(a_, _SelectVal) for a_ in args):
            # an argument chosen between two values by a data-dependent condition: the call is made with each under its condition
            k_ = next(i_ for i_, a_ in enumerate(args) if isinstance(a_, _SelectVal))
            sv_ = args[k_]
            for c_, v_ in ((sv_.cond, sv_.a), (alg.b_not(sv_.cond), sv_.b)):
                self.conds.append(c_)
                try:
                    self.method(recv, name, list(args[:k_]) + [v_] + list(args[k_ + 1:]), kw, e, mod)
                finally:
                    self.conds.pop()
            return None
        if isinstance(recv, Foreign):
            r = recv.sl_method(self, name, args, kw, e)
            return Unk('method %s of %s' % (name, type(recv).__name__), e) if r is NotImplemented else r
        if isinstance(recv, _Repeat):
            # np.repeat(x, k) flattens x and repeats every element k times; .reshape(n, k) with n = len of x's first axis is then
            # defined only when x has n elements in all, and gives out[i, j] == x[i, 0, ...]; .reshape(k, n) interleaves the rows
            if name == 'reshape':
                sh = list(args[0]) if len(args) == 1 and isinstance(args[0], (tuple, list)) else list(args)
                labs = [(_len_label(v.poly) if isinstance(v, Arr) and v.ndim == 0 else None) for v in map(self._as_arr, sh)]
                for k_, v_ in enumerate(sh):
                    # a concrete extent names the axis that has that many positions: the copies' axis, or the (known) axis of x
                    if labs[k_] is None and isinstance(v_, int) and not isinstance(v_, bool):
                        cands_ = [l_ for l_ in (recv.label, recv.x.dims[0] if recv.x.ndim else None) if l_ is not None and self.axis_len.get(l_) == v_ and l_ not in labs]
                        if len(cands_) == 1:
                            labs[k_] = cands_[0]
                x = recv.x
                if getattr(recv, 'tiled', False) and len(labs) == 2 and None not in labs and x.ndim == 1 and x.dims[0]:
                    # np.tile(x, k).reshape(k, n) has x on every row; .reshape(n, k) cuts the k copies laid end to end into rows of k: row i is not x[i] repeated
                    if labs == [recv.label, x.dims[0]]:
                        return Arr((recv.label, x.dims[0]), x.poly, unit=x.unit)
                    if labs == [x.dims[0], recv.label]:
                        return Unk('np.tile(x, k).reshape(n, k): the copies of x are laid end to end, so row i is not x[i] repeated k times', e, definite=True)
                    return Unk('np.tile result reshaped', e)
                if len(labs) == 2 and None not in labs and x.ndim >= 1 and x.dims[0]:
                    if labs == [x.dims[0], recv.label]:
                        p = x.poly
                        for d in x.dims[1:]:
                            if d is not None:
                                p = alg.mk_fn('at', B(d, p), P(num(0)))
                        return Arr((x.dims[0], recv.label), p, unit=x.unit)
                    if labs == [recv.label, x.dims[0]]:
                        return Unk('np.repeat(x, k).reshape(k, n): rows of the result interleave the elements of x instead of repeating each one', e, definite=True)
            return Unk('np.repeat result used other than through reshape(n, k)', e)
        if isinstance(recv, Arr):
            if name in ('sum', 'any', 'all', 'max', 'min'):
                return self._reduce(recv, kw.get('axis', args[0] if args else None), name, e)
            if name == 'to':
                if not args:
                    return Unk('.to()', e)
                uu = self._as_arr(args[0])
                if 'equivalencies' in kw:
                    # wavelength <-> frequency (and the like): not the same physical value; an involution
                    inner = recv.poly
                    if inner.is_monomial():
                        (m_, c_), = inner.t.items()
                        if c_ == 1 and len(m_) == 1 and m_[0][1] == 1 and m_[0][0][0] == 'fn' and m_[0][0][1] == 'spectral':
                            return recv.with_(poly=Poly.from_key(m_[0][0][2][1]), unit=uu.poly if isinstance(uu, Arr) else None)
                    return recv.with_(poly=alg.mk_fn('spectral', P(inner)), unit=uu.poly if isinstance(uu, Arr) else None)
                if isinstance(uu, Arr) and recv.ndim == 0 and recv.unit is not None and recv.poly == recv.unit and not recv.poly.is_const():
                    # unit.to(other_unit): the dimensionless conversion factor
                    return Arr((), recv.poly * uu.poly.pow(-1), unit=num(1))
                if isinstance(uu, Unk):
                    return recv.with_(unit=None)
                r_ = recv.with_(unit=uu.poly)       # same physical quantity, expressed in unit uu
                if recv.conv and recv.unit is not None and not (recv.unit == uu.poly):
                    r_.conv = recv.conv + (('to', alg.show(recv.unit, 30), alg.show(uu.poly, 30), '', getattr(e, 'lineno', 0)),)
                return r_
            if name == 'to_value':
                conv_ = self.method(recv, 'to', args, kw, e, mod) if args else recv
                return self.attribute(ast.Attribute(value=ast.Name(id='_v', ctx=ast.Load()), attr='value', ctx=ast.Load()), {'__module__': mod, '_v': conv_}, mod) if isinstance(conv_, Arr) else conv_
            if name == 'astype':
                t_ = args[0] if args else kw.get('dtype')
                tn = t_.name if isinstance(t_, Marker) else (t_.__name__ if isinstance(t_, type) else (t_ if isinstance(t_, str) else ''))
                if tn.split('.')[-1] in ('bool', 'bool_') and not _is_boolean(recv.poly):
                    return recv.with_(poly=alg.b_not(alg.mk_ind('==0', recv.poly)), unit=None, dt=None)       # x != 0
                if _dtype_kind(t_, None) == 'i' and recv.poly.is_const() and recv.poly.const_value().denominator != 1:
                    import math as _math
                    return recv.with_(poly=num(_math.trunc(recv.poly.const_value())), dt='i')         # a fractional constant cast to an integer type is cut
                if _narrow_float(t_) and recv.mask is None and recv.dt != 'i':
                    # values held in double precision cast to single (or half): every value moves to the nearest one that type can hold
                    return recv.with_(poly=alg.mk_fn('narrow', P(recv.poly)), dt='f')
                m_ = re.match(r'^[<>=|]?([USa])(\d+)$', tn) if isinstance(tn, str) else None
                if m_ and recv.mask is None:
                    # a fixed-width string type: longer strings are cut to that many characters, silently
                    return recv.with_(poly=alg.mk_fn('cut', P(recv.poly), C(int(m_.group(2)))), dt=None)
                return recv.with_(dt=_dtype_kind(t_, None))
            if name == 'copy':
                return recv.with_(dt=recv.dt if recv.dt in ('f', 'i') else 'inherit')
            if name in ('view', 'squeeze', 'decompose', 'filled'):
                return recv.with_()
            if name == 'swapaxes' and len(args) == 2 and all(isinstance(a, int) for a in args):
                d = list(recv.dims)
                d[args[0]], d[args[1]] = d[args[1]], d[args[0]]
                return recv.with_(dims=tuple(d))
            if name == 'transpose' and not kw and (not args or (len(args) == recv.ndim and sorted(args) == list(range(recv.ndim)))):
                perm_ = list(args) if args else list(range(recv.ndim))[::-1]
                return recv.with_(dims=tuple(recv.dims[k_] for k_ in perm_))
            if name in ('clip', 'take'):
                return self.libcall('numpy.' + name, [recv] + args, kw, e, mod)          # x.clip(lo, hi) is np.clip(x, lo, hi)
            if name == 'sort' and not args and not kw and recv.ndim == 1 and recv.dims[0] and recv.mask is None:
                # x.sort(): the array is rewritten in increasing order, seen through every name bound to it
                srt_ = recv.with_(poly=alg.index_at(recv.poly, recv.dims[0], alg.array_fn('argsort', recv.dims[0], recv.poly)))
                for fr_ in self.frames:
                    _replace_aliases(fr_, recv, srt_)
                return None
            if name == 'strip' and not args and not kw:
                return recv.with_(poly=alg.mk_fn('strip', P(recv.poly)))          # an element of an array of names, with surrounding blanks removed
            if name == 'searchsorted':
                r_ = self.hooks.external(self, 'numpy.searchsorted', [recv] + list(args), kw, e, mod)         # x.searchsorted(q) is np.searchsorted(x, q)
                return r_ if r_ is not NotImplemented else self.libcall('numpy.searchsorted', [recv] + args, kw, e, mod)
            if name == 'is_equivalent':
                other = self._as_arr(args[0]) if args else Unk('')
                if isinstance(other, Arr):
                    d1, d2 = unit_dimension(recv.poly), unit_dimension(other.poly)
                    if d1 is not None and d2 is not None:
                        return d1 == d2
                return Unk('is_equivalent on symbolic units', e)
            if name == 'to_string':
                if recv.unit is not None and recv.ndim == 0 and recv.poly == recv.unit:
                    return UnitStr(recv.unit)
                return Unk('unit string', e)
            if name == 'diagonal' and not args and not kw and recv.ndim == 2 and recv.dims[0] and recv.dims[1] == recv.dims[0] + "'" and recv.mask is None:
                # out[i] = a[i, i] : the primed copy of the axis is identified with the axis
                return Arr((recv.dims[0],), alg.relabel(recv.poly, recv.dims[1], recv.dims[0]), unit=recv.unit)
            if name == 'diagonal':
                return Unk('diagonal', e)
            if name == 'tofile' and args and isinstance(args[0], Foreign):
                r_ = args[0].sl_method(self, 'raw_write_array', [recv], {}, e)
                return Unk('array written to %s' % type(args[0]).__name__, e) if r_ is NotImplemented else r_
            if name == 'reshape':
                sh_ = list(args[0]) if len(args) == 1 and isinstance(args[0], (tuple, list)) else (list(ext_(args[0])) if len(args) == 1 and isinstance(args[0], Shape) else list(args))
                # the same axes in the same order with axes of one position put in or taken out: x.reshape(x.shape + (1, 1)), x.reshape(n, 1), ...
                if recv.mask is None and sh_:
                    labs_ = []
                    for v_ in sh_:
                        a_ = self._as_arr(v_)
                        if isinstance(v_, int) and not isinstance(v_, bool) and v_ == 1:
                            labs_.append(None)
                        elif isinstance(a_, Arr) and a_.ndim == 0 and _len_label(a_.poly) is not None:
                            labs_.append(_len_label(a_.poly))
                        else:
                            labs_ = None
                            break
                    if labs_ is not None and [l_ for l_ in labs_ if l_ is not None] == [d_ for d_ in recv.dims if d_ is not None]:
                        return recv.with_(dims=tuple(labs_))
                r_ = self._reshape_concrete(recv, sh_, e)
                return r_ if r_ is not None else Unk('reshape', e)
            if name == 'repeat' and len(args) == 1 and isinstance(kw.get('axis'), int) and not isinstance(kw.get('axis'), bool) and recv.mask is None:
                # x.repeat(n, axis=k) along an axis of one position: that position n times - the value does not depend on the new axis
                ax_ = kw['axis'] + recv.ndim if kw['axis'] < 0 else kw['axis']
                n_ = self._as_arr(args[0])
                lab_ = _len_label(n_.poly) if isinstance(n_, Arr) and n_.ndim == 0 else None
                if 0 <= ax_ < recv.ndim and recv.dims[ax_] is None and lab_ is not None and lab_ not in recv.dims:
                    return recv.with_(dims=tuple(lab_ if k_ == ax_ else d_ for k_, d_ in enumerate(recv.dims)))
                if 0 <= ax_ < recv.ndim and recv.dims[ax_] is None and isinstance(args[0], int) and not isinstance(args[0], bool) and 1 <= args[0] <= 64:
                    if args[0] == 1:
                        return recv
                    self._n_lists = getattr(self, '_n_lists', 0) + 1
                    lab_ = 'rep#%d' % self._n_lists          # a concrete number of copies: an axis that only counts them
                    self.axis_len[lab_] = args[0]
                    return recv.with_(dims=tuple(lab_ if k_ == ax_ else d_ for k_, d_ in enumerate(recv.dims)))
            if name == 'ravel' and not args and recv.ndim <= 1:
                return recv          # (a 1-d array, or a scalar array, flattened: itself)
            if name == 'argsort':
                return self.libcall('numpy.argsort', [recv], kw, e, mod)
            if name == 'argmin' or name == 'argmax':
                return self.libcall('numpy.' + name, [recv] + args, kw, e, mod)
            return Unk('array method %s' % name, e)
        if isinstance(recv, SymTable):
            if name == 'sort' and args and isinstance(args[0], str) and args[0] in recv.cols:
                order = alg.array_fn('argsort', recv.label, recv.cols[args[0]].poly)
                for c, a in list(recv.cols.items()):
                    recv.cols[c] = a.with_(poly=alg.mk_fn('at', B(recv.label, a.poly), P(order)))
                return None
            if name == 'keys':
                return recv.names()
            if name == 'argsort' and len(args) == 1 and isinstance(args[0], str) and args[0] in recv.cols and not kw and isinstance(recv.cols[args[0]], Arr):
                return Arr((recv.label,), alg.array_fn('argsort', recv.label, recv.cols[args[0]].poly), unit=num(1))
            if name == 'copy' and not args:
                return SymTable(dict(recv.cols), recv.label)
            return Unk('table method %s' % name, e)
        if isinstance(recv, _WhereIdx) and name == 'take' and len(args) == 1 and not kw:
            k_ = self._as_arr(args[0])
            if isinstance(k_, Arr) and k_.ndim == 1 and k_.mask is None and not _is_boolean(k_.poly):
                return recv.gather(k_)
        if isinstance(recv, _Cols) and name == 'keys' and not args:
            return list(recv)
        if isinstance(recv, list):
            if name == 'append' and args:
                recv.append(args[0])
                return None
            if name == 'extend' and args and isinstance(args[0], list):
                recv.extend(args[0])
                return None
            return Unk('list method %s' % name, e)
        if isinstance(recv, dict):
            if name == 'get':
                k = args[0]
                if isinstance(k, (str, int)):
                    return recv.get(k, args[1] if len(args) > 1 else None)
                if isinstance(k, (type(None), Foreign)) and all(isinstance(x, (str, int)) for x in recv):
                    return args[1] if len(args) > 1 else None
            if name == 'items':
                return list(recv.items())
            if name == 'values':
                return list(recv.values())
            if name == 'keys':
                return list(recv.keys())
            if name == 'update' and len(args) <= 1 and (not args or isinstance(args[0], dict)):
                if args:
                    recv.update(args[0])
                recv.update(kw)
                return None
            if name == 'copy' and not args:
                return dict(recv)
            if name == 'setdefault' and 1 <= len(args) <= 2 and isinstance(args[0], (str, int)):
                return recv.setdefault(args[0], args[1] if len(args) > 1 else None)
            if name == 'setdefault' and 1 <= len(args) <= 2 and isinstance(args[0], Arr) and args[0].ndim == 0 and args[0].mask is None:
                hit_ = [x for x in recv if isinstance(x, Arr) and x.ndim == 0 and x.mask is None and x.poly == args[0].poly]
                if hit_:
                    return recv[hit_[0]]
                if not recv:
                    recv[args[0]] = args[1] if len(args) > 1 else None
                    return recv[args[0]]
            if name == 'pop' and 1 <= len(args) <= 2 and isinstance(args[0], (str, int)):
                if args[0] in recv:
                    return recv.pop(args[0])
                if len(args) > 1:
                    return args[1]
                raise PyRaise('KeyError', repr(args[0]))
            return Unk('dict method %s' % name, e)
        if isinstance(recv, str):
            if name == 'format':
                # whole numbers held as numpy scalars are formatted like python's
                args = [(int(a_.poly.const_value()) if isinstance(a_, Arr) and a_.ndim == 0 and a_.mask is None and a_.poly.is_const() and a_.poly.const_value().denominator == 1 and a_.dt == 'i' else a_)
                        for a_ in args]
            if all(isinstance(a_, (str, int, float, bool, type(None))) for a_ in list(args) + list(kw.values())) and name in (
                    'format', 'upper', 'lower', 'strip', 'lstrip', 'rstrip', 'startswith', 'endswith', 'replace', 'split', 'join', 'zfill', 'ljust', 'rjust', 'center', 'title', 'isdigit', 'count', 'find'):
                try:
                    return getattr(recv, name)(*args, **kw)        # a string method on concrete strings: computed
                except Exception as ex_:
                    raise PyRaise(type(ex_).__name__, str(ex_))
            if name == 'format' and not kw and any(isinstance(a_, (Arr, Foreign)) for a_ in args) and all(isinstance(a_, (Arr, Foreign, str, int, float)) for a_ in args):
                r_ = _brace_format(recv, args)
                return r_ if r_ is not None else Unk('str.format with fields the analyser does not translate: %r' % recv[:40], e)
            if name == 'join' and len(args) == 1 and isinstance(args[0], (list, tuple)) and all(isinstance(x_, (str, Fmt)) for x_ in args[0]):
                # pieces formatted from symbolic values joined into one string: the values are kept, in order
                f_, v_ = '', ()
                for k_, x_ in enumerate(args[0]):
                    if k_:
                        f_ += recv.replace('%', '%%')
                    f_ += x_.fmt if isinstance(x_, Fmt) else x_.replace('%', '%%')
                    v_ += x_.values if isinstance(x_, Fmt) else ()
                return Fmt(f_, v_) if v_ else f_.replace('%%', '%')
            return Unk('string method %s (%s)' % (name, ', '.join(repr(a_)[:60] for a_ in args)), e)
        if isinstance(recv, _Interp1d) or name == '__call__':
            pass
        return Unk('method %s of %r' % (name, recv), e)


class _Interp1d:
    """Result of scipy interp1d(x, y, **opts): calling it yields a linear-interpolation atom.
    scipy drops units, so abscissa and query are compared as *numbers in their own units*."""
    def __init__(self, x, y, opts):
        self.x, self.y, self.opts = x, y, opts
        self.queries = []
        self.roundtrips = []      # a bound stored into the query in one unit, the query converted back before the (bounds-checked) look-up

    def __call__(self, q):
        if isinstance(q, Unk):
            return q
        if not isinstance(q, Arr):
            return Unk('interp1d query %r' % (q,))
        self.queries.append(q)
        if len(q.conv) >= 2 and not any(k_ in ('bounds_error', 'fill_value') for k_, _ in self.opts):
            a_, b_ = q.conv[0], q.conv[-1]
            if a_[0] == 'assign' and b_[0] == 'to' and a_[1] == b_[2]:
                self.roundtrips.append((a_, b_))
        lab = self.x.dims[0]
        xs = _strip_unit(self.x)
        qs = _strip_unit(q)
        qdims = list(q.dims)
        for k_, d_ in enumerate(qdims):
            if d_ is not None and d_ in self.y.dims[:-1]:
                # the query runs over an axis the table also has: the result has both (outer product); the query's copy is primed
                qs = alg.relabel(qs, d_, d_ + "'")
                qdims[k_] = d_ + "'"
        extra = [C('%s=%s' % kv) for kv in self.opts]
        lead = list(self.y.dims[:-1])
        ax_ = getattr(self, 'axis', len(lead))
        dims = tuple(lead[:ax_]) + tuple(qdims) + tuple(lead[ax_:])
        ys = _strip_unit(self.y) if self.y.unit is not None else self.y.poly
        return Arr(dims, _linear_fn('lininterp', qs, lab, xs, ys, extra), unit=num(1))


def _strip_unit(a):
    """The bare numbers scipy sees: value / unit (symbolic unit when untracked)."""
    if a.unit is not None:
        return a.poly * a.unit.pow(-1)
    return alg.mk_fn('value', P(a.poly))


def _linear_fn(name, q, lab, xp, fp, extra):
    """interp(q; xp, fp) is linear in fp (alg.mk_fn pulls label-independent factors out)."""
    return alg.mk_fn(name, P(q), B(lab, xp), B(lab, fp), *extra)


class _Range:
    def __init__(self, label):
        self.label = label


class _ArgWhere:
    """np.argwhere(mask) of a 1-d mask: one row per selected position, each row an array of one index"""
    def __init__(self, mask):
        self.mask = mask


class _Idx1:
    """an index array holding one position (a row of np.argwhere): indexing with it is advanced indexing - the result is a copy with an axis of one position"""
    def __init__(self, pinned):
        self.pinned = pinned


class _WhereIdx:
    """np.where(mask)[0]: the positions selected by a boolean mask along one axis"""
    def __init__(self, mask):
        self.mask = mask           # Arr, 1-D boolean

    def sel_label(self):
        return 'sel:' + alg.show(self.mask.poly, 400)

    def positions(self):
        """the positions themselves, as an array over the axis of the selection (the primed axis a compress by the mask produces)"""
        lab = self.mask.dims[0]
        new = lab + "'"
        return Arr((new,), alg.mk_fn('nonzero', L(new), B(lab, self.mask.poly)), unit=num(1))

    def gather(self, k):
        """positions[k] for an index array k"""
        p = self.positions()
        return Arr(k.dims, alg.mk_fn('at', B(p.dims[0], p.poly), P(k.poly)), unit=num(1))


def _brace_format(fmt, args):
    """'...{0:9.5f}...'.format(values) with symbolic values as the equivalent %-formatted text (fields of the simple width.precision-type kind only)"""
    import string as _string, re as _re
    out, vals, auto = '', [], 0
    try:
        for lit, field, spec, conv in _string.Formatter().parse(fmt):
            out += lit.replace('%', '%%')
            if field is None:
                continue
            if conv or not _re.match(r'^\d*$', field) or not _re.match(r'^(\d*)(\.\d+)?([sdfeEgGi]?)$', spec or ''):
                return None
            k_ = int(field) if field else auto
            auto += 1
            if k_ >= len(args):
                return None
            out += '%' + (spec if spec and spec[-1].isalpha() else (spec or '') + 's')
            vals.append(args[k_])
    except ValueError:
        return None
    return Fmt(out, tuple(vals))


class _Cols(list):
    """table.columns: a list of the column names that also answers .keys()"""


class Fmt(Foreign):
    """'format' % values with symbolic values"""
    def __init__(self, fmt, values):
        self.fmt, self.values = fmt, values

    def __repr__(self):
        return 'Fmt<%r %% %d values>' % (self.fmt[:30], len(self.values))


class _SharedList(list):
    """a list that a fork of the environment does not copy (the items a generator has yielded so far)"""


class _Guarded:
    """an item yielded under a data-dependent condition"""
    def __init__(self, cond, value):
        self.cond, self.value = cond, value


class _SelectVal:
    """one of two plain values (pieces of text), chosen by a data-dependent condition"""
    def __init__(self, cond, a, b):
        self.cond, self.a, self.b = cond, a, b


class _Closing:
    def __init__(self, obj):
        self.obj = obj


class _Select(Foreign):
    """one of two objects, chosen by a data-dependent condition: a method call is made on each under its condition"""
    def __init__(self, cond, a, b):
        self.cond, self.a, self.b = cond, a, b

    def sl_method(self, interp, name, args, kw, node):
        out = []
        for c_, o_ in ((self.cond, self.a), (alg.b_not(self.cond), self.b)):
            interp.conds.append(c_)
            try:
                if isinstance(o_, Obj):
                    m_ = interp.repo.find_member(o_.cls, name) if o_.cls is not None else None
                    out.append(interp.call(m_[1], args, kw, selfv=o_, node=node) if m_ is not None else Unk('method %s' % name, node))
                else:
                    out.append(interp.method(o_, name, args, kw, node, None))
            finally:
                interp.conds.pop()
        return merge_val(out[0], out[1], self.cond, node)


class BytesSeq(Foreign):
    """b''.join(pieces): binary pieces laid end to end, kept apart"""
    def __init__(self, parts):
        self.parts = parts


class _ArrSelect:
    """one of two arrays of different extent, chosen by a data-dependent condition: reductions, element reads and len() are taken of each and merged"""
    def __init__(self, cond, a, b):
        self.cond, self.a, self.b = cond, a, b


class _SliceVal:
    """a slice object built at run time: slice(lo, hi, step)"""
    def __init__(self, lo, hi, step):
        self.lo, self.hi, self.step = lo, hi, step


class _SelIdx:
    """integer positions counted within the compressed selection ``mask`` of axis ``label`` (e.g. argsort(x[mask]))"""
    def __init__(self, mask, label, what):
        self.mask, self.label, self.what = mask, label, what


class _Repeat:
    """np.repeat(x, k) with k the length of the axis ``label``, before it is reshaped"""
    def __init__(self, x, label):
        self.x, self.label = x, label


class _Zip:
    def __init__(self, inners, label):
        self.inners, self.label = inners, label


class _Enumerate:
    def __init__(self, inner, label):
        self.inner, self.label = inner, label


class LabelClash(Exception):
    pass


BUILTINS = {'len', 'range', 'enumerate', 'int', 'float', 'min', 'max', 'isinstance', 'type', 'print', 'abs', 'list', 'tuple',
            'str', 'open', 'sorted', 'zip', 'dict', 'set', 'sum', 'any', 'all', 'bool', 'input', 'Exception', 'ValueError',
            'TypeError', 'KeyError', 'IndexError', 'EOFError', 'AssertionError', 'AttributeError', 'object', 'NotImplemented',
            'getattr', 'setattr', 'hasattr', 'delattr', 'slice', 'reversed', 'map', 'filter', 'round', 'divmod', 'iter', 'next', 'format', 'repr', 'id', 'callable', 'vars'}


def decide_with(interp, test, env, mod, facts=None, consts=None):
    """Evaluate a branch test symbolically and decide it under a configuration given as side conditions
    (``facts``: alg.Facts) and constant values for atoms (``consts``: {atom: number}).  Independent of
    how the code spells or names things.  Returns True / False / None."""
    try:
        v = interp.expr(test, dict(env), mod)
    except Exception:
        return None
    if isinstance(v, bool):
        return v
    if not isinstance(v, Arr) or v.ndim != 0 or v.mask is not None:
        return None
    p = v.poly
    if facts is not None:
        p = facts.simplify(p)
    if consts:
        p = alg.rebuild(p, lambda a: Poly.const(consts[a]) if a in consts else None)
    if p.is_const():
        return p.const_value() != 0
    return None


def count_atom(label):
    (m, c), = alg.count(label).t.items()
    return m[0][0]


def index_atom(label):
    return alg.Atom(('sym', 'idx:' + str(label), (label,)))


class Hooks:
    """Property-specific configuration of one interpretation."""

    def decide(self, interp, test, env, mod):
        """Resolve a branch test by configuration: True / False / None (interpret it)."""
        return None

    def opaque(self, interp, fi, args, kwargs, node):
        """Summarise a repo function instead of inlining it (return NotImplemented to inline)."""
        return NotImplemented

    def try_handler(self, interp, st, env, mod):
        """Index of the except handler to follow after the try body, or None for the normal path."""
        return None

    def external(self, interp, name, args, kwargs, node, mod):
        return NotImplemented

    def construct(self, interp, ci, args, kwargs, node):
        return NotImplemented

    def setter(self, interp, obj, name, val, setter_fi, node):
        """Property setters that validate and store: modelled as storing the value under the
        private attribute the getter returns (AGREE-0 checks the setters have that shape)."""
        priv = setter_private_attr(setter_fi)
        if priv is None:
            return NotImplemented
        interp.data_guards(setter_fi, [val], {}, obj, val, node)          # what the setter / its validator refuses on the values themselves
        obj.attrs[priv] = val
        return None


_setter_cache = {}


def setter_private_attr(fi):
    """For a validating setter (every store is ``self._x = value`` / validate_*(…, value, …) / None)
    return '_x'; else None."""
    if fi.qual in _setter_cache:
        return _setter_cache[fi.qual]
    me, val = fi.params[0], fi.params[1]
    priv = set()
    ok = True
    for n in ast.walk(fi.node):
        if isinstance(n, ast.Assign):
            for t in n.targets:
                if isinstance(t, ast.Attribute) and isinstance(t.value, ast.Name) and t.value.id == me:
                    v = n.value
                    is_val = (isinstance(v, ast.Name) and v.id == val) or (isinstance(v, ast.Constant) and v.value is None)
                    if isinstance(v, ast.Call) and (chain(v.func) or '').startswith('validate_') and len(v.args) >= 2 \
                            and isinstance(v.args[1], ast.Name) and v.args[1].id == val:
                        is_val = True
                    if is_val:
                        priv.add(t.attr)
                    else:
                        ok = False
                elif isinstance(t, ast.Name) and t.id == val:
                    # value = np.array(value) : conversions of list inputs
                    pass
                else:
                    ok = False
    res = None
    if ok and len(priv) >= 1:
        # the attribute whose name matches the property (e.g. _flux for flux) or the only one
        cand = [p for p in priv if p.lstrip('_') == fi.name] or sorted(priv)
        res = cand[0] if len(priv) == 1 or cand[0].lstrip('_') == fi.name else None
        if res is None and len(priv) > 1:
            res = None
    _setter_cache[fi.qual] = res
    return res


# ---------------------------------------------------------------- helpers

def _xr(v):
    if isinstance(v, Arr):
        return v.xr if v.xr is not None else ('leaf', v.poly)
    if isinstance(v, bool):
        return ('const', 1.0 if v else 0.0)
    if isinstance(v, (int, float, Fraction)):
        return ('const', float(v))
    return ('top',)


def _walk_own(fnode):
    """nodes of a function body, not descending into nested functions / lambdas / classes"""
    stack = list(fnode.body)
    while stack:
        n_ = stack.pop()
        yield n_
        for c_ in ast.iter_child_nodes(n_):
            if not isinstance(c_, (ast.FunctionDef, ast.AsyncFunctionDef, ast.Lambda, ast.ClassDef)):
                stack.append(c_)


def _narrow_float(v):
    """a dtype argument that names single or half precision"""
    name = v.name if isinstance(v, Marker) else (v if isinstance(v, str) else getattr(v, '__name__', None))
    return isinstance(name, str) and name.split('.')[-1].lstrip('<>=|') in ('float32', 'single', 'f', 'f4', 'float16', 'half', 'e', 'f2')


def _dtype_kind(v, default):
    """element-type class of a dtype argument: 'f' | 'i' | None (not recognised: untracked)"""
    if v is None:
        return default
    if isinstance(v, _DtypeOf):
        return v.kind
    name = v.name if isinstance(v, Marker) else (v if isinstance(v, str) else getattr(v, '__name__', None))
    if isinstance(v, type):
        name = v.__name__
    if not isinstance(name, str):
        return None
    last = name.split('.')[-1]
    if last.startswith('float') or last in ('double', 'single', 'f', 'f4', 'f8', 'd'):
        return 'f'
    if last.startswith('int') or last.startswith('uint') or last in ('i', 'i4', 'i8', 'bool', 'bool_'):
        return 'i'
    return None


def init_obj(repo, ci, attrs=None):
    """An object of repo class ``ci`` in the state its no-argument constructor leaves it in (concrete defaults only: None, numbers,
    strings, empty containers), then given the symbolic ``attrs``.  Code that tests a default the analysis did not set
    (``if self._cache is None``) is then decided on the value the class really starts with."""
    o = Obj(ci, {})
    init = repo.find_member(ci, '__init__') if ci is not None else None
    if init is not None and len(init[1].params) - 1 <= len(init[1].defaults()):
        try:
            Interp(repo).call(init[1], [], selfv=o)
        except Exception:
            o.attrs.clear()
        for k in list(o.attrs):
            v = o.attrs[k]
            if not (v is None or isinstance(v, (bool, int, float, str)) or (isinstance(v, (list, dict, tuple)) and not v)):
                del o.attrs[k]
    o.attrs.update(attrs or {})
    return o


def mod_of(env):
    return env.get('__module__')


def _load(t):
    t2 = copy.deepcopy(t)
    for n in ast.walk(t2):
        if hasattr(n, 'ctx'):
            n.ctx = ast.Load()
    return t2


def _is_pynum(v):
    return isinstance(v, (int, float, Fraction)) and not isinstance(v, bool)


def _is_pyconst(v):
    return isinstance(v, (int, float, str, bool, Fraction)) or v is None


def _only_raises(body):
    return bool(body) and isinstance(body[-1], ast.Raise) and all(isinstance(s, (ast.Raise, ast.Expr, ast.Assign)) for s in body)


def _is_boolean(p):
    """A polynomial built only from Iverson brackets and constants 0/1 combinations."""
    if p.is_const():
        return p.const_value() in (0, 1)
    for m in p.t:
        for a, _ in m:
            if a[0] != 'ind' and not (a[0] == 'fn' and a[1] in ('any', 'all', 'loosely_close')):
                return False
    return True


def _root_of(e):
    while isinstance(e, (ast.Subscript, ast.Attribute)):
        e = e.value
    return e


def _may_be_infinite(p):
    """does the term contain a logarithm of something that is not a positive constant (infinite where its argument vanishes), or the symbol for infinity"""
    for a in p.atoms():
        if a[0] == 'sym' and a[1] == 'INF':
            return True
        if a[0] == 'fn' and a[1] == 'ln' and a[2][0] == 'P':
            q = Poly.from_key(a[2][1])
            if not (q.is_const() and q.const_value() > 0):
                return True
        if a[0] == 'pow' and a[2] < 0 and _may_vanish(Poly.from_key(a[1])):
            return True          # 1 / (something that can be zero)
    for m, c in p.t.items():
        for a, e in m:
            if e < 0 and a[0] in ('sym', 'fn') and not (a[0] == 'sym' and str(a[1]).startswith('unit:')):
                return True          # divided by a data value, which can be zero
    return False


def _may_vanish(p):
    """can the value be zero for some data: anything that is not a non-zero constant (times units)"""
    if p.is_const():
        return p.const_value() == 0
    syms, fns = alg.leaf_syms(p)
    return bool({x for x in syms if not str(x).startswith('unit:')} or fns)


def _le(diff):
    # a <= b  is identified with  a < b  for real quantities (exact ties are outside the properties);
    # when the difference is a constant the comparison is exact.
    if diff.is_const():
        return Poly.const(1 if diff.const_value() <= 0 else 0)
    return alg.mk_ind('<0', diff)


def _umul(a, b):
    if a is None or b is None:
        return None
    return a * b


def _upow(a, e):
    if a is None:
        return None
    try:
        return a.pow(e)
    except ZeroDivisionError:
        return None


def _merge_mask(a, b):
    if a.mask is None:
        return b.mask
    if b.mask is None or b.mask == a.mask:
        return a.mask
    return Unk('two different pending masks')


def _align_primed(a, b):
    """An axis labelled d aligned by position with the primed copy d' of the same axis (the query axis of an outer product over d): the operand runs over
    that position, so its elements are those of d'."""
    if not (isinstance(a, Arr) and isinstance(b, Arr)) or not a.dims or not b.dims:
        return a, b
    for k_ in range(1, min(len(a.dims), len(b.dims)) + 1):
        x, y = a.dims[-k_], b.dims[-k_]
        if x and y and x != y:
            if y == x + "'" and y not in a.dims:
                a = a.with_(dims=tuple(y if d_ == x else d_ for d_ in a.dims), poly=alg.relabel(a.poly, x, y), mask=None if a.mask is None else alg.relabel(a.mask, x, y))
            elif x == y + "'" and x not in b.dims:
                b = b.with_(dims=tuple(x if d_ == y else d_ for d_ in b.dims), poly=alg.relabel(b.poly, y, x), mask=None if b.mask is None else alg.relabel(b.mask, y, x))
    return a, b


def bdims(a, b):
    n = max(len(a), len(b))
    a = (None,) * (n - len(a)) + tuple(a)
    b = (None,) * (n - len(b)) + tuple(b)
    out = []
    for x, y in zip(a, b):
        if x == y or y is None:
            out.append(x)
        elif x is None:
            out.append(y)
        else:
            raise LabelClash('axis labelled %r meets axis labelled %r' % (x, y))
    return tuple(out)


def _len_label(p):
    """If p is count(label) return label."""
    if p.is_monomial():
        (m, c), = p.t.items()
        if c == 1 and len(m) == 1 and m[0][1] == 1 and m[0][0][0] == 'fn' and m[0][0][1] == 'len':
            return m[0][0][2][1]
    return None


def _full_slice(w, node):
    if isinstance(w, _SliceVal):
        return w.lo is None and w.hi is None and w.step is None
    return isinstance(w, ast.Slice) and w.lower is None and w.upper is None and w.step is None


def _index_offset(p, lab):
    """if p == idx:lab + k (k a non-zero integer constant) return k"""
    rest = p - Poly.atom(('sym', 'idx:' + str(lab), (lab,)))
    if rest.is_const() and rest.const_value().denominator == 1 and rest.const_value() != 0:
        return int(rest.const_value())
    return None


def _is_arange(p):
    if p.is_monomial():
        (m, c), = p.t.items()
        if c == 1 and len(m) == 1 and m[0][1] == 1 and m[0][0][0] == 'fn' and m[0][0][1] == 'arange':
            return m[0][0][2][1]
    return None


def _replace_aliases(env, old, new):
    seen = set()

    def walk(v):
        if id(v) in seen:
            return
        seen.add(id(v))
        if isinstance(v, Obj):
            for k, x in list(v.attrs.items()):
                if x is old:
                    v.attrs[k] = new
                else:
                    walk(x)
        elif isinstance(v, dict):
            for k, x in list(v.items()):
                if x is old:
                    v[k] = new
                else:
                    walk(x)
        elif isinstance(v, list):
            for i, x in enumerate(v):
                if x is old:
                    v[i] = new
                else:
                    walk(x)
        elif isinstance(v, GenList):
            if v.elem is old:
                v.elem = new
            else:
                walk(v.elem)
    for k, x in list(env.items()):
        if k.startswith('__'):
            continue
        if x is old:
            env[k] = new
        else:
            walk(x)


def _element_at(v, label, k, _memo=None):
    """the element at the constant position k of a generic list: every term that depends on the list's
    axis is evaluated at k"""
    memo = {} if _memo is None else _memo
    if isinstance(v, Arr):
        if label in alg.poly_labels(v.poly):
            return v.with_(poly=alg.mk_fn('at', B(label, v.poly), P(num(k))))
        return v
    if isinstance(v, Obj):
        if id(v) in memo:
            return memo[id(v)]
        o = Obj(v.cls, {}, v.name)
        memo[id(v)] = o
        for kk, x in v.attrs.items():
            o.attrs[kk] = _element_at(x, label, k, memo)
        return o
    if isinstance(v, dict):
        return {kk: _element_at(x, label, k, memo) for kk, x in v.items()}
    if isinstance(v, (list, tuple)):
        return type(v)(_element_at(x, label, k, memo) for x in v)
    return v


def _under_mask(poly, mask):
    """Inside a selection by a product of brackets, those brackets are 1."""
    if mask.is_monomial():
        (m, c), = mask.t.items()
        if c == 1 and m and all(a[0] == 'ind' for a, _ in m):
            ones = {a for a, _ in m}
            return alg.rebuild(poly, lambda a: Poly.const(1) if a in ones else None)
    return poly


def _strip_labels(p):
    return p


def fork(env):
    memo = {}
    # modules, FuncInfo, ClassInfo are shared; values are copied
    out = {}
    for k, v in env.items():
        out[k] = v if isinstance(v, _SharedList) else _copy_val(v, memo)
    return out


def _copy_val(v, memo):
    if isinstance(v, Obj):
        if id(v) in memo:
            return memo[id(v)]
        o = Obj(v.cls, {}, v.name)
        memo[id(v)] = o
        for k, x in v.attrs.items():
            o.attrs[k] = _copy_val(x, memo)
        return o
    if isinstance(v, list):
        return [_copy_val(x, memo) for x in v]
    if isinstance(v, dict):
        return {k: _copy_val(x, memo) for k, x in v.items()}
    if isinstance(v, tuple):
        return tuple(_copy_val(x, memo) for x in v)
    if isinstance(v, GenList):
        return GenList(v.label, _copy_val(v.elem, memo))
    return v


def merge_val(a, b, cond, node):
    if a is b:
        return a
    if isinstance(a, Arr) and isinstance(b, Arr) and a.dims == b.dims and a.mask is None and b.mask is None:
        if a.poly == b.poly:
            return a
        if cond is not None:
            for c_, x_, y_ in ((cond, a, b), (alg.b_not(cond), b, a)):
                # "the mask holds somewhere" selecting between y and y-changed-where-the-mask-holds: where it holds nowhere the two are the same
                em_ = _exists_mask(c_)
                if em_ is not None and set(em_[0]) <= set(x_.dims) and _carries_factor(x_.poly - y_.poly, em_[1]):
                    return x_ if x_.unit == y_.unit else x_.with_(unit=None)
                # "the axis has at least one position" selecting between two arrays over that axis: over an empty axis neither has any element
                if any(l_ is not None and c_ == alg.mk_ind('<0', -alg.count(l_)) for l_ in x_.dims):
                    return x_ if x_.unit == y_.unit else x_.with_(unit=None)
            return Arr(a.dims, cond * a.poly + alg.b_not(cond) * b.poly, None, a.unit if a.unit == b.unit else None)
    if _is_pyconst(a) and _is_pyconst(b) and a == b and type(a) == type(b):
        return a
    if cond is not None and isinstance(a, bool) and isinstance(b, (bool, Arr)) or cond is not None and isinstance(b, bool) and isinstance(a, Arr):
        a = Arr((), num(1 if a else 0)) if isinstance(a, bool) else a         # True / False selected by a condition: a truth value
        b = Arr((), num(1 if b else 0)) if isinstance(b, bool) else b
    if isinstance(a, Marker) and a.name in ('numpy.nan', 'numpy.NaN', 'math.nan'):
        a = Arr((), alg.sym('NAN'))
    if isinstance(b, Marker) and b.name in ('numpy.nan', 'numpy.NaN', 'math.nan'):
        b = Arr((), alg.sym('NAN'))
    if cond is not None and (_is_pynum(a) or isinstance(a, Arr)) and (_is_pynum(b) or isinstance(b, Arr)):
        aa = a if isinstance(a, Arr) else Arr((), num(a))
        bb = b if isinstance(b, Arr) else Arr((), num(b))
        if aa.dims == bb.dims and aa.mask is None and bb.mask is None:
            return Arr(aa.dims, cond * aa.poly + alg.b_not(cond) * bb.poly)
        if isinstance(a, Arr) and isinstance(b, Arr) and a.ndim == 1 and b.ndim == 1:
            # `if len(x) == 0: <an array of no elements> else: <one element per element of x>`: what holds for every element of the general case holds
            # for the elements of the empty one - there are none
            for e_, g_, c_ in ((a, b, cond), (b, a, alg.b_not(cond))):
                if str(e_.dims[0]).endswith('<empty>') and g_.dims[0] is not None and c_ == alg.eq(alg.count(g_.dims[0]), 0):
                    return g_
        if isinstance(a, Arr) and isinstance(b, Arr) and a.ndim >= 1 and b.ndim >= 1:
            # two arrays of different extent (a selection of an array, or the whole of it): kept apart; what is computed from the value is computed from each
            return _ArrSelect(cond, a, b)
    if isinstance(a, Obj) and isinstance(b, Obj) and a.cls is b.cls:
        o = Obj(a.cls, {}, a.name)
        for k in set(a.attrs) | set(b.attrs):
            if k in a.attrs and k in b.attrs:
                o.attrs[k] = merge_val(a.attrs[k], b.attrs[k], cond, node)
            else:
                o.attrs[k] = Unk('attribute %s set on one branch only' % k, node)
        return o
    if cond is not None and isinstance(a, Foreign) and isinstance(b, Foreign):
        return _Select(cond, a, b)             # one of two library objects, chosen by the condition: what is done with it is done with each under its condition
    if cond is not None and isinstance(a, (str, Fmt)) and isinstance(b, (str, Fmt)):
        return _SelectVal(cond, a, b)          # one of two pieces of text, chosen by the condition
    if cond is not None and _is_index_alt(a) and _is_index_alt(b) and (isinstance(a, (_SliceVal, _SelectVal)) or isinstance(b, (_SliceVal, _SelectVal))):
        return _SelectVal(cond, a, b)          # one of two slices, chosen by the condition (taken apart again where it is used as a subscript)
    if isinstance(a, (FuncRef, ClassRef, ModRef, Marker)) and type(a) == type(b) and \
            (a.fi is b.fi if isinstance(a, FuncRef) else a.ci is b.ci if isinstance(a, ClassRef) else a.mod is b.mod if isinstance(a, ModRef) else a.name == b.name):
        return a
    if cond is not None and isinstance(a, (FuncRef, Closure)) and isinstance(b, (FuncRef, Closure)) and _pure_fn(a.fi) and _pure_fn(b.fi):
        return _SelectVal(cond, a, b)          # one of two (side-effect free) functions, chosen by the condition: a call calls each and merges what they return
    if isinstance(a, tuple) and isinstance(b, tuple) and len(a) == len(b):
        return tuple(merge_val(x, y, cond, node) for x, y in zip(a, b))
    return Unk('value differs between the branches of a data-dependent if', node)


def _same_value(a, b):
    """the very same value (merging the branches of an ``if`` rebuilds tuples around unchanged items)"""
    if a is b:
        return True
    if isinstance(a, tuple) and isinstance(b, tuple) and len(a) == len(b):
        return all(_same_value(x, y) for x, y in zip(a, b))
    if isinstance(a, Arr) and isinstance(b, Arr):
        return a.dims == b.dims and a.mask == b.mask and a.poly == b.poly and a.unit == b.unit
    return _is_pyconst(a) and _is_pyconst(b) and type(a) == type(b) and a == b


def _exists_mask(cond):
    """(label, mask polynomial) when ``cond`` says "the mask holds at some position of the axis": any(mask), sum(mask) > 0, sum(mask) != 0; else None"""
    if not isinstance(cond, Poly):
        return None
    alts = [cond]
    nb = alg.b_not(cond)
    if nb.is_monomial():
        (m_, c_), = nb.t.items()
        if c_ == 1 and len(m_) == 1 and m_[0][1] == 1 and m_[0][0][0] == 'ind' and m_[0][0][1] == '==0':
            alts.append(alg.mk_ind('<0', -Poly.from_key(m_[0][0][2])))          # a count that is not zero is above zero
    for c in alts:
        if not c.is_monomial():
            continue
        (m_, k_), = c.t.items()
        if not (k_ == 1 and len(m_) == 1 and m_[0][1] == 1):
            continue
        a = m_[0][0]
        if a[0] == 'fn' and a[1] == 'any' and len(a) == 3 and a[2][0] == 'B':
            labs, body = [a[2][1]], Poly.from_key(a[2][2])
            while body.is_monomial():
                # any over several axes: any(w -> any(m -> mask))
                (mb_, cb_), = body.t.items()
                if cb_ == 1 and len(mb_) == 1 and mb_[0][1] == 1 and mb_[0][0][0] == 'fn' and mb_[0][0][1] == 'any' and len(mb_[0][0]) == 3 and mb_[0][0][2][0] == 'B':
                    labs.append(mb_[0][0][2][1])
                    body = Poly.from_key(mb_[0][0][2][2])
                else:
                    break
            return tuple(labs), body
        if a[0] == 'ind' and a[1] == '<0':
            inner = Poly.from_key(a[2])
            if inner.is_monomial():
                (mi_, ci_), = inner.t.items()
                if ci_ == -1 and len(mi_) == 1 and mi_[0][1] == 1 and mi_[0][0][0] == 'sum':
                    mk = Poly.from_key(mi_[0][0][2])
                    if alg.is_integer_valued(mk):
                        return (mi_[0][0][1],), mk
    return None


def _carries_factor(p, mk):
    """``p`` vanishes wherever the 0/1-valued mask ``mk`` does not hold: p * (1 - mk) is zero (brackets are idempotent)"""
    if not _is_boolean(mk):
        return False
    try:
        return alg.is_zero(p * (Poly.const(1) - mk))[0]
    except Exception:
        return False


def _is_index_alt(v):
    """a slice, an index array, or a choice between such: something a subscript can be taken with, alternative by alternative"""
    if isinstance(v, _SelectVal):
        return _is_index_alt(v.a) and _is_index_alt(v.b)
    return isinstance(v, _SliceVal) or isinstance(v, Arr) and v.ndim == 1 and v.mask is None


def ext_(s_):
    """a shape as the tuple of its extents"""
    return tuple((1 if d_ is None else Arr((), alg.count(d_), unit=num(1))) for d_ in s_.dims) if isinstance(s_, Shape) else tuple(s_)


def _is_text(v):
    return isinstance(v, (str, Fmt)) or isinstance(v, _SelectVal) and _is_text(v.a) and _is_text(v.b)


def _last_element(v, label):
    """the value a loop variable keeps after a loop over the axis ``label`` has ended: the generic element taken at the last position"""
    if isinstance(v, Arr):
        if label in alg.poly_labels(v.poly) or (v.mask is not None and label in alg.poly_labels(v.mask)):
            return v.with_(poly=alg.index_at(v.poly, label, Poly.const(-1)), mask=None if v.mask is None else alg.index_at(v.mask, label, Poly.const(-1)))
        return v
    if isinstance(v, Obj):
        o = Obj(v.cls, {}, v.name)
        for k_, x_ in v.attrs.items():
            o.attrs[k_] = _last_element(x_, label)
        return o
    if isinstance(v, dict):
        return {k_: _last_element(x_, label) for k_, x_ in v.items()}
    if isinstance(v, (list, tuple)):
        return type(v)(_last_element(x_, label) for x_ in v)
    return v


def _pure_fn(fi):
    """the body of the function only binds local names and returns (no stores into objects or arrays, no calls made for their effect)"""
    for n_ in ast.walk(fi.node):
        if isinstance(n_, (ast.Assign, ast.AugAssign, ast.AnnAssign)):
            tg_ = n_.targets if isinstance(n_, ast.Assign) else [n_.target]
            if not all(isinstance(t_, ast.Name) or isinstance(t_, ast.Tuple) and all(isinstance(x_, ast.Name) for x_ in t_.elts) for t_ in tg_) or isinstance(n_, ast.AugAssign):
                return False
        elif isinstance(n_, ast.Expr) and not isinstance(n_.value, ast.Constant):
            return False
        elif isinstance(n_, (ast.Global, ast.Nonlocal, ast.Delete, ast.With, ast.Yield, ast.YieldFrom, ast.For, ast.While, ast.Try)):
            return False
    return True


_MISSING = object()


def merge_into(orig, a, b, cond, node):
    """Merge the two branch values, updating mutable originals in place so object identity survives a fork."""
    if isinstance(orig, _SharedList) and a is orig and b is orig:
        return orig
    if a is _MISSING or b is _MISSING:
        return Unk('bound on one branch only', node)
    if isinstance(orig, Obj) and isinstance(a, Obj) and isinstance(b, Obj) and a.cls is b.cls:
        for k in set(a.attrs) | set(b.attrs):
            orig.attrs[k] = merge_into(orig.attrs.get(k, _MISSING), a.attrs.get(k, _MISSING), b.attrs.get(k, _MISSING), cond, node)
        return orig
    if isinstance(orig, list) and isinstance(a, list) and isinstance(b, list):
        if len(a) == len(b):
            merged = [merge_into(orig[i] if i < len(orig) else _MISSING, a[i], b[i], cond, node) for i in range(len(a))]
        else:
            merged = None
        if merged is None:
            return Unk('list length differs between branches', node)
        orig[:] = merged
        return orig
    if isinstance(orig, dict) and isinstance(a, dict) and isinstance(b, dict):
        keys = set(a) | set(b)
        for k in keys:
            orig[k] = merge_into(orig.get(k, _MISSING), a.get(k, _MISSING), b.get(k, _MISSING), cond, node)
        return orig
    if isinstance(a, GenList) and isinstance(b, GenList) and a.label == b.label:
        if isinstance(orig, GenList):
            orig.elem = merge_into(orig.elem, a.elem, b.elem, cond, node)
            return orig
        return GenList(a.label, merge_into(_MISSING, a.elem, b.elem, cond, node))
    if isinstance(a, dict) and isinstance(b, dict):
        return {k: merge_into(_MISSING, a.get(k, _MISSING), b.get(k, _MISSING), cond, node) for k in set(a) | set(b)}
    if isinstance(a, list) and isinstance(b, list) and len(a) == len(b):
        return [merge_into(_MISSING, x, y, cond, node) for x, y in zip(a, b)]
    return merge_val(a, b, cond, node)


def merge_env(env, e1, e2, cond, node):
    for k in set(e1) | set(e2):
        if k.startswith('__'):
            continue
        env[k] = merge_into(env.get(k, _MISSING), e1.get(k, _MISSING), e2.get(k, _MISSING), cond, node)


# ---- unit dimension table (for is_equivalent on literal units) ------------------
_DIM = {  # (mass, length, time, angle)
    'g': (1, 0, 0, 0), 'kg': (1, 0, 0, 0), 'cm': (0, 1, 0, 0), 'm': (0, 1, 0, 0), 'micron': (0, 1, 0, 0), 'nm': (0, 1, 0, 0),
    'mm': (0, 1, 0, 0), 'km': (0, 1, 0, 0), 'angstrom': (0, 1, 0, 0), 'AA': (0, 1, 0, 0),
    'kpc': (0, 1, 0, 0), 'pc': (0, 1, 0, 0), 'au': (0, 1, 0, 0), 's': (0, 0, 1, 0), 'yr': (0, 0, 1, 0), 'Hz': (0, 0, -1, 0),
    'GHz': (0, 0, -1, 0), 'MHz': (0, 0, -1, 0),
    'erg': (1, 2, -2, 0), 'W': (1, 2, -3, 0), 'Jy': (1, 0, -2, 0), 'mJy': (1, 0, -2, 0), 'arcsec': (0, 0, 0, 1), 'deg': (0, 0, 0, 1),
    'rad': (0, 0, 0, 1)}


def unit_dimension(p):
    """Dimension vector of a monomial of unit atoms, or None."""
    if not p.is_monomial():
        return None
    (m, c), = p.t.items()
    d = [Fraction(0)] * 4
    for a, e in m:
        if a[0] == 'sym' and a[1].startswith('unit:') and a[1][5:] in _DIM:
            for i, x in enumerate(_DIM[a[1][5:]]):
                d[i] += x * e
        else:
            return None
    return tuple(d)
