"""FITS round trips decided by interpretation: obj --write--> symbolic file --read--> obj' , then obj' compared with obj attribute by attribute.

The writer and the reader are interpreted as they are (helpers inlined, any idiom the interpreter models); what is compared is the *physical value*
of every attribute of the object read back with the value the property states: the stored array, in the stored order or reversed on the spectral axis -
all spectral arrays together - according to the order requested, in the requested units. Units of the stored object are symbolic, so a unit string taken
from the wrong column, a conversion applied twice or not at all, or a column read into the wrong attribute leaves a non-zero remainder."""
import copy
import itertools

from . import alg, fitsem
from .alg import Poly, P, B, sym, lt, mk_fn
from .interp import Interp, Arr, Obj, Unk, ClassRef, Marker, symarr, scalar, num, unit_atom, merge_val
from .fitmodel import compare, loc

A, N, M = 'a', 'n', 'm'


class SuspectCtx:
    """wraps a check context for a fall-back rule that is not trusted to say VIOLATION: its violations are recorded as undecided"""
    def __init__(self, ctx, why):
        self._ctx, self._why = ctx, why

    def __getattr__(self, name):
        return getattr(self._ctx, name)

    def violation(self, rule, instance, where, detail, key=None):
        self._ctx.undecided(rule, instance, where, '%s: %s' % (self._why, detail))

    def expect(self, cond, rule, instance, where, ok_detail, bad_detail, key=None, **kw):
        if cond:
            self._ctx.ok(rule, instance, where, ok_detail, **kw)
        else:
            self._ctx.undecided(rule, instance, where, '%s: %s' % (self._why, bad_detail))


class CorroborateCtx:
    """wraps a check context for a rule that can only add to a verdict already reached another way: what it establishes is recorded, what it does not
    establish (a violation it reports, or a layout it does not recognise) is recorded as a note, never as a verdict"""
    def __init__(self, ctx, why):
        self._ctx, self._why = ctx, why

    def __getattr__(self, name):
        return getattr(self._ctx, name)

    def _note(self, rule, instance, where, detail):
        self._ctx.ok(rule, instance + ' (symbolic corroboration)', where, '%s; the symbolic rule adds nothing here: %s' % (self._why, str(detail)[:200]), nontrivial=False)

    def violation(self, rule, instance, where, detail, key=None):
        self._note(rule, instance, where, detail)

    def undecided(self, rule, instance, where, detail):
        self._note(rule, instance, where, detail)

    def expect(self, cond, rule, instance, where, ok_detail, bad_detail, key=None, **kw):
        if cond:
            self._ctx.ok(rule, instance, where, ok_detail, **kw)
        else:
            self._note(rule, instance, where, bad_detail)


def first(p, lab=N):
    return mk_fn('at', B(lab, p), P(Poly()))


def last(p, lab=N):
    return mk_fn('at', B(lab, p), P(Poly.const(-1)))


def reversed_if(c, p, lab=N):
    return p + c * (alg.array_fn('rev', lab, p) - p)


def _unwrap(v):
    return v.as_value() if isinstance(v, fitsem.QCol) and v.unit is not None else (v.data_ if isinstance(v, fitsem.QCol) else v)


class _Worlds(Obj):
    """the object read back, once per case of the data-dependent conditions the reader branches on: the state of the object may differ in kind between the
    cases (an attribute that is None in one and an array in the other), what its properties return is merged case by case"""
    def __init__(self, cls, conds, worlds):
        Obj.__init__(self, cls, {})
        self.conds, self.worlds = conds, worlds


class _ManyInterps:
    def __init__(self, interps):
        self.findings = [f for i in interps for f in i.findings]
        self.uncaught = next((i.uncaught for i in interps if getattr(i, 'uncaught', None)), None)


def _run(repo, cls_key, write_q, read_q, obj, read_kwargs):
    mod, cname = cls_key
    ci = repo.cls(mod, cname)
    hw = fitsem.FitsHooks()
    Iw = Interp(repo, hw)
    r = Iw.call(repo.func(mod, write_q), ['FILE'], selfv=obj)
    if isinstance(r, Unk) or len(hw.written) != 1:
        return Iw, None, r if isinstance(r, Unk) else Unk('the writer wrote %d files' % len(hw.written))
    if Iw.lost or getattr(hw, 'unmodelled', None):
        # the symbolic file is only what the modelled calls put into it: with a call of the writer lost, what a reader misses in it says nothing
        return Iw, None, Unk('the writer was not fully modelled: %s' % (str((Iw.lost or hw.unmodelled)[0])[:120]))

    def read(assume=()):
        hr = fitsem.FitsHooks(file=copy.deepcopy(hw.written[0]))
        Ir = Interp(repo, hr)
        Ir.assume = list(assume)
        return Ir, Ir.call(repo.func(mod, read_q), [ClassRef(ci), 'FILE'], dict(read_kwargs))
    Ir, out = read()
    if isinstance(out, Obj) and any(isinstance(v, Unk) for v in out.attrs.values()) and 1 <= len(Ir.forked) <= 2:
        # the state of the object differs in kind between the arms of a data-dependent if: one run per case
        conds = list(Ir.forked)
        worlds = []
        for bits in itertools.product((True, False), repeat=len(conds)):
            Ik, ok_ = read(list(zip(conds, bits)))
            if not isinstance(ok_, Obj):
                return Iw, Ir, out
            worlds.append((bits, Ik, ok_))
        return Iw, _ManyInterps([w[1] for w in worlds]), _Worlds(out.cls, conds, worlds)
    return Iw, Ir, out


def _attr(I, o, name, fi):
    if isinstance(o, _Worlds):
        vals = {bits: _unwrap(Ik.getattr(ok_, name, None, fi.module)) for bits, Ik, ok_ in o.worlds}
        def pick(prefix):
            if len(prefix) == len(o.conds):
                return vals[tuple(prefix)]
            return merge_val(pick(prefix + [True]), pick(prefix + [False]), o.conds[len(prefix)], None)
        return pick([])
    v = I.getattr(o, name, None, fi.module)
    return _unwrap(v)



def _not_read(ctx, rule, tag, where_, out, Ir, fnd):
    """the reader did not return an object: a library exception it does not catch (KeyError for a column / HDU / keyword the writer never wrote) is a
    definite failure of the round trip; anything else is left undecided"""
    if Ir is not None and getattr(Ir, 'uncaught', None):
        ctx.violation(rule, tag, where_, 'reading back the file the writer produced raises %s' % Ir.uncaught, 'read-raises')
        return True
    compare(ctx, rule, tag, where_, out if isinstance(out, Unk) else Unk('reader result %r' % (out,)), Poly(), findings=fnd)
    return False


def check_sed(ctx, rule_rt='AGREE-4', rule_rev='PERM-4'):
    """SED.write -> SED.read for both read orders, with the flux unit kept (mJy) and converted (mJy -> erg/cm^2/s, which multiplies by the frequency of the same cell)"""
    repo = ctx.repo
    fw, fr = ctx.fn(repo.func('sed.sed', 'SED.write')), ctx.fn(repo.func('sed.sed', 'SED.read'))
    scls = repo.cls('sed.sed', 'SED')
    decided = True
    erg_cm2_s = unit_atom('erg') * unit_atom('cm').pow(-2) * unit_atom('s').pow(-1)
    erg_s = unit_atom('erg') * unit_atom('s').pow(-1)
    for order in ('nu', 'wav'):
        for conv in (False, True, 'lum'):
            obj = Obj(scls, {'name': 'NAME', 'distance': scalar(sym('dist') * unit_atom('Udist'), unit_atom('Udist')), '_apertures': symarr('ap', (A,), unit=unit_atom('Uap')),
                             '_wav': symarr('wav', (N,), unit=unit_atom('Uwav')), '_nu': symarr('nu', (N,), unit=unit_atom('Unu')),
                             '_flux': symarr('flux', (A, N), unit=erg_s if conv == 'lum' else unit_atom('mJy')),
                             '_error': symarr('err', (A, N), unit=erg_s if conv == 'lum' else unit_atom('Jy'))})      # flux / error in different units where possible: a unit string taken from the other column shows
            req = Arr((), erg_cm2_s, unit=erg_cm2_s) if conv is True else Arr((), unit_atom('mJy'), unit=unit_atom('mJy'))
            Iw, Ir, out = _run(repo, ('sed.sed', 'SED'), 'SED.write', 'SED.read', obj, {'unit_flux': req, 'order': order})
            tag = 'SED round trip (read order %s, flux %s)' % (order, {False: 'unit kept', True: 'converted mJy -> erg/cm^2/s', 'lum': 'converted erg/s -> mJy'}[conv])
            where_ = loc(fr)
            fnd = (Iw.findings if Iw else []) + (Ir.findings if Ir else [])
            if not isinstance(out, Obj):
                if not _not_read(ctx, rule_rt, tag, where_, out, Ir, fnd):
                    decided = False
                continue
            srt = alg.array_fn('argsort', N, sym('nu', N))
            g = lambda p_: mk_fn('at', B(N, p_), P(srt))
            nus, wavs = g(sym('nu', N)), g(sym('wav', N))
            c = lt(last(nus), first(nus)) if order == 'nu' else lt(last(wavs), first(wavs))
            scale = {False: Poly.const(1), True: nus, 'lum': (sym('dist') * unit_atom('Udist')).pow(-2) * nus.pow(-1)}[conv]
            vocab = {'wav', 'nu', 'flux', 'err', 'ap', 'dist'}
            fns = {'rev', 'argsort'}
            refs = [('wav', wavs, (N,), rule_rev), ('nu', nus, (N,), rule_rev), ('flux', g(sym('flux', A, N)) * scale, (A, N), rule_rev), ('error', g(sym('err', A, N)) * scale, (A, N), rule_rev)]
            for name, stored, dims, rule in refs:
                got = _attr(Ir, out, name, fr)
                okk = compare(ctx, rule, '%s: %s' % (tag, name), where_, got, reversed_if(c, stored), dims, vocab=vocab, fns=fns, findings=fnd,
                              detail_ok='the stored %s (written in increasing frequency), reversed together with the other spectral arrays exactly when the requested order asks for it%s'
                              % (name, {False: '', True: '; each cell multiplied by the frequency of the same cell', 'lum': '; each cell divided by distance^2 and by the frequency of the same cell'}[conv] if name in ('flux', 'error') else ''))
                if not okk and not any(o.rule == rule and o.instance == '%s: %s' % (tag, name) and o.status == 'VIOLATION' for o in ctx.obs):
                    decided = False
            for name, ref, dims in (('apertures', sym('ap', A), (A,)), ('distance', sym('dist') * unit_atom('Udist'), ())):
                okk = compare(ctx, rule_rt, '%s: %s' % (tag, name), where_, _attr(Ir, out, name, fr), ref, dims, vocab=vocab, fns=fns, detail_ok='read back as written')
                if not okk and not any(o.rule == rule_rt and o.instance == '%s: %s' % (tag, name) and o.status == 'VIOLATION' for o in ctx.obs):
                    decided = False
            nm = _attr(Ir, out, 'name', fr)
            ctx.expect(nm == 'NAME', rule_rt, '%s: name' % tag, where_, 'read back as written', 'name read back as %r' % (nm,), 'name')
    return decided


def check_cube(ctx, rule_rt='AGREE-5', rule_rev='PERM-5'):
    repo = ctx.repo
    fw, fr = ctx.fn(repo.func('sed.cube', 'BaseCube.write')), ctx.fn(repo.func('sed.cube', 'BaseCube.read'))
    ccls = repo.cls('sed.cube', 'SEDCube')
    decided = True
    for order in ('nu', 'wav'):
        for ap, unc in ((True, True), (False, False)):
            obj = Obj(ccls, {'_names': symarr('cnames', (M,)), '_wav': symarr('cwav', (N,), unit=unit_atom('Uwav')), '_nu': None,
                             '_apertures': symarr('cap', (A,), unit=unit_atom('Uap')) if ap else None,
                             '_val': symarr('cval', (M, A if ap else None, N), unit=unit_atom('Uval')), '_unc': symarr('cunc', (M, A if ap else None, N), unit=unit_atom('Uval')) if unc else None,
                             '_distance': scalar(sym('cdist') * unit_atom('Udist'), unit_atom('Udist')), '_valid': symarr('cvalid', (M,))})
            Iw, Ir, out = _run(repo, ('sed.cube', 'SEDCube'), 'BaseCube.write', 'BaseCube.read', obj, {'order': order})
            tag = 'cube round trip (read order %s, %s)' % (order, 'with apertures and uncertainties' if ap else 'without apertures and uncertainties')
            where_ = loc(fr)
            fnd = (Iw.findings if Iw else []) + (Ir.findings if Ir else [])
            if not isinstance(out, Obj):
                if not _not_read(ctx, rule_rt, tag, where_, out, Ir, fnd):
                    decided = False
                continue
            wav = sym('cwav', N)
            nu = mk_fn('spectral', P(wav))
            c = lt(last(nu), first(nu)) if order == 'nu' else lt(last(wav), first(wav))
            vocab = {'cwav', 'cval', 'cunc', 'cap', 'cdist', 'cnames', 'cvalid'}
            fns = {'rev', 'spectral'}
            vd = (M, A if ap else None, N)
            refs = [('wav', wav, (N,), rule_rev), ('nu', nu, (N,), rule_rev), ('val', sym('cval', *[d for d in vd if d]), vd, rule_rev)]
            if unc:
                refs.append(('unc', sym('cunc', *[d for d in vd if d]), vd, rule_rev))
            for name, stored, dims, rule in refs:
                okk = compare(ctx, rule, '%s: %s' % (tag, name), where_, _attr(Ir, out, name, fr), reversed_if(c, stored), dims, vocab=vocab, fns=fns, findings=fnd,
                              detail_ok='the stored %s, reversed on the spectral axis together with the others exactly when the requested order asks for it' % name)
                if not okk and not any(o.rule == rule and o.instance == '%s: %s' % (tag, name) and o.status == 'VIOLATION' for o in ctx.obs):
                    decided = False
            same = [('names', sym('cnames', M), (M,)), ('distance', sym('cdist') * unit_atom('Udist'), ()), ('valid', alg.b_not(alg.eq(sym('cvalid', M), 0)), (M,))]
            if ap:
                same.append(('apertures', sym('cap', A), (A,)))
            for name, ref, dims in same:
                okk = compare(ctx, rule_rt, '%s: %s' % (tag, name), where_, _attr(Ir, out, name, fr), ref, dims, vocab=vocab, fns=fns, detail_ok='read back as written')
                if not okk and not any(o.rule == rule_rt and o.instance == '%s: %s' % (tag, name) and o.status == 'VIOLATION' for o in ctx.obs):
                    decided = False
            if not ap:
                got = _attr(Ir, out, 'apertures', fr)
                (ctx.undecided(rule_rt, '%s: apertures stay absent' % tag, where_, 'not modelled: %r' % (got,)) if isinstance(got, Unk) else ctx.expect(got is None, rule_rt, '%s: apertures stay absent' % tag, where_, 'absent parts stay absent', 'apertures read back as %r' % (got,), 'absent-apertures'))
            if not unc:
                got = _attr(Ir, out, 'unc', fr)
                (ctx.undecided(rule_rt, '%s: uncertainties stay absent' % tag, where_, 'not modelled: %r' % (got,)) if isinstance(got, Unk) else ctx.expect(got is None, rule_rt, '%s: uncertainties stay absent' % tag, where_, 'absent parts stay absent', 'uncertainties read back as %r' % (got,), 'absent-unc'))
    return decided


def check_conv(ctx, rule_rt='AGREE-3'):
    repo = ctx.repo
    mod = 'convolved_fluxes.convolved_fluxes'
    fw, fr = ctx.fn(repo.func(mod, 'ConvolvedFluxes.write')), ctx.fn(repo.func(mod, 'ConvolvedFluxes.read'))
    fcls = repo.cls(mod, 'ConvolvedFluxes')
    decided = True
    for ap in (True, False):
        obj = Obj(fcls, {'_model_names': symarr('names', (M,)), '_apertures': symarr('cap', (A,), unit=unit_atom('Uap')) if ap else None,
                         '_flux': symarr('flux', (M, A if ap else None), unit=unit_atom('Uf')), '_error': symarr('err', (M, A if ap else None), unit=unit_atom('Ue')),
                         '_wavelength': scalar(sym('cw') * unit_atom('Uw'), unit_atom('Uw'))})
        Iw, Ir, out = _run(repo, (mod, 'ConvolvedFluxes'), 'ConvolvedFluxes.write', 'ConvolvedFluxes.read', obj, {})
        tag = 'convolved-flux round trip (%s)' % ('with apertures' if ap else 'without apertures')
        where_ = loc(fr)
        fnd = (Iw.findings if Iw else []) + (Ir.findings if Ir else [])
        if not isinstance(out, Obj):
            if not _not_read(ctx, rule_rt, tag, where_, out, Ir, fnd):
                decided = False
            continue
        vocab = {'names', 'cap', 'flux', 'err', 'cw'}
        fd = (M, A if ap else None)
        same = [('model_names', sym('names', M), (M,)), ('flux', sym('flux', *[d for d in fd if d]), fd), ('error', sym('err', *[d for d in fd if d]), fd),
                ('central_wavelength', sym('cw') * unit_atom('Uw'), ())]
        if ap:
            same.append(('apertures', sym('cap', A), (A,)))
        for name, ref, dims in same:
            got = _attr(Ir, out, name, fr)
            if name == 'model_names' and isinstance(got, Arr):
                # the MODEL_NAME column of a convolved-flux file is 30 characters wide - the format's own limit, which model names are taken to respect; a
                # narrower field would cut names the format allows
                got = got.with_(poly=alg.rebuild(got.poly, lambda a: Poly.from_key(a[2][1]) if a[0] == 'fn' and a[1] == 'cut' and len(a) == 4 and a[3][0] == 'C' and a[3][1] >= 30 else None))
            okk = compare(ctx, rule_rt, '%s: %s' % (tag, name), where_, got, ref, dims, vocab=vocab, fns={'cut'}, findings=fnd, detail_ok='read back as written')
            if not okk and not any(o.rule == rule_rt and o.instance == '%s: %s' % (tag, name) and o.status == 'VIOLATION' for o in ctx.obs):
                decided = False
        if not ap:
            got = _attr(Ir, out, 'apertures', fr)
            (ctx.undecided(rule_rt, '%s: apertures stay absent' % tag, where_, 'not modelled: %r' % (got,)) if isinstance(got, Unk) else ctx.expect(got is None, rule_rt, '%s: apertures stay absent' % tag, where_, 'absent parts stay absent', 'apertures read back as %r' % (got,), 'absent-apertures'))
    return decided


class TrialCtx:
    """buffers the verdicts of one scenario so that the caller can keep them (commit) or drop them in favour of other scenarios"""
    def __init__(self, ctx, suffix=''):
        self._ctx, self._suffix, self._calls = ctx, suffix, []
        self.n_undecided = self.n_violations = 0

    def __getattr__(self, name):
        return getattr(self._ctx, name)

    def ok(self, rule, instance, where, detail, **kw):
        self._calls.append(('ok', (rule, instance + self._suffix, where, detail), kw))

    def violation(self, rule, instance, where, detail, key=None):
        self.n_violations += 1
        self._calls.append(('violation', (rule, instance + self._suffix, where, detail, key or ''), {}))

    def undecided(self, rule, instance, where, detail):
        self.n_undecided += 1
        self._calls.append(('undecided', (rule, instance + self._suffix, where, detail), {}))

    def expect(self, cond, rule, instance, where, ok_detail, bad_detail, key=None, **kw):
        if cond:
            self.ok(rule, instance, where, ok_detail, **kw)
        else:
            self.violation(rule, instance, where, bad_detail, key)

    def commit(self):
        for m, a, kw in self._calls:
            getattr(self._ctx, m)(*a, **kw)
        self._calls = []
