"""The fit-results file (FitInfoFile) decided by interpretation.

A file opened in binary mode is a *stream of pickles*: ``pickle.dump(obj, handle, protocol)`` appends one item, ``pickle.load(handle)`` returns the next
item (the very object that was dumped: what is compared afterwards is identity and attribute values, not bytes) and raises EOFError at the end.
A truncated file is a stream cut after some item; a cut *inside* an item makes the load of that item raise (EOFError for a cut at its first byte,
UnpicklingError otherwise - both are tried).  FitInfoFile.__init__ / write / close / __iter__ are interpreted as they are written - generators run
eagerly, ``while True`` loops unrolled, helpers inlined - so the obligations below do not depend on how the class spells them."""
from . import alg
from .alg import sym
from .interp import Foreign, PyRaise, Hooks, Interp, Obj, Arr, Unk, ClassRef, symarr, num, Raised, BytesSeq
from .fitmodel import loc

R, W = 'r', 'w'


class PickleStream(Foreign):
    def __init__(self, items=None, cut=None):
        self.items = list(items or [])
        self.pos = 0
        self.cut = cut            # None | exception name raised when reading past the last complete item (a file cut inside the next item)
        self.closed = False
        self.raw = []             # anything written that is not a pickle (handle.write)
        self.cut_item = None      # the item the cut falls in, when there is one
        self.unmodelled = None    # text of a write whose content the model does not know

    def sl_method(self, interp, name, args, kw, node):
        if name == 'close':
            self.closed = True
            return None
        if name in ('flush',):
            return None
        if name in ('write',) and len(args) == 1 and isinstance(args[0], PickleBytes):
            self.items.append(args[0].obj)          # the bytes of one whole pickle written to the file: one item of the stream
            return None
        if name in ('write',) and len(args) == 1 and isinstance(args[0], BytesSeq) and all(isinstance(x_, PickleBytes) for x_ in args[0].parts):
            for x_ in args[0].parts:
                self.items.append(x_.obj)          # several whole pickles written with one call
            return None
        if name in ('write',) and len(args) == 1 and isinstance(args[0], Arr) and args[0].mask is None and args[0].ndim >= 1:
            self.items.append(('RAWARR', args[0]))          # handle.write(x.data) / handle.write(x): the bytes of x's values, row-major, with nothing around them
            return None
        if name in ('write',):
            self.raw.append(args)
            self.items.append(('RAW', args))
            if not (len(args) == 1 and isinstance(args[0], (bytes, str))):
                self.unmodelled = 'handle.write(%r)' % (args,)          # what was written is not known: nothing can be said about reading it back
            return None
        if name == 'read' and len(args) <= 1:
            # handle.read(n): the next n bytes.  Modelled where they are (the start of) a raw block of values: the block, or what is left of it in a cut file
            if self.pos < len(self.items):
                it = self.items[self.pos]
                if isinstance(it, tuple) and it and it[0] == 'RAWARR':
                    self.pos += 1
                    return _RawBytes(it[1], False)
                return Unk('raw read where the file holds a pickle', node)
            self.cut_raised = True
            ref = self.cut_item[1] if isinstance(self.cut_item, tuple) and self.cut_item and self.cut_item[0] == 'RAWARR' else None
            dims = ('cut~',) + (tuple(ref.dims[1:]) if ref is not None else ())
            return _RawBytes(symarr('values_before_the_cut', dims, unit=ref.unit if ref is not None else None), True)
        if name in ('read', 'readline', 'tell', 'seek'):
            return Unk('raw %s on the results file' % name, node)
        if name == 'raw_write_array' and len(args) == 1 and isinstance(args[0], Arr) and args[0].mask is None:
            self.items.append(('RAWARR', args[0]))          # x.tofile(handle): the values of x, in row-major order, with nothing around them
            return None
        if name == 'raw_read_array':
            # np.fromfile(handle, ...): the values that come next, flat; where the file ends first, those that are there (no error)
            if self.pos < len(self.items):
                it = self.items[self.pos]
                if isinstance(it, tuple) and it and it[0] == 'RAWARR':
                    self.pos += 1
                    want = interp._as_arr(args[0]) if args and args[0] is not None else None
                    have = Poly_one()
                    for d in it[1].dims:
                        have = have * (num(interp.axis_len[d]) if d in interp.axis_len else alg.count(d))
                    if isinstance(want, Arr) and not (want.poly == have):
                        return Unk('np.fromfile asked for %s values where the block written holds %s' % (alg.show(want.poly, 60), alg.show(have, 60)), node)
                    return _RawFlat(it[1])
                return Unk('np.fromfile where the file holds a pickle', node)
            self.cut_raised = True          # whatever was left of the block is consumed
            ref = self.cut_item[1] if isinstance(self.cut_item, tuple) and self.cut_item and self.cut_item[0] == 'RAWARR' else None
            dims = ('cut~',) + (tuple(ref.dims[1:]) if ref is not None else ())
            return _RawFlat(symarr('values_before_the_cut', dims, unit=ref.unit if ref is not None else None), short=True)
        return NotImplemented


def Poly_one():
    return alg.Poly.const(1)


class _RawFlat(Foreign):
    """what np.fromfile returns for a block written by x.tofile(): the values of x as a flat array; reshape(-1, n) with n the extent of x's last
    axis gives x back (for a block cut short: as many whole rows as there are, when the cut falls on a row boundary)"""
    def __init__(self, arr, short=False):
        self.arr, self.short = arr, short

    def as_value(self):
        return self.arr if self.arr.ndim == 1 else Unk('flat view of a %d-d block' % self.arr.ndim)

    def sl_method(self, interp, name, args, kw, node):
        if name == 'reshape':
            sh = list(args[0]) if len(args) == 1 and isinstance(args[0], (tuple, list)) else list(args)
            if len(sh) != self.arr.ndim:
                return Unk('block of %d axes reshaped to %d' % (self.arr.ndim, len(sh)), node)
            for k, (v, d) in enumerate(zip(sh, self.arr.dims)):
                a = interp._as_arr(v)
                if k == 0 and isinstance(a, Arr) and a.poly == num(-1):
                    continue
                ext = num(interp.axis_len[d]) if d in interp.axis_len else alg.count(d)
                if not (isinstance(a, Arr) and a.poly == ext):
                    return Unk('block reshaped to another extent along %r' % (d,), node)
            return self.arr
        if name in ('copy', 'astype'):
            return self
        return NotImplemented


class _Pickled:
    """what a pickle holds of an object of a package class: the class and the state its __getstate__ gave (its attributes when it has none)"""
    def __init__(self, cls, state, custom):
        self.cls, self.state, self.custom = cls, state, custom


def snapshot(obj, memo=None, seen=None, interp=None):
    """what a pickle holds of obj: its state when it was dumped.  Objects of package classes are reduced through their own __getstate__ (interpreted),
    recursively; arrays and plain values are immutable here.  ``memo`` is a Pickler's memo {id(object): its first copy}: an object the same Pickler has
    already written is written as a reference to that first copy, whatever it holds now."""
    seen = {} if seen is None else seen
    if isinstance(obj, Obj):
        if memo is not None and id(obj) in memo:
            return memo[id(obj)][1]
        if id(obj) in seen:
            return seen[id(obj)]
        rep = _Pickled(obj.cls, {}, False)
        seen[id(obj)] = rep
        if memo is not None:
            memo[id(obj)] = (obj, rep)          # (the object is kept alive so that its id stays its own)
        state = None
        gs = interp.repo.find_member(obj.cls, '__getstate__') if interp is not None and obj.cls is not None else None
        if gs is not None and gs[0] == 'method':
            st_ = interp.call(gs[1], [], selfv=obj)
            if isinstance(st_, dict):
                state, rep.custom = st_, True
            else:
                rep.state = Unk('__getstate__ of %s not modelled: %r' % (obj.cls.name, st_))
                return rep
        if state is None:
            state = dict(obj.attrs)
        rep.state = {k: snapshot(v, memo, seen, interp) for k, v in state.items()}
        return rep
    if isinstance(obj, list):
        return [snapshot(v, memo, seen, interp) for v in obj]
    if isinstance(obj, tuple):
        return tuple(snapshot(v, memo, seen, interp) for v in obj)
    if isinstance(obj, dict):
        return {k: snapshot(v, memo, seen, interp) for k, v in obj.items()}
    return obj


def materialise(v, interp, memo=None):
    """the object a load gives back for what snapshot() stored: a new object of the class, filled through its __setstate__ (interpreted) - or attribute
    by attribute when the class has none.  ``memo`` {id(stored copy): loaded object} is the memo of the load (or of the Unpickler that is doing several)."""
    memo = {} if memo is None else memo
    if isinstance(v, _Pickled):
        if id(v) in memo:
            return memo[id(v)]
        o = Obj(v.cls, {})
        memo[id(v)] = o
        if isinstance(v.state, Unk):
            o.attrs['__state__'] = v.state
            return o
        state = {k: materialise(x, interp, memo) for k, x in v.state.items()}
        ss = interp.repo.find_member(v.cls, '__setstate__') if interp is not None and v.cls is not None else None
        if ss is not None and ss[0] == 'method':
            r = interp.call(ss[1], [state], selfv=o)
            if isinstance(r, Unk):
                o.attrs['__state__'] = r
        else:
            o.attrs.update(state)
        return o
    if isinstance(v, list):
        return [materialise(x, interp, memo) for x in v]
    if isinstance(v, tuple) and not (v and v[0] in ('RAW', 'RAWARR', 'REF')):
        return tuple(materialise(x, interp, memo) for x in v)
    if isinstance(v, dict):
        return {k: materialise(x, interp, memo) for k, x in v.items()}
    return v


class _RawBytes(Foreign):
    """the bytes handle.read() returned for a raw block of values (all of it, or what a cut file still holds): np.frombuffer gives the values, flat"""
    def __init__(self, arr, short):
        self.arr, self.short = arr, short

    def sl_frombuffer(self, interp, kw, node):
        return _RawFlat(self.arr, self.short)


class PickleBytes(Foreign):
    """pickle.dumps(obj): the bytes of one pickle, carried as the object they hold"""
    def __init__(self, obj):
        self.obj = obj


class _Pickler(Foreign):
    """pickle.Pickler(handle, protocol): dump(obj) appends one item to the stream"""
    def __init__(self, stream):
        self.stream = stream
        self.memo = {}

    def sl_method(self, interp, name, args, kw, node):
        if name == 'dump' and len(args) == 1:
            o = args[0]
            if isinstance(o, Obj) and id(o) in self.memo:
                self.stream.items.append(('REF', self.memo[id(o)][1]))          # already written by this Pickler: a reference to what was written then
            else:
                self.stream.items.append(snapshot(o, self.memo, None, interp))
            return None
        if name == 'clear_memo':
            self.memo.clear()
            return None
        return NotImplemented

    def sl_getattr(self, interp, name, node):
        if name == 'memo':
            return {}
        return NotImplemented


class RecHooks(Hooks):
    """open() gives the prepared stream; pickle.dump / pickle.load / Unpickler(handle).load work on it"""
    def __init__(self, stream):
        self.stream = stream
        self.opened = []

    def opaque(self, interp, fi, args, kwargs, node):
        if fi.name in ('validate_array', 'validate_scalar'):
            return args[1] if len(args) > 1 else kwargs.get('value')
        return NotImplemented

    def external(self, interp, name, args, kwargs, node, mod):
        if name == 'builtins.open':
            self.opened.append((args, kwargs))
            return self.stream
        if name in ('pickle.dump', '_pickle.dump', 'cPickle.dump') and len(args) >= 2 and isinstance(args[1], PickleStream):
            args[1].items.append(snapshot(args[0], None, None, interp))          # the state of the object now
            return None
        if name in ('pickle.load', '_pickle.load', 'cPickle.load') and args and isinstance(args[0], PickleStream):
            return _load(args[0], interp)
        if name in ('pickle.Unpickler', '_pickle.Unpickler') and args and isinstance(args[0], PickleStream):
            return _Unpickler(args[0])
        if name in ('pickle.Pickler', '_pickle.Pickler') and args and isinstance(args[0], PickleStream):
            return _Pickler(args[0])
        if name in ('pickle.dumps', '_pickle.dumps') and args:
            return PickleBytes(snapshot(args[0], None, None, interp))
        if name in ('pickle.loads', '_pickle.loads') and args and isinstance(args[0], PickleBytes):
            return materialise(args[0].obj, interp)
        if name.startswith('os.path.exists'):
            return True
        return NotImplemented


class _Unpickler(Foreign):
    """one Unpickler for several loads resolves references to objects it has loaded before (they come back as the object loaded then)"""
    def __init__(self, stream):
        self.stream = stream
        self.memo = {}

    def sl_method(self, interp, name, args, kw, node):
        if name == 'load' and not args:
            return _load(self.stream, interp, self.memo)
        return NotImplemented


def _load(st, interp, memo=None):
    if st.pos < len(st.items):
        v = st.items[st.pos]
        st.pos += 1
        if isinstance(v, tuple) and v and v[0] in ('RAW', 'RAWARR'):
            raise PyRaise('UnpicklingError', 'raw bytes where a pickle is expected')
        if isinstance(v, tuple) and v and v[0] == 'REF':
            if memo is not None and id(v[1]) in memo:
                return memo[id(v[1])]          # the object this Unpickler loaded when it met the first copy
            raise PyRaise('UnpicklingError', 'a reference into the memo of another load')
        return materialise(v, interp, memo)
    if st.cut and not getattr(st, 'cut_raised', False):
        st.cut_raised = True          # the partial item is consumed by the failing load: the file is at its end afterwards
        raise PyRaise(st.cut, 'the file ends inside this item')
    raise PyRaise('EOFError', 'end of the file')


# ------------------------------------------------------------------ symbolic records

def make_meta(repo, tag=''):
    law = Obj(repo.cls('extinction.extinction', 'Extinction'), {'_wav': symarr('lawwav' + tag, ('t',), unit=alg.sym('unit:micron')),
                                                                  '_chi': symarr('lawchi' + tag, ('t',), unit=alg.sym('unit:cm').pow(2) / alg.sym('unit:g'))})
    return Obj(repo.cls('fit_info', 'FitInfoMeta'), {'model_dir': 'DIR' + tag, 'filters': [{'name': 'F1' + tag}], 'extinction_law': law})


def make_info(repo, k, meta):
    src = Obj(repo.cls('source.source', 'Source'), {'_name': 'SRC%d' % k, '_x': symarr('x%d' % k, (), unit=num(1)), '_y': symarr('y%d' % k, (), unit=num(1)),
                                                      '_valid': symarr('valid%d' % k, (W,), unit=num(1)), '_flux': symarr('flux%d' % k, (W,), unit=num(1)),
                                                      '_error': symarr('error%d' % k, (W,), unit=num(1))})
    return Obj(repo.cls('fit_info', 'FitInfo'), {'source': src, 'av': symarr('av%d' % k, (R,), unit=num(1)), 'sc': symarr('sc%d' % k, (R,), unit=num(1)),
                                                  'chi2': symarr('chi2_%d' % k, (R,), unit=num(1)), 'model_id': symarr('id%d' % k, (R,), unit=num(1)),
                                                  'model_name': symarr('name%d' % k, (R,)), 'model_fluxes': symarr('mf%d' % k, (R, W), unit=num(1)), 'meta': meta})


def open_file(repo, stream, mode, nlen=None):
    """FitInfoFile('FILE', mode) interpreted; returns (interp, object or Unk).  nlen: the number of fits every record holds (None: any number)"""
    ci = repo.cls('fit_info', 'FitInfoFile')
    I = Interp(repo, RecHooks(stream))
    I.axis_len[W] = 1          # make_meta: one filter
    if nlen is not None:
        I.axis_len[R] = nlen
    o = Obj(ci, {})
    o.strict = True
    r = I.call(repo.find_member(ci, '__init__')[1], ['FILE', mode], selfv=o)
    if isinstance(r, Unk):
        return I, r
    return I, o


def write_records(repo, infos, nlen=None):
    """(stream, errors): the stream produced by FitInfoFile('FILE','w'), write(info)..., close(); stream.marks[k] is the number of items in the file
    when the k-th write() returned (record k is completely written once the file holds that many items)"""
    ci = repo.cls('fit_info', 'FitInfoFile')
    st = PickleStream()
    st.marks = []
    I, f = open_file(repo, st, 'w', nlen)
    if isinstance(f, Unk):
        return st, I, f
    for info in infos:
        r = I.call(repo.find_member(ci, 'write')[1], [info], selfv=f)
        if isinstance(r, Unk):
            return st, I, r
        st.marks.append(len(st.items))
    I.call(repo.find_member(ci, 'close')[1], [], selfv=f)
    if I.lost:
        return st, I, Unk('a call of the writer was not modelled (%s): what the stream holds is not all that was written' % (str(I.lost[0])[:100],))
    if st.unmodelled:
        return st, I, Unk('the writer wrote data the model does not know: %s' % st.unmodelled[:100])
    return st, I, None


def read_records(repo, items, cut=None, nlen=None, cut_item=None):
    """(records yielded or Unk, interp, file object): FitInfoFile('FILE','r') iterated to the end on the given stream"""
    ci = repo.cls('fit_info', 'FitInfoFile')
    st = PickleStream(items, cut)
    st.cut_item = cut_item
    I, f = open_file(repo, st, 'r', nlen)
    if isinstance(f, Unk):
        return f, I, None
    out = I.iterate_obj(f, None)
    if I.lost and isinstance(out, list):
        out = Unk('a call of the reader was not modelled (%s)' % (str(I.lost[0])[:100],))
    return out, I, f


def same_value(a, b):
    if a is b:
        return True
    if isinstance(a, Arr) and isinstance(b, Arr):
        return tuple(a.dims) == tuple(b.dims) and a.poly == b.poly and a.mask is None and b.mask is None
    if isinstance(a, Obj) and isinstance(b, Obj):
        return a.cls is b.cls and set(a.attrs) == set(b.attrs) and all(same_value(a.attrs[k], b.attrs[k]) for k in a.attrs)
    if isinstance(a, (list, tuple)) and isinstance(b, (list, tuple)):
        return len(a) == len(b) and all(same_value(x, y) for x, y in zip(a, b))
    if isinstance(a, dict) and isinstance(b, dict):
        return set(a) == set(b) and all(same_value(a[k], b[k]) for k in a)
    if isinstance(a, (Arr, Obj, Unk)) or isinstance(b, (Arr, Obj, Unk)):
        return False
    return a == b


def snapshot_items(items, extra=()):
    """the attribute tables of every object in the stream (and of the records given): a file read twice gives the same objects twice, whatever the
    first reader did with the ones it got"""
    return [(o, dict(o.attrs)) for o in list(items) + list(extra) if isinstance(o, Obj)]


def restore_items(snap):
    for o, attrs in snap:
        o.attrs.clear(); o.attrs.update(attrs)


def same_record(a, b):
    """the record a is the record b: the same object, or an object of the same class whose attributes (the metadata apart) have the same values"""
    if a is b:
        return True
    return isinstance(a, Obj) and isinstance(b, Obj) and a.cls is b.cls and set(a.attrs) - {'meta'} == set(b.attrs) - {'meta'} \
        and all(same_value(a.attrs[k], b.attrs[k]) for k in a.attrs if k != 'meta')


def scenario_sizes(repo):
    """record sizes that straddle every integer constant of the module that holds the file class: c, c + 1 and 2c + 3 fits for each constant c >= 4
    (a record is written and read differently only where the code compares its size with such a constant)"""
    import ast
    mod = repo.cls('fit_info', 'FitInfoFile').module
    tree = getattr(mod, 'tree', None)
    consts = set()
    if tree is None:
        return []
    def fold(n):
        if isinstance(n, ast.Constant) and isinstance(n.value, int) and not isinstance(n.value, bool):
            return n.value
        if isinstance(n, ast.BinOp) and isinstance(n.op, (ast.Pow, ast.Mult, ast.Add, ast.Sub, ast.LShift)):
            a, b = fold(n.left), fold(n.right)
            if a is None or b is None or (isinstance(n.op, (ast.Pow, ast.LShift)) and not 0 <= b <= 40):
                return None
            return {ast.Pow: lambda: a ** b, ast.Mult: lambda: a * b, ast.Add: lambda: a + b, ast.Sub: lambda: a - b, ast.LShift: lambda: a << b}[type(n.op)]()
        return None
    for n in ast.walk(tree):
        v = fold(n)
        if v is not None and 4 <= v <= 10 ** 7:
            consts.add(v)
    out = []
    for c in sorted(consts)[-3:]:
        for n in (c, c + 1, 2 * c + 3):
            if n not in out:
                out.append(n)
    return out


def _by_size(ctx, run_one):
    """decide with records of any size; where the file class treats records differently according to their size (so that the size-free interpretation
    has no verdict) decide on the sizes that straddle its constants"""
    from .roundtrip import TrialCtx
    t = TrialCtx(ctx)
    r = run_one(t, None)
    if not t.n_undecided:
        t.commit()
        return r
    trials = []
    for n in scenario_sizes(ctx.repo):
        tn = TrialCtx(ctx, ' [records of %d fits]' % n)
        trials.append((tn, run_one(tn, n)))
    if trials and (not any(tn.n_undecided for tn, _ in trials) or any(tn.n_violations for tn, _ in trials)):
        for tn, _ in trials:
            tn.commit()
        return all(rn for _, rn in trials)
    t.commit()
    return r


def same_meta(m, ref):
    return isinstance(m, Obj) and all(same_value(m.attrs.get(k), ref.attrs.get(k)) for k in ('model_dir', 'filters', 'extinction_law'))


def check_write_read(ctx, rule_w='CFG-2', rule_r='AGREE-2'):
    return _by_size(ctx, lambda c, n: _check_write_read(c, rule_w, rule_r, n))


def _check_write_read(ctx, rule_w, rule_r, nlen):
    """read back: the records that were written, in order, each with the stored metadata attached (metadata once and one pickle per record is how
    the class does it today; it is recorded when it holds and decides nothing)"""
    repo = ctx.repo
    ci = repo.cls('fit_info', 'FitInfoFile')
    wfi, ifi = ctx.fn(repo.find_member(ci, 'write')[1]), ctx.fn(repo.find_member(ci, '__iter__')[1])
    ctx.fn(repo.find_member(ci, '__init__')[1])
    meta = make_meta(repo)
    infos = [make_info(repo, k, meta) for k in (1, 2, 3)]
    infos[1].attrs['model_fluxes'] = None          # written without the predicted fluxes (the default of fit()): 'with and without stored predicted fluxes'
    st, Iw, err = write_records(repo, infos, nlen)
    where_w, where_r = loc(wfi), loc(ifi)
    if err is not None:
        ctx.undecided(rule_w, 'records written with one shared metadata block', where_w, 'writing not modelled: %r' % (err,))
        return False
    held = [materialise(x, Iw) for x in st.items]          # what the stream holds, as objects
    head = held[:len(held) - 3] if len(held) >= 3 else []
    recs = held[len(head):]
    ok_recs = len(recs) == 3 and all(same_record(a, b) for a, b in zip(recs, infos))
    vals = [meta.attrs['model_dir'], meta.attrs['filters'], meta.attrs['extinction_law']]
    ok_head = len(head) >= 1 and all(any(same_value(h, v) for h in head) for v in vals) and not any(any(same_record(h, i) for i in infos) for h in head)
    plain = ok_recs and ok_head
    if plain:
        ctx.ok(rule_w, 'every record is written as one pickle, in the order given', where_w, 'stream ends with the %d records themselves' % len(infos))
        ctx.ok(rule_w, 'metadata written once, before the first record', where_w, 'header of %d items holding model_dir, filters and the extinction law, then the records' % len(head))
    else:
        # another layout (records in pieces, values stored beside the pickles, ...): what counts is what reading gives back
        ctx.ok(rule_w, 'layout of the file', where_w, 'the stream holds %d items for %d records (not a header and one pickle per record): decided by reading it back' % (len(st.items), len(infos)), nontrivial=False)
    modes = [(a[1] if len(a) > 1 else k.get('mode', 'r')) for a, k in Iw.hooks.opened]
    ctx.expect(bool(modes) and all(isinstance(m, str) and 'b' in m for m in modes), rule_r, 'the file is opened in binary mode', where_w, 'open(..., %s)' % modes,
               'the file is opened with mode %s: pickles are bytes' % modes, 'binary-mode')
    # a record whose metadata differs from the first is refused
    other = make_info(repo, 9, make_meta(repo, 'x'))
    st2, Iw2, err2 = write_records(repo, [infos[0], other], nlen)
    refused = isinstance(err2, Unk) and 'always raises' in err2.why
    if err2 is None and (getattr(Iw2, '_unknown_conds', 0) or Iw2.lost):
        err2 = Unk('a condition on the way was not decided')          # the record went through, but past a test the analysis could not decide
    ctx.expect(refused or err2 is None and False, rule_w, 'a record with different metadata is refused', where_w, 'write() raises', 'a record whose metadata differs from the first one is written under the first one\'s header' if err2 is None else 'not modelled: %r' % (err2,), 'meta-mismatch') if (refused or err2 is None) else ctx.undecided(rule_w, 'a record with different metadata is refused', where_w, 'not modelled: %r' % (err2,))
    # read back
    snapshots = [dict(i.attrs) for i in infos]
    out, Ir, f = read_records(repo, st.items, None, nlen)
    if not isinstance(out, list):
        if getattr(Ir, 'uncaught', None):
            ctx.violation(rule_r, 'records read back', where_r, 'reading the file that was just written raises %s' % Ir.uncaught, 'read-raises')
            return True
        if isinstance(out, Unk) and out.definite and 'did not terminate' in out.why:
            ctx.violation(rule_r, 'records read back', where_r, 'reading the file that was just written never stops: the loop goes on after the end of the file', 'read-loops')
            return True
        ctx.undecided(rule_r, 'records read back', where_r, 'reading not modelled: %r' % (out,))
        return False
    for i, snap in zip(infos, snapshots):
        if i not in out:
            i.attrs.clear(); i.attrs.update(snap)          # the records as they were given to write() (what is read back is another object)
    if any(isinstance(v_, Unk) for o in out if isinstance(o, Obj) for k_, v_ in o.attrs.items() if k_ != 'meta') and not all(same_record(a, b) for a, b in zip(out, infos)):
        ctx.undecided(rule_r, 'records read back', where_r, 'a value of a record read back was not modelled: %r' % ([v_ for o in out if isinstance(o, Obj) for v_ in o.attrs.values() if isinstance(v_, Unk)][:1],))
        return False
    ctx.expect(len(out) == 3 and all(same_record(a, b) for a, b in zip(out, infos)), rule_r, 'records read back', where_r, 'the records written, in order, value for value', 'reading yields %d objects that are not the %d records written, in order' % (len(out), len(infos)), 'read-records')
    ctx.expect(all(isinstance(o, Obj) and same_meta(o.attrs.get('meta'), meta) for o in out) and len(out) > 0, rule_r, 'metadata re-attached', where_r, 'every record read carries the stored model_dir, filters and extinction law',
               'records read from a file do not get the stored metadata', 'meta-reattached')
    check_rewritten(ctx, rule_r, where_r, nlen)
    fm = Ir.getattr(f, 'meta', None, ifi.module) if f is not None else None
    ctx.expect(same_meta(fm, meta), rule_r, 'metadata sequence', where_r, 'the file object\'s meta is the stored metadata: the reader loads the header in the order the writer dumped it', 'the file object\'s meta is %r' % (fm,), 'meta-sequence')
    return True


def check_rewritten(ctx, rule, where_, nlen=None):
    """a record holds what the object held when it was written: the same result object written again after it was cut (keep) - and two results that share
    one source object refilled in between - come back as two different records"""
    repo = ctx.repo
    ci = repo.cls('fit_info', 'FitInfoFile')
    meta = make_meta(repo)
    a = make_info(repo, 1, meta)
    b = make_info(repo, 2, meta)
    b.attrs['source'] = a.attrs['source']          # one Source instance, refilled for each line of the catalogue
    st = PickleStream()
    st.marks = []
    I, f = open_file(repo, st, 'w', nlen)
    inst = 'an object written again after it changed'
    if isinstance(f, Unk):
        ctx.undecided(rule, inst, where_, 'opening for writing not modelled: %r' % (f,))
        return
    wr = repo.find_member(ci, 'write')[1]
    expected = []

    def write(info):
        expected.append(Obj(info.cls, {k: (Obj(v.cls, dict(v.attrs)) if isinstance(v, Obj) and k == 'source' else v) for k, v in info.attrs.items()}))
        return I.call(wr, [info], selfv=f)
    r1 = write(a)
    a.attrs['chi2'] = symarr('chi2_1cut', (R,), unit=num(1))          # the result is cut (keep) and written again
    a.attrs['av'] = symarr('av1cut', (R,), unit=num(1))
    r2 = write(a)
    b.attrs['source'].attrs['_name'] = 'SRC2'          # the shared source is refilled for the next line
    b.attrs['source'].attrs['_flux'] = symarr('flux2', (W,), unit=num(1))
    r3 = write(b)
    I.call(repo.find_member(ci, 'close')[1], [], selfv=f)
    if any(isinstance(r, Unk) for r in (r1, r2, r3)) or I.lost:
        ctx.undecided(rule, inst, where_, 'writing not modelled: %r' % ([r for r in (r1, r2, r3) if isinstance(r, Unk)] or I.lost[:1],))
        return
    out, Ir, fr = read_records(repo, st.items, None, nlen)
    if not isinstance(out, list):
        if getattr(Ir, 'uncaught', None) or (isinstance(out, Unk) and 'always raises' in out.why):
            ctx.violation(rule, inst, where_, 'a file holding the same object twice cannot be read back: %s' % (Ir.uncaught or out.why), 'rewritten-unreadable')
        else:
            ctx.undecided(rule, inst, where_, 'reading not modelled: %r' % (out,))
        return
    if any(isinstance(v_, Unk) for o in out if isinstance(o, Obj) for k_, v_ in o.attrs.items() if k_ != 'meta'):
        ctx.undecided(rule, inst, where_, 'a value read back was not modelled')
        return
    okk = len(out) == 3 and all(same_record(x, y) for x, y in zip(out, expected))
    ctx.expect(okk, rule, inst, where_, 'three records: the result as first written, the result after the cut, the next source - each as it was when written',
               'reading gives %d records that are not, each, what its object held when it was written' % len(out), 'rewritten-object')


def check_truncation(ctx, rule='CFG-3'):
    return _by_size(ctx, lambda c, n: _check_truncation(c, rule, n))


def _check_truncation(ctx, rule, nlen):
    """C19: a file cut anywhere yields only records that were completely written, unchanged (apart from the metadata attached), and nothing else"""
    repo = ctx.repo
    ci = repo.cls('fit_info', 'FitInfoFile')
    ifi = ctx.fn(repo.find_member(ci, '__iter__')[1])
    ctx.fn(repo.find_member(ci, '__init__')[1])
    ctx.fn(repo.find_member(ci, 'write')[1])
    where_ = loc(ifi)
    meta = make_meta(repo)
    infos = [make_info(repo, k, meta) for k in (1, 2, 3)]
    infos[1].attrs['model_fluxes'] = None          # written without the predicted fluxes (the default of fit()): 'with and without stored predicted fluxes'
    st, Iw, err = write_records(repo, infos, nlen)
    if err is not None:
        ctx.undecided(rule + 'a', 'the file that is cut', loc(repo.find_member(ci, 'write')[1]), 'writing not modelled: %r' % (err,))
        return False
    items = st.items
    marks = st.marks
    snapshots = [dict(i.attrs) for i in infos]
    stream_snap = snapshot_items(items, infos)
    bad, undec, n = [], [], 0
    for k in range(len(items) + 1):
        for cut in ('EOFError', 'UnpicklingError'):
            if k == len(items) and cut != 'EOFError':
                continue
            restore_items(stream_snap)
            out, Ir, f = read_records(repo, items[:k], cut, nlen, items[k] if k < len(items) else None)
            n += 1
            complete = sum(1 for m_ in marks if m_ <= k)          # records whose last item is in the part of the file that is left
            if isinstance(out, list):
                got = out
            elif isinstance(out, Unk) and out.definite and 'did not terminate' in out.why:
                bad.append('file cut after %d of %d items (next load raises %s): the reader never stops (it keeps going round its loop on a file that has ended)' % (k, len(items), cut))
                continue
            elif getattr(Ir, 'uncaught', None) or (isinstance(out, Unk) and 'always raises' in out.why):
                got = None          # the read fails: nothing wrong was yielded (records yielded before the failure are checked below when they exist)
            else:
                undec.append('cut after item %d (%s): %r' % (k, cut, out))
                continue
            if got is None:
                continue
            written = [Obj(i.cls, snap) for i, snap in zip(infos, snapshots)]
            if len(got) <= complete and any(isinstance(v_, Unk) for o in got if isinstance(o, Obj) for k_, v_ in o.attrs.items() if k_ != 'meta'):
                undec.append('cut after item %d (%s): a value of a record read was not modelled' % (k, cut))
                continue
            if len(got) > complete:
                bad.append('file cut after %d of %d items (next load raises %s): yields %d records where %d were completely written' % (k, len(items), cut, len(got), complete))
            elif not all(same_record(a, b) for a, b in zip(got, written)):
                bad.append('file cut after %d of %d items (next load raises %s): a record read differs from the record written' % (k, len(items), cut))
    if undec and not bad:
        ctx.undecided(rule + 'a', 'cut files yield complete records only', where_, '; '.join(undec[:2]))
        return False
    ctx.expect(not bad, rule + 'a', 'cut files yield complete records only', where_, '%d cut positions x kinds of failing load: only records whose pickle is complete are yielded, unchanged, in order' % n, '; '.join(bad[:2]), 'truncation')
    # the intact file ends cleanly
    restore_items(stream_snap)
    out, Ir, f = read_records(repo, items, None, nlen)
    if isinstance(out, Unk) and not (out.definite or 'always raises' in out.why or getattr(Ir, 'uncaught', None)):
        ctx.undecided(rule + 'd', 'the intact file is read to its end without an error', where_, 'reading not modelled: %r' % (out,))
        return False
    ctx.expect(isinstance(out, list) and len(out) == len(infos), rule + 'd', 'the intact file is read to its end without an error', where_, 'EOFError at the end of the last record ends the iteration', 'reading the intact file gives %r' % (out if not isinstance(out, list) else len(out),), 'clean-end')
    return True


def check_inputs(ctx, rule='CFG-10'):
    """results passed as a single FitInfo, a list or a tuple are accepted and iterate as the objects given (copies, so that selecting does not modify the caller's results)"""
    repo = ctx.repo
    ci = repo.cls('fit_info', 'FitInfoFile')
    init = ctx.fn(repo.find_member(ci, '__init__')[1])
    ifi = repo.find_member(ci, '__iter__')[1]
    meta = make_meta(repo)
    a, b = make_info(repo, 1, meta), make_info(repo, 2, meta)
    decided = True
    for tag, arg, expect in (('a single result', a, [a]), ('a list of results', [a, b], [a, b]), ('a tuple of results', (a, b), [a, b])):
        I = Interp(repo, RecHooks(PickleStream()))
        f = Obj(ci, {})
        f.strict = True
        r = I.call(init, [arg], selfv=f)
        inst = 'results given as %s' % tag
        if isinstance(r, Unk):
            if 'always raises' in r.why or getattr(I, 'uncaught', None):
                ctx.violation(rule, inst, loc(init), 'the constructor raises for %s' % tag, 'input-refused')
            else:
                ctx.undecided(rule, inst, loc(init), 'not modelled: %r' % (r,)); decided = False
            continue
        out = I.iterate_obj(f, None)
        if not isinstance(out, list):
            if getattr(I, 'uncaught', None) or (isinstance(out, Unk) and ('always raises' in out.why or 'unknown attribute' in out.why)):
                ctx.violation(rule, inst, loc(ifi), 'iterating over %s fails: %s' % (tag, out.why if isinstance(out, Unk) else out), 'input-iter-fails')
            else:
                ctx.undecided(rule, inst, loc(ifi), 'not modelled: %r' % (out,)); decided = False
            continue
        if I.lost or any(not isinstance(o, Obj) or any(isinstance(v_, Unk) for v_ in o.attrs.values()) or not o.attrs for o in out):
            # what is handed out was not fully modelled (an unmodelled way of copying, a lost call): no verdict on it
            ctx.undecided(rule, inst, loc(ifi), 'the objects handed out were not fully modelled: %r' % ([o for o in out if not isinstance(o, Obj) or not o.attrs or any(isinstance(v_, Unk) for v_ in o.attrs.values())][:1] or I.lost[:1],))
            decided = False
            continue
        okk = len(out) == len(expect) and all(isinstance(o, Obj) and all(same_value(o.attrs.get(k_), e.attrs.get(k_)) for k_ in e.attrs if k_ != 'meta') and same_meta(o.attrs.get('meta'), meta) for o, e in zip(out, expect))
        ctx.expect(okk, rule, inst, loc(ifi), 'iterates over the results given, in order, with their metadata', 'iteration gives %d objects that are not the results given' % len(out), 'input-iter')
        if len(out) == 2 and okk:
            # results that came with one metadata object go to one output: write() takes the second only if its metadata equals the first's - by the class's own
            # __eq__, which falls back on identity for whatever has no __eq__ of its own (the extinction law)
            m0, m1 = out[0].attrs.get('meta'), out[1].attrs.get('meta')
            eq_ = repo.find_member(m0.cls, '__eq__') if isinstance(m0, Obj) and isinstance(m1, Obj) and m0.cls is not None else None
            same_ = True if m0 is m1 else (I.call(eq_[1], [m0], selfv=m1) if eq_ is not None and eq_[0] == 'method' else False)
            same_ = I._truth(same_) if not isinstance(same_, bool) else same_
            if same_ is not None:
                ctx.expect(same_, rule, '%s: the results handed out can be written to one file' % inst, loc(ifi), 'their metadata compare equal, as write() requires of every record after the first',
                           'the metadata of the second result handed out does not compare equal to the first\'s (a copy of an object without __eq__ equals only itself): write() refuses it', 'meta-not-equal')
        fresh = all(o is not e for o, e in zip(out, expect))
        ctx.expect(fresh, 'EFF-2', '%s: iteration hands out copies' % inst, loc(ifi), 'each object yielded is a copy: selecting fits on it leaves the caller\'s result as it was',
                   'yields the caller\'s own result object: consumers that select fits (keep) modify it', 'yields-original')
    I = Interp(repo, RecHooks(PickleStream()))
    r = I.call(init, [42], selfv=Obj(ci, {}))
    ctx.expect(isinstance(r, Unk) and 'always raises' in r.why, rule, 'anything else is refused', loc(init), 'raises', 'a number is accepted as results', 'bad-input')
    return decided


def iteration_verdict(repo):
    """what iterating over in-memory results hands out: ('fresh' | 'caller-owned' | 'fresh-nometa', detail) or None when the interpretation has no verdict"""
    ci = repo.cls('fit_info', 'FitInfoFile')
    init = repo.find_member(ci, '__init__')[1]
    meta = make_meta(repo)
    a, b = make_info(repo, 1, meta), make_info(repo, 2, meta)
    try:
        I = Interp(repo, RecHooks(PickleStream()))
        f = Obj(ci, {})
        f.strict = True
        r = I.call(init, [[a, b]], selfv=f)
        if isinstance(r, Unk):
            return None
        out = I.iterate_obj(f, None)
    except Exception:
        return None
    if not isinstance(out, list) or len(out) != 2 or not all(isinstance(o, Obj) for o in out):
        return None
    if any(o is e for o, e in zip(out, (a, b))):
        return ('caller-owned', 'iteration yields the element of the caller\'s list itself')
    if not all(same_meta(o.attrs.get('meta'), meta) for o in out):
        return ('fresh-nometa', 'iteration yields copies without the metadata of the original (FitInfo.__getstate__ / copy does not carry it)')
    return ('fresh', 'iteration yields a copy of each result with its metadata re-attached')
