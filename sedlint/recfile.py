"""The fit-results file (FitInfoFile) decided by interpretation.

A file opened in binary mode is a *stream of pickles*: ``pickle.dump(obj, handle, protocol)`` appends one item, ``pickle.load(handle)`` returns the next
item (the very object that was dumped: what is compared afterwards is identity and attribute values, not bytes) and raises EOFError at the end.
A truncated file is a stream cut after some item; a cut *inside* an item makes the load of that item raise (EOFError for a cut at its first byte,
UnpicklingError otherwise - both are tried).  FitInfoFile.__init__ / write / close / __iter__ are interpreted as they are written - generators run
eagerly, ``while True`` loops unrolled, helpers inlined - so the obligations below do not depend on how the class spells them."""
from . import alg
from .alg import sym
from .interp import Foreign, PyRaise, Hooks, Interp, Obj, Arr, Unk, ClassRef, symarr, num, Raised
from .fitmodel import loc

R, W = 'r', 'w'


class PickleStream(Foreign):
    def __init__(self, items=None, cut=None):
        self.items = list(items or [])
        self.pos = 0
        self.cut = cut            # None | exception name raised when reading past the last complete item (a file cut inside the next item)
        self.closed = False
        self.raw = []             # anything written that is not a pickle (handle.write)

    def sl_method(self, interp, name, args, kw, node):
        if name == 'close':
            self.closed = True
            return None
        if name in ('flush',):
            return None
        if name in ('write',) and len(args) == 1 and isinstance(args[0], PickleBytes):
            self.items.append(args[0].obj)          # the bytes of one whole pickle written to the file: one item of the stream
            return None
        if name in ('write',):
            self.raw.append(args)
            self.items.append(('RAW', args))
            return None
        if name in ('read', 'readline', 'tell', 'seek'):
            return Unk('raw %s on the results file' % name, node)
        return NotImplemented


class PickleBytes(Foreign):
    """pickle.dumps(obj): the bytes of one pickle, carried as the object they hold"""
    def __init__(self, obj):
        self.obj = obj


class _Pickler(Foreign):
    """pickle.Pickler(handle, protocol): dump(obj) appends one item to the stream"""
    def __init__(self, stream):
        self.stream = stream

    def sl_method(self, interp, name, args, kw, node):
        if name == 'dump' and len(args) == 1:
            self.stream.items.append(args[0])
            return None
        if name == 'clear_memo':
            return None
        return NotImplemented

    def sl_getattr(self, interp, name, node):
        if name == 'memo':
            return {}
        return NotImplemented


class RecHooks(Hooks):
    """open() gives the prepared stream; pickle.dump / pickle.load / Unpickler(handle).load work on it"""
    def __init__(self, stream):
        self.stream = stream
        self.opened = []

    def opaque(self, interp, fi, args, kwargs, node):
        if fi.name in ('validate_array', 'validate_scalar'):
            return args[1] if len(args) > 1 else kwargs.get('value')
        return NotImplemented

    def external(self, interp, name, args, kwargs, node, mod):
        if name == 'builtins.open':
            self.opened.append((args, kwargs))
            return self.stream
        if name in ('pickle.dump', '_pickle.dump', 'cPickle.dump') and len(args) >= 2 and isinstance(args[1], PickleStream):
            args[1].items.append(args[0])
            return None
        if name in ('pickle.load', '_pickle.load', 'cPickle.load') and args and isinstance(args[0], PickleStream):
            return _load(args[0])
        if name in ('pickle.Unpickler', '_pickle.Unpickler') and args and isinstance(args[0], PickleStream):
            return _Unpickler(args[0])
        if name in ('pickle.Pickler', '_pickle.Pickler') and args and isinstance(args[0], PickleStream):
            return _Pickler(args[0])
        if name in ('pickle.dumps', '_pickle.dumps') and args:
            return PickleBytes(args[0])
        if name in ('pickle.loads', '_pickle.loads') and args and isinstance(args[0], PickleBytes):
            return args[0].obj
        if name.startswith('os.path.exists'):
            return True
        return NotImplemented


class _Unpickler(Foreign):
    def __init__(self, stream):
        self.stream = stream

    def sl_method(self, interp, name, args, kw, node):
        if name == 'load' and not args:
            return _load(self.stream)
        return NotImplemented


def _load(st):
    if st.pos < len(st.items):
        v = st.items[st.pos]
        st.pos += 1
        if isinstance(v, tuple) and v and v[0] == 'RAW':
            raise PyRaise('UnpicklingError', 'raw bytes where a pickle is expected')
        return v
    if st.cut and not getattr(st, 'cut_raised', False):
        st.cut_raised = True          # the partial item is consumed by the failing load: the file is at its end afterwards
        raise PyRaise(st.cut, 'the file ends inside this item')
    raise PyRaise('EOFError', 'end of the file')


# ------------------------------------------------------------------ symbolic records

def make_meta(repo, tag=''):
    return Obj(repo.cls('fit_info', 'FitInfoMeta'), {'model_dir': 'DIR' + tag, 'filters': [{'name': 'F1' + tag}], 'extinction_law': Obj(repo.cls('extinction.extinction', 'Extinction'), {})})


def make_info(repo, k, meta):
    src = Obj(repo.cls('source.source', 'Source'), {'_name': 'SRC%d' % k})
    return Obj(repo.cls('fit_info', 'FitInfo'), {'source': src, 'av': symarr('av%d' % k, (R,), unit=num(1)), 'sc': symarr('sc%d' % k, (R,), unit=num(1)),
                                                  'chi2': symarr('chi2_%d' % k, (R,), unit=num(1)), 'model_id': symarr('id%d' % k, (R,), unit=num(1)),
                                                  'model_name': symarr('name%d' % k, (R,)), 'model_fluxes': symarr('mf%d' % k, (R, W), unit=num(1)), 'meta': meta})


def open_file(repo, stream, mode):
    """FitInfoFile('FILE', mode) interpreted; returns (interp, object or Unk)"""
    ci = repo.cls('fit_info', 'FitInfoFile')
    I = Interp(repo, RecHooks(stream))
    o = Obj(ci, {})
    o.strict = True
    r = I.call(repo.find_member(ci, '__init__')[1], ['FILE', mode], selfv=o)
    if isinstance(r, Unk):
        return I, r
    return I, o


def write_records(repo, infos):
    """(stream, errors): the stream produced by FitInfoFile('FILE','w'), write(info)..., close()"""
    ci = repo.cls('fit_info', 'FitInfoFile')
    st = PickleStream()
    I, f = open_file(repo, st, 'w')
    if isinstance(f, Unk):
        return st, I, f
    for info in infos:
        r = I.call(repo.find_member(ci, 'write')[1], [info], selfv=f)
        if isinstance(r, Unk):
            return st, I, r
    I.call(repo.find_member(ci, 'close')[1], [], selfv=f)
    if I.lost:
        return st, I, Unk('a call of the writer was not modelled (%s): what the stream holds is not all that was written' % (str(I.lost[0])[:100],))
    return st, I, None


def read_records(repo, items, cut=None):
    """(records yielded or Unk, interp, file object): FitInfoFile('FILE','r') iterated to the end on the given stream"""
    ci = repo.cls('fit_info', 'FitInfoFile')
    st = PickleStream(items, cut)
    I, f = open_file(repo, st, 'r')
    if isinstance(f, Unk):
        return f, I, None
    out = I.iterate_obj(f, None)
    if I.lost and isinstance(out, list):
        out = Unk('a call of the reader was not modelled (%s)' % (str(I.lost[0])[:100],))
    return out, I, f


def same_value(a, b):
    if a is b:
        return True
    if isinstance(a, Arr) and isinstance(b, Arr):
        return tuple(a.dims) == tuple(b.dims) and a.poly == b.poly and a.mask is None and b.mask is None
    if isinstance(a, Obj) and isinstance(b, Obj):
        return a.cls is b.cls and set(a.attrs) == set(b.attrs) and all(same_value(a.attrs[k], b.attrs[k]) for k in a.attrs)
    if isinstance(a, (list, tuple)) and isinstance(b, (list, tuple)):
        return len(a) == len(b) and all(same_value(x, y) for x, y in zip(a, b))
    if isinstance(a, dict) and isinstance(b, dict):
        return set(a) == set(b) and all(same_value(a[k], b[k]) for k in a)
    if isinstance(a, (Arr, Obj, Unk)) or isinstance(b, (Arr, Obj, Unk)):
        return False
    return a == b


def same_meta(m, ref):
    return isinstance(m, Obj) and all(same_value(m.attrs.get(k), ref.attrs.get(k)) for k in ('model_dir', 'filters', 'extinction_law'))


def check_write_read(ctx, rule_w='CFG-2', rule_r='AGREE-2'):
    """metadata once, one pickle per record, read back: the records that were written, in order, each with the stored metadata attached"""
    repo = ctx.repo
    ci = repo.cls('fit_info', 'FitInfoFile')
    wfi, ifi = ctx.fn(repo.find_member(ci, 'write')[1]), ctx.fn(repo.find_member(ci, '__iter__')[1])
    ctx.fn(repo.find_member(ci, '__init__')[1])
    meta = make_meta(repo)
    infos = [make_info(repo, k, meta) for k in (1, 2, 3)]
    st, Iw, err = write_records(repo, infos)
    where_w, where_r = loc(wfi), loc(ifi)
    if err is not None:
        ctx.undecided(rule_w, 'records written with one shared metadata block', where_w, 'writing not modelled: %r' % (err,))
        return False
    head = st.items[:len(st.items) - 3] if len(st.items) >= 3 else []
    recs = st.items[len(head):]
    ok_recs = len(recs) == 3 and all(a is b for a, b in zip(recs, infos))
    ctx.expect(ok_recs, rule_w, 'every record is written as one pickle, in the order given', where_w, 'stream ends with the %d records themselves' % len(infos),
               'after the header the stream holds %s' % [type(x).__name__ if not isinstance(x, Obj) else (x.cls.name if x.cls else '?') for x in st.items[len(head):]], 'record-items')
    vals = [meta.attrs['model_dir'], meta.attrs['filters'], meta.attrs['extinction_law']]
    ok_head = len(head) >= 1 and all(any(h is v or (not isinstance(v, Obj) and h == v) for h in head) for v in vals) and not any(any(h is i for i in infos) for h in head)
    ctx.expect(ok_head and len(st.items) == len(head) + 3, rule_w, 'metadata written once, before the first record', where_w, 'header of %d items holding model_dir, filters and the extinction law, then the records' % len(head),
               'the stream starts with %d items that do not hold the metadata exactly once' % len(head), 'header-once')
    modes = [(a[1] if len(a) > 1 else k.get('mode', 'r')) for a, k in Iw.hooks.opened]
    ctx.expect(bool(modes) and all(isinstance(m, str) and 'b' in m for m in modes), rule_r, 'the file is opened in binary mode', where_w, 'open(..., %s)' % modes,
               'the file is opened with mode %s: pickles are bytes' % modes, 'binary-mode')
    # a record whose metadata differs from the first is refused
    other = make_info(repo, 9, make_meta(repo, 'x'))
    st2, Iw2, err2 = write_records(repo, [infos[0], other])
    refused = isinstance(err2, Unk) and 'always raises' in err2.why
    if err2 is None and (getattr(Iw2, '_unknown_conds', 0) or Iw2.lost):
        err2 = Unk('a condition on the way was not decided')          # the record went through, but past a test the analysis could not decide
    ctx.expect(refused or err2 is None and False, rule_w, 'a record with different metadata is refused', where_w, 'write() raises', 'a record whose metadata differs from the first one is written under the first one\'s header' if err2 is None else 'not modelled: %r' % (err2,), 'meta-mismatch') if (refused or err2 is None) else ctx.undecided(rule_w, 'a record with different metadata is refused', where_w, 'not modelled: %r' % (err2,))
    # read back
    out, Ir, f = read_records(repo, st.items)
    if not isinstance(out, list):
        if getattr(Ir, 'uncaught', None):
            ctx.violation(rule_r, 'records read back', where_r, 'reading the file that was just written raises %s' % Ir.uncaught, 'read-raises')
            return True
        if isinstance(out, Unk) and out.definite and 'did not terminate' in out.why:
            ctx.violation(rule_r, 'records read back', where_r, 'reading the file that was just written never stops: the loop goes on after the end of the file', 'read-loops')
            return True
        ctx.undecided(rule_r, 'records read back', where_r, 'reading not modelled: %r' % (out,))
        return False
    ctx.expect(len(out) == 3 and all(a is b for a, b in zip(out, infos)), rule_r, 'records read back', where_r, 'the records written, in order', 'reading yields %d objects that are not the %d records written, in order' % (len(out), len(infos)), 'read-records')
    ctx.expect(all(isinstance(o, Obj) and same_meta(o.attrs.get('meta'), meta) for o in out) and len(out) > 0, rule_r, 'metadata re-attached', where_r, 'every record read carries the stored model_dir, filters and extinction law',
               'records read from a file do not get the stored metadata', 'meta-reattached')
    fm = Ir.getattr(f, 'meta', None, ifi.module) if f is not None else None
    ctx.expect(same_meta(fm, meta), rule_r, 'metadata sequence', where_r, 'the file object\'s meta is the stored metadata: the reader loads the header in the order the writer dumped it', 'the file object\'s meta is %r' % (fm,), 'meta-sequence')
    return True


def check_truncation(ctx, rule='CFG-3'):
    """C19: a file cut anywhere yields only records that were completely written, unchanged (apart from the metadata attached), and nothing else"""
    repo = ctx.repo
    ci = repo.cls('fit_info', 'FitInfoFile')
    ifi = ctx.fn(repo.find_member(ci, '__iter__')[1])
    ctx.fn(repo.find_member(ci, '__init__')[1])
    ctx.fn(repo.find_member(ci, 'write')[1])
    where_ = loc(ifi)
    meta = make_meta(repo)
    infos = [make_info(repo, k, meta) for k in (1, 2, 3)]
    st, Iw, err = write_records(repo, infos)
    if err is not None:
        ctx.undecided(rule + 'a', 'the file that is cut', loc(repo.find_member(ci, 'write')[1]), 'writing not modelled: %r' % (err,))
        return False
    items = st.items
    nhead = len(items) - len(infos)
    snapshots = [dict(i.attrs) for i in infos]
    bad, undec, n = [], [], 0
    for k in range(len(items) + 1):
        for cut in ('EOFError', 'UnpicklingError'):
            if k == len(items) and cut != 'EOFError':
                continue
            for i, snap in zip(infos, snapshots):
                i.attrs.clear(); i.attrs.update(snap)
            out, Ir, f = read_records(repo, items[:k], cut)
            n += 1
            complete = max(0, k - nhead)
            if isinstance(out, list):
                got = out
            elif isinstance(out, Unk) and out.definite and 'did not terminate' in out.why:
                bad.append('file cut after %d of %d items (next load raises %s): the reader never stops (it keeps going round its loop on a file that has ended)' % (k, len(items), cut))
                continue
            elif getattr(Ir, 'uncaught', None) or (isinstance(out, Unk) and 'always raises' in out.why):
                got = None          # the read fails: nothing wrong was yielded (records yielded before the failure are checked below when they exist)
            else:
                undec.append('cut after item %d (%s): %r' % (k, cut, out))
                continue
            if got is None:
                continue
            if len(got) > complete or not all(a is b for a, b in zip(got, infos)):
                bad.append('file cut after %d of %d items (next load raises %s): yields %d records where %d were completely written' % (k, len(items), cut, len(got), complete))
                continue
            for o, snap in zip(got, snapshots):
                changed = [a for a in snap if a != 'meta' and o.attrs.get(a) is not snap[a]]
                if changed:
                    bad.append('a record read from a cut file has %s changed' % changed)
    if undec and not bad:
        ctx.undecided(rule + 'a', 'cut files yield complete records only', where_, '; '.join(undec[:2]))
        return False
    ctx.expect(not bad, rule + 'a', 'cut files yield complete records only', where_, '%d cut positions x kinds of failing load: only records whose pickle is complete are yielded, unchanged, in order' % n, '; '.join(bad[:2]), 'truncation')
    # the intact file ends cleanly
    out, Ir, f = read_records(repo, items)
    ctx.expect(isinstance(out, list) and len(out) == len(infos), rule + 'd', 'the intact file is read to its end without an error', where_, 'EOFError at the end of the last record ends the iteration', 'reading the intact file gives %r' % (out if not isinstance(out, list) else len(out),), 'clean-end')
    return True


def check_inputs(ctx, rule='CFG-10'):
    """results passed as a single FitInfo, a list or a tuple are accepted and iterate as the objects given (copies, so that selecting does not modify the caller's results)"""
    repo = ctx.repo
    ci = repo.cls('fit_info', 'FitInfoFile')
    init = ctx.fn(repo.find_member(ci, '__init__')[1])
    ifi = repo.find_member(ci, '__iter__')[1]
    meta = make_meta(repo)
    a, b = make_info(repo, 1, meta), make_info(repo, 2, meta)
    decided = True
    for tag, arg, expect in (('a single result', a, [a]), ('a list of results', [a, b], [a, b]), ('a tuple of results', (a, b), [a, b])):
        I = Interp(repo, RecHooks(PickleStream()))
        f = Obj(ci, {})
        f.strict = True
        r = I.call(init, [arg], selfv=f)
        inst = 'results given as %s' % tag
        if isinstance(r, Unk):
            if 'always raises' in r.why or getattr(I, 'uncaught', None):
                ctx.violation(rule, inst, loc(init), 'the constructor raises for %s' % tag, 'input-refused')
            else:
                ctx.undecided(rule, inst, loc(init), 'not modelled: %r' % (r,)); decided = False
            continue
        out = I.iterate_obj(f, None)
        if not isinstance(out, list):
            if getattr(I, 'uncaught', None) or (isinstance(out, Unk) and ('always raises' in out.why or 'unknown attribute' in out.why)):
                ctx.violation(rule, inst, loc(ifi), 'iterating over %s fails: %s' % (tag, out.why if isinstance(out, Unk) else out), 'input-iter-fails')
            else:
                ctx.undecided(rule, inst, loc(ifi), 'not modelled: %r' % (out,)); decided = False
            continue
        if I.lost or any(not isinstance(o, Obj) or any(isinstance(v_, Unk) for v_ in o.attrs.values()) or not o.attrs for o in out):
            # what is handed out was not fully modelled (an unmodelled way of copying, a lost call): no verdict on it
            ctx.undecided(rule, inst, loc(ifi), 'the objects handed out were not fully modelled: %r' % ([o for o in out if not isinstance(o, Obj) or not o.attrs or any(isinstance(v_, Unk) for v_ in o.attrs.values())][:1] or I.lost[:1],))
            decided = False
            continue
        okk = len(out) == len(expect) and all(isinstance(o, Obj) and all(same_value(o.attrs.get(k_), e.attrs.get(k_)) for k_ in e.attrs if k_ != 'meta') and same_meta(o.attrs.get('meta'), meta) for o, e in zip(out, expect))
        ctx.expect(okk, rule, inst, loc(ifi), 'iterates over the results given, in order, with their metadata', 'iteration gives %d objects that are not the results given' % len(out), 'input-iter')
        fresh = all(o is not e for o, e in zip(out, expect))
        ctx.expect(fresh, 'EFF-2', '%s: iteration hands out copies' % inst, loc(ifi), 'each object yielded is a copy: selecting fits on it leaves the caller\'s result as it was',
                   'yields the caller\'s own result object: consumers that select fits (keep) modify it', 'yields-original')
    I = Interp(repo, RecHooks(PickleStream()))
    r = I.call(init, [42], selfv=Obj(ci, {}))
    ctx.expect(isinstance(r, Unk) and 'always raises' in r.why, rule, 'anything else is refused', loc(init), 'raises', 'a number is accepted as results', 'bad-input')
    return decided


def iteration_verdict(repo):
    """what iterating over in-memory results hands out: ('fresh' | 'caller-owned' | 'fresh-nometa', detail) or None when the interpretation has no verdict"""
    ci = repo.cls('fit_info', 'FitInfoFile')
    init = repo.find_member(ci, '__init__')[1]
    meta = make_meta(repo)
    a, b = make_info(repo, 1, meta), make_info(repo, 2, meta)
    try:
        I = Interp(repo, RecHooks(PickleStream()))
        f = Obj(ci, {})
        f.strict = True
        r = I.call(init, [[a, b]], selfv=f)
        if isinstance(r, Unk):
            return None
        out = I.iterate_obj(f, None)
    except Exception:
        return None
    if not isinstance(out, list) or len(out) != 2 or not all(isinstance(o, Obj) for o in out):
        return None
    if any(o is e for o, e in zip(out, (a, b))):
        return ('caller-owned', 'iteration yields the element of the caller\'s list itself')
    if not all(same_meta(o.attrs.get('meta'), meta) for o in out):
        return ('fresh-nometa', 'iteration yields copies without the metadata of the original (FitInfo.__getstate__ / copy does not carry it)')
    return ('fresh', 'iteration yields a copy of each result with its metadata re-attached')
