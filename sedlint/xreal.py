"""Extended-real class evaluation of arithmetic / comparison trees (Arr.xr).

Polynomial normal forms identify  a - b <= v  with  a <= b + v ; over IEEE doubles the two differ when a and b are both +inf (inf - inf is NaN,
NaN <= v is false, inf <= inf is true) or a divisor is 0.  Where a property's quantifier names infinities, NaN or empty data, the criterion is therefore
also evaluated over *classes* of values: every leaf is assigned a class (negative, -0, +0, positive, +inf, -inf, NaN), the tree is evaluated on
representatives of the classes with IEEE semantics (numpy float64), and the set of possible outcomes is collected.  Two criteria definitely differ on a
class assignment when both outcome sets are singletons and the singletons differ; only assignments in which some leaf is non-finite or a zero divisor
are reported, where the outcome does not depend on the magnitudes chosen for the finite leaves."""
import itertools
import numpy as np

REPS = {
    'neg': [-4.0, -2.0, -1.0, -0.5, -0.25], 'nzero': [-0.0], 'zero': [0.0], 'pos': [0.25, 0.5, 1.0, 2.0, 4.0],
    'pinf': [float('inf')], 'ninf': [float('-inf')], 'nan': [float('nan')],
}
SPECIAL = {'pinf', 'ninf', 'nan'}

_BIN = {'Add': np.add, 'Sub': np.subtract, 'Mult': np.multiply, 'Div': np.divide, 'Pow': np.power}
_CMP = {'Lt': np.less, 'LtE': np.less_equal, 'Gt': np.greater, 'GtE': np.greater_equal, 'Eq': np.equal, 'NotEq': np.not_equal}
# the order np.sort / np.searchsorted use: IEEE order with NaN after everything (and NaN equal to NaN)
_CMP['TotLt'] = lambda a, b: np.less(a, b) or (np.isnan(b) and not np.isnan(a))
_CMP['TotLtE'] = lambda a, b: np.less_equal(a, b) or np.isnan(b)


def leaves(tree, out=None):
    out = [] if out is None else out
    if tree[0] == 'leaf':
        if not any(tree[1] == p for p in out):
            out.append(tree[1])
    elif tree[0] in ('bin', 'cmp'):
        leaves(tree[2], out); leaves(tree[3], out)
    elif tree[0] in ('neg', 'not', 'sum'):
        leaves(tree[1], out)
    return out


def evaluate(tree, value_of):
    """value of the tree for one concrete assignment: value_of(poly) -> float, or raises KeyError for an unknown leaf"""
    k = tree[0]
    if k == 'leaf':
        return np.float64(value_of(tree[1]))
    if k == 'const':
        return np.float64(tree[1])
    if k == 'bin':
        f = _BIN.get(tree[1])
        if f is None:
            raise KeyError(tree[1])
        return f(evaluate(tree[2], value_of), evaluate(tree[3], value_of))
    if k == 'cmp':
        return np.float64(bool(_CMP[tree[1]](evaluate(tree[2], value_of), evaluate(tree[3], value_of))))
    if k == 'neg':
        return -evaluate(tree[1], value_of)
    if k == 'not':
        return np.float64(not bool(evaluate(tree[1], value_of)))
    raise KeyError(k)


def outcomes(tree, names, classes, constraint=None):
    """set of truth values of ``tree`` over the representatives of one class assignment; ``names``: [(poly, name)], ``classes``: {name: class}.
    ``constraint(values: {name: float}) -> bool`` filters representative combinations (e.g. best <= every other)."""
    out = set()
    keys = [n for _, n in names]
    with np.errstate(all='ignore'):
        for combo in itertools.product(*[REPS[classes[n]] for n in keys]):
            vals = dict(zip(keys, combo))
            if constraint is not None and not constraint(vals):
                continue

            def value_of(p):
                for q, n in names:
                    if q == p:
                        return vals[n]
                raise KeyError('leaf')
            out.add(bool(evaluate(tree, value_of)))
    return out
