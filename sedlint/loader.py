"""E1: loader / resolver.

Parses every non-test module of the ``sedfitter`` package found under the
repository root (default ``/repo``; override with ``SEDLINT_REPO`` for scratch
copies) and builds module, import, class and function tables.  Sources are
held as a ``{relative path: text}`` mapping with an optional in-memory overlay,
which is how the self-validation tier analyses variants of the tree without
writing anything anywhere.
"""
import ast
import os
import warnings


class AnalysisError(Exception):
    """An anchor vanished, a count fell below its minimum, or the analyser
    could not decide: exit 2, never a VIOLATION."""


PKG = 'sedfitter'
MIN_MODULES = 38   # version.py is generated and git-ignored


def read_sources(root):
    out = {}
    base = os.path.join(root, PKG)
    if not os.path.isdir(base):
        raise AnalysisError('package directory %s not found' % base)
    for dp, dn, fn in os.walk(base):
        dn[:] = sorted(d for d in dn if d not in ('tests', '__pycache__', 'data'))
        for f in sorted(fn):
            if f.endswith('.py'):
                p = os.path.join(dp, f)
                rel = os.path.relpath(p, root)
                with open(p, encoding='utf-8') as fh:
                    out[rel] = fh.read()
    return out


class FuncInfo:
    def __init__(self, module, cls, node):
        self.module, self.cls, self.node = module, cls, node
        self.name = node.name
        self.decorators = [ast.unparse(d) for d in node.decorator_list]

    @property
    def qual(self):
        return '%s:%s%s' % (self.module.name, (self.cls.name + '.') if self.cls else '', self.name)

    @property
    def where(self):
        return '%s:%d %s' % (self.module.path, self.node.lineno,
                             ((self.cls.name + '.') if self.cls else '') + self.name)

    @property
    def params(self):
        a = self.node.args
        return [x.arg for x in a.posonlyargs + a.args]

    def defaults(self):
        a = self.node.args
        names = [x.arg for x in a.posonlyargs + a.args]
        d = {}
        for n, v in zip(names[len(names) - len(a.defaults):], a.defaults):
            d[n] = v
        for n, v in zip(a.kwonlyargs, a.kw_defaults):
            if v is not None:
                d[n.arg] = v
        return d


class ClassInfo:
    def __init__(self, module, node):
        self.module, self.node, self.name = module, node, node.name
        self.bases = [ast.unparse(b) for b in node.bases]
        self.methods = {}      # name -> FuncInfo (plain, classmethod, staticmethod)
        self.getters = {}      # property name -> FuncInfo
        self.setters = {}      # property name -> FuncInfo
        self.class_attrs = {}  # name -> value node
        for n in node.body:
            if isinstance(n, ast.FunctionDef):
                fi = FuncInfo(module, self, n)
                decos = fi.decorators
                if 'property' in decos:
                    self.getters[n.name] = fi
                elif any(d.endswith('.setter') for d in decos):
                    self.setters[n.name] = fi
                else:
                    self.methods[n.name] = fi
            elif isinstance(n, ast.Assign):
                for t in n.targets:
                    if isinstance(t, ast.Name):
                        self.class_attrs[t.id] = n.value

    @property
    def qual(self):
        return '%s:%s' % (self.module.name, self.name)


class Module:
    def __init__(self, name, path, text):
        self.name, self.path, self.text = name, path, text
        with warnings.catch_warnings():
            warnings.simplefilter('ignore', SyntaxWarning)
            self.tree = ast.parse(text, filename=path)
        self.is_pkg = path.endswith('__init__.py')
        self.functions = {}
        self.classes = {}
        self.star_imports = []   # repo module names imported with *
        self.imports = {}    # local alias -> ('repo', module_name, attr|None) | ('ext', dotted, None)
        self.optional_imports = set()
        self.globals = {}    # module-level simple assignments: name -> value node
        for n in self.tree.body:
            if isinstance(n, ast.FunctionDef):
                self.functions[n.name] = FuncInfo(self, None, n)
            elif isinstance(n, ast.ClassDef):
                self.classes[n.name] = ClassInfo(self, n)
            elif isinstance(n, ast.Assign):
                for t in n.targets:
                    if isinstance(t, ast.Name):
                        self.globals[t.id] = n.value
        self._collect_imports()

    def _pkg_parts(self):
        parts = self.name.split('.')
        return parts if self.is_pkg else parts[:-1]

    def _collect_imports(self):
        for n in ast.walk(self.tree):
            optional = False
            if isinstance(n, ast.Try):
                names = []
                for h in n.handlers:
                    names.append(ast.unparse(h.type) if h.type is not None else 'BaseException')
                if any('ImportError' in x or 'ModuleNotFoundError' in x or x in ('Exception', 'BaseException') for x in names):
                    for sub in n.body:
                        if isinstance(sub, (ast.Import, ast.ImportFrom)):
                            for a in sub.names:
                                self.optional_imports.add(a.asname or a.name.split('.')[0])
            if isinstance(n, ast.Import):
                for a in n.names:
                    alias = a.asname or a.name.split('.')[0]
                    target = a.name if a.asname else a.name.split('.')[0]
                    if alias in self.imports and alias in self.optional_imports:
                        self.imports[alias] = ('ext', target, None)   # mandatory fallback wins
                    else:
                        self.imports.setdefault(alias, ('ext', target, None))
            elif isinstance(n, ast.ImportFrom):
                if n.level:
                    base = self._pkg_parts()
                    if n.level > 1:
                        base = base[:-(n.level - 1)]
                    modname = '.'.join(base + (n.module.split('.') if n.module else []))
                    for a in n.names:
                        if a.name == '*':
                            self.star_imports.append(modname)
                        else:
                            self.imports[a.asname or a.name] = ('repo', modname, a.name)
                else:
                    if n.module == '__future__':
                        continue
                    for a in n.names:
                        if n.module and n.module.split('.')[0] == PKG:
                            self.imports[a.asname or a.name] = ('repo', n.module, a.name)
                        else:
                            self.imports.setdefault(a.asname or a.name, ('ext', n.module + '.' + a.name, None))


class Repo:
    def __init__(self, root=None, overlay=None, sources=None):
        self.root = root or os.environ.get('SEDLINT_REPO', '/repo')
        if sources is None:
            sources = read_sources(self.root)
        self.sources = dict(sources)
        if overlay:
            self.sources.update(overlay)
        self.modules = {}
        self.parse_errors = {}
        for rel, text in sorted(self.sources.items()):
            name = rel[:-3].replace(os.sep, '.')
            if name.endswith('.__init__'):
                name = name[:-9]
            try:
                self.modules[name] = Module(name, rel, text)
            except SyntaxError as e:
                self.parse_errors[rel] = str(e)
        if self.parse_errors:
            raise AnalysisError('syntax errors: %r' % self.parse_errors)

    # ----- lookups (a vanished anchor is an AnalysisError, never a pass)
    def module(self, name):
        full = name if name.startswith(PKG) else PKG + '.' + name
        if full not in self.modules:
            raise AnalysisError('anchor module %s not found' % full)
        return self.modules[full]

    def cls(self, module, name):
        m = self.module(module)
        if name not in m.classes:
            raise AnalysisError('anchor class %s:%s not found' % (m.name, name))
        return m.classes[name]

    def func(self, module, qual):
        m = self.module(module)
        if '.' in qual:
            cn, fn = qual.split('.', 1)
            c = self.cls(module, cn)
            kind = None
            if fn.endswith('@setter'):
                fn, kind = fn[:-7], 'setter'
            elif fn.endswith('@getter'):
                fn, kind = fn[:-7], 'getter'
            for tbl, k in ((c.methods, None), (c.getters, 'getter'), (c.setters, 'setter')):
                if (kind is None or kind == k) and fn in tbl:
                    return tbl[fn]
            # inherited
            for b in c.bases:
                bc = self.resolve_class(m, b)
                if bc is not None:
                    try:
                        return self.func(bc.module.name, bc.name + '.' + qual.split('.', 1)[1])
                    except AnalysisError:
                        pass
            raise AnalysisError('anchor function %s:%s not found' % (m.name, qual))
        if qual not in m.functions:
            raise AnalysisError('anchor function %s:%s not found' % (m.name, qual))
        return m.functions[qual]

    def has_func(self, module, qual):
        try:
            self.func(module, qual)
            return True
        except AnalysisError:
            return False

    def resolve_name(self, module, name, _depth=0):
        """Resolve a bare name used in ``module`` to ('func', FuncInfo) |
        ('class', ClassInfo) | ('module', Module) | ('ext', dotted) | None."""
        if _depth > 6:
            return None
        if name in module.functions:
            return ('func', module.functions[name])
        if name in module.classes:
            return ('class', module.classes[name])
        imp = module.imports.get(name)
        if imp is None:
            for sm in module.star_imports:
                if sm in self.modules:
                    r = self.resolve_name(self.modules[sm], name, _depth + 1)
                    if r is not None and r[0] in ('func', 'class'):
                        return r
            return None
        if imp[0] == 'ext':
            return ('ext', imp[1])
        _, modname, attr = imp
        # "from . import x" / "from .pkg import mod"
        cand = (modname + '.' + attr) if attr else modname
        if cand in self.modules:
            return ('module', self.modules[cand])
        if modname in self.modules:
            return self.resolve_name(self.modules[modname], attr, _depth + 1)
        return None

    def resolve_class(self, module, name):
        r = self.resolve_name(module, name)
        if r and r[0] == 'class':
            return r[1]
        return None

    def all_functions(self):
        for m in self.modules.values():
            for f in m.functions.values():
                yield f
            for c in m.classes.values():
                for tbl in (c.methods, c.getters, c.setters):
                    for f in tbl.values():
                        yield f

    def mro(self, ci):
        out = [ci]
        for b in ci.bases:
            bc = self.resolve_class(ci.module, b)
            if bc is not None:
                out += self.mro(bc)
        return out

    def find_member(self, ci, name):
        """('method'|'getter', FuncInfo) following bases, or None."""
        for c in self.mro(ci):
            if name in c.getters:
                return ('getter', c.getters[name])
            if name in c.methods:
                return ('method', c.methods[name])
        return None

    def find_setter(self, ci, name):
        for c in self.mro(ci):
            if name in c.setters:
                return c.setters[name]
        return None

    def check_module_count(self):
        if len(self.modules) < MIN_MODULES:
            raise AnalysisError('only %d modules parsed (expected >= %d)' % (len(self.modules), MIN_MODULES))
        return len(self.modules)
