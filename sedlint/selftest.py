"""Self-validation of the checker (thorough tier): variants of the *current* tree are analysed
in memory (overlay; nothing is written anywhere).  A must-fire variant breaks one rule instance
and must turn the property's verdict into VIOLATION; a must-stay-silent variant is a
behaviour-preserving rewrite and must leave every obligation OK.  A miss in either direction means
the checker is broken (exit 2)."""
import multiprocessing
import os
import re

from .loader import Repo, AnalysisError
from . import report


def _apply(sources, edits):
    """edits: [(path, old, new)] each ``old`` must occur exactly once (after whitespace-exact match)."""
    overlay = {}
    for path, old, new in edits:
        text = overlay.get(path, sources.get(path))
        if text is None or text.count(old) != 1:
            return None
        overlay[path] = text.replace(old, new)
    return overlay


def _run_variant(job):
    pid, sources, root, name, edits, kind = job
    from .main import run_property
    overlay = _apply(sources, edits)
    if overlay is None:
        return (name, kind, 'n/a', 'anchor text not found (tree changed)', [])
    try:
        repo = Repo(root=root, sources=sources, overlay=overlay)
    except AnalysisError as e:
        return (name, kind, 'syntax', str(e), [])
    ctx, mod = run_property(pid, repo, 'quick', 0, quiet=True)
    viol = [o for o in ctx.obs if o.status == report.VIOL]
    und = [o for o in ctx.obs if o.status == report.UNDEC]
    if viol:
        verdict = 'VIOLATION'
    elif und or ctx.errors:
        verdict = 'UNDECIDED'
    else:
        counts = ctx.counts()
        low = [r for r, mn in ctx.mins.items() if counts.get(r, 0) < mn]
        verdict = 'UNDECIDED' if low else 'OK'
    names = ['%s %s' % (o.rule, o.instance) for o in (viol or und)][:4]
    if not names and ctx.errors:
        names = ctx.errors[:2]
    return (name, kind, verdict, '', names)


def run(ctx, must_fire, must_silent, jobs=None):
    """must_fire / must_silent: [(name, [(path, old, new), ...])]"""
    repo = ctx.repo
    work = [(ctx.pid, repo.sources, repo.root, n, e, 'fire') for n, e in must_fire] + \
           [(ctx.pid, repo.sources, repo.root, n, e, 'silent') for n, e in must_silent]
    jobs = jobs or min(16, os.cpu_count() or 1, max(1, len(work)))
    if jobs > 1 and len(work) > 1:
        with multiprocessing.get_context('fork').Pool(jobs) as pool:
            results = pool.map(_run_variant, work, chunksize=1)
    else:
        results = [_run_variant(w) for w in work]
    matrix = []
    fired = silent = na = 0
    for name, kind, verdict, note, names in results:
        okk = (verdict == 'VIOLATION') if kind == 'fire' else (verdict == 'OK')
        if verdict in ('n/a',):
            na += 1
            okk = True
        elif kind == 'fire' and okk:
            fired += 1
        elif kind == 'silent' and okk:
            silent += 1
        matrix.append({'variant': name, 'kind': 'must-fire' if kind == 'fire' else 'must-stay-silent', 'verdict': verdict,
                       'as_expected': bool(okk), 'reported': names, 'note': note})
        if not okk:
            ctx.error('self-validation: variant %r (%s) gave %s %s' % (name, kind, verdict, names))
    ctx.extra['self_validation'] = {'variants': len(results), 'must_fire_detected': fired, 'must_fire_total': len(must_fire),
                                    'silent_ok': silent, 'silent_total': len(must_silent), 'not_applicable': na, 'matrix': matrix}
    ctx.extra['programs'] = len(results)
    if not ctx.quiet:
        print('SELF-VALIDATION property=%s variants=%d must-fire %d/%d detected, must-stay-silent %d/%d quiet, n/a %d'
              % (ctx.pid, len(results), fired, len(must_fire), silent, len(must_silent), na))
        for row in matrix:
            if not row['as_expected'] or row['verdict'] == 'n/a':
                print('  %-14s %-60s -> %s %s' % (row['kind'], row['variant'], row['verdict'], row['reported']))
    return matrix
