"""E6: effect / ownership analysis.

For one function: every store (attribute store, subscript store, augmented assignment, in-place
method) with the *root* of its target classified as

  fresh       created in this function (arithmetic result, numpy constructor, any call result that
              a callee summary reports as fresh, boolean/fancy read, copy)
  param:<p>   aliases parameter p (or self): attribute read, basic slice (a view), bare name copy,
              return value of a callee summarised as returning an alias of its argument

Summaries (returns, params mutated) are computed bottom-up over resolved callees."""
import ast

from .astutil import walk_local, chain, up, root_name

INPLACE_METHODS = {'sort', 'fill', 'resize', 'put', 'itemset', 'partition', 'setfield', 'append', 'extend', 'insert', 'remove', 'pop', 'clear', 'update'}
FRESH_EXT_ROOTS = {'np', 'numpy', 'u', 'copy', 'deepcopy', 'Table', 'fits'}


class Summary:
    def __init__(self, fi):
        self.fi = fi
        self.returns = set()        # {'fresh'} | {'param:x'} ...
        self.mutates = {}           # param name -> [(node, text)]   (any store that reaches the parameter: attribute rebinding or in-place)
        self.deep = {}              # param name -> {field or '*': [(node, text)]}   in-place stores into the *contents* of an attribute of the parameter
        self.stores = []            # (node, root class, text)
        self.calls = []             # (callee FuncInfo, node)


class Effects:
    def __init__(self, repo, param_types=None):
        self.repo = repo
        self.param_types = param_types or {}    # (func qual, param) -> class name
        self.cache = {}
        self.active = set()
        self.fields = {}            # during one function: fresh local object -> {attribute: classes of the value stored there}

    # ---- callee resolution (E2-lite)
    def resolve_call(self, fi, c, env_types):
        f = c.func
        if isinstance(f, ast.Name):
            r = self.repo.resolve_name(fi.module, f.id)
            if r and r[0] == 'func':
                return r[1], None
            if r and r[0] == 'class':
                init = self.repo.find_member(r[1], '__init__')
                return (init[1] if init else None), 'ctor'
            return None, None
        if isinstance(f, ast.Attribute):
            base = f.value
            if isinstance(base, ast.Name):
                r = self.repo.resolve_name(fi.module, base.id)
                if r and r[0] == 'module':
                    rr = self.repo.resolve_name(r[1], f.attr)
                    if rr and rr[0] == 'func':
                        return rr[1], None
                if r and r[0] == 'class':
                    m = self.repo.find_member(r[1], f.attr)
                    if m and m[0] == 'method':
                        return m[1], 'classmethod'
                cn = env_types.get(base.id)
                if cn:
                    m = self.repo.find_member(cn, f.attr)
                    if m and m[0] == 'method':
                        return m[1], 'method'
            elif isinstance(base, ast.Attribute) and isinstance(base.value, ast.Name):
                # self.models.fit(...)
                cn = env_types.get(base.value.id)
                t = self.attr_type(cn, base.attr) if cn else None
                if t:
                    m = self.repo.find_member(t, f.attr)
                    if m and m[0] == 'method':
                        return m[1], 'method'
        return None, None

    ATTR_TYPES = {('Fitter', 'models'): ('models', 'Models'), ('FitInfo', 'source'): ('source.source', 'Source')}

    def attr_type(self, ci, attr):
        t = self.ATTR_TYPES.get((ci.name, attr))
        if t:
            return self.repo.cls(*t)
        return None

    # ---- value classification
    def classify(self, e, env, fi, env_types):
        """-> set of classes: 'fresh' | 'param:<name>'"""
        if e is None or isinstance(e, ast.Constant):
            return {'fresh'}
        if isinstance(e, ast.Name):
            return set(env.get(e.id, {'fresh'} if e.id not in fi.params else {'param:' + e.id}))
        if isinstance(e, ast.Attribute):
            if isinstance(e.value, ast.Name) and e.value.id in self.fields and e.attr in self.fields[e.value.id]:
                return set(self.fields[e.value.id][e.attr])        # what a fresh local object's attribute was set to
            base = self.classify(e.value, env, fi, env_types)
            if e.attr not in ('shape', 'ndim', 'size', 'dtype', 'value', 'unit', 'T'):
                base = {(c + '.' + e.attr) if (c.startswith('param:') and '.' not in c) else c for c in base}
            # property getters that build a new array are fresh
            if isinstance(e.value, ast.Name):
                cn = env_types.get(e.value.id)
                if cn:
                    m = self.repo.find_member(cn, e.attr)
                    if m and m[0] == 'getter':
                        s = self.summary(m[1])
                        out = set()
                        for r in s.returns:
                            if r == 'fresh':
                                out.add('fresh')
                            elif r.startswith('param:') and r[6:] == m[1].params[0]:
                                out |= base
                            else:
                                out.add(r)
                        return out or base
            if e.attr in ('shape', 'ndim', 'size', 'dtype', 'value', 'unit', 'T'):
                return {'fresh'} if e.attr not in ('T', 'value') else base
            return base
        if isinstance(e, ast.Subscript):
            base = self.classify(e.value, env, fi, env_types)
            idx = e.slice.elts if isinstance(e.slice, ast.Tuple) else [e.slice]
            basic = all(isinstance(i, ast.Slice) or (isinstance(i, ast.Constant)) or (isinstance(i, ast.Attribute) and i.attr == 'newaxis')
                        or (isinstance(i, ast.Name) and env.get(i.id) == {'index'}) for i in idx)
            return base if basic else {'fresh'}
        if isinstance(e, (ast.BinOp, ast.UnaryOp, ast.Compare, ast.BoolOp, ast.JoinedStr, ast.ListComp, ast.Dict, ast.List, ast.Tuple, ast.Set, ast.GeneratorExp)):
            if isinstance(e, (ast.Tuple, ast.List)):
                out = set()
                for x in e.elts:
                    out |= self.classify(x, env, fi, env_types)
                return out or {'fresh'}
            return {'fresh'}
        if isinstance(e, ast.IfExp):
            return self.classify(e.body, env, fi, env_types) | self.classify(e.orelse, env, fi, env_types)
        if isinstance(e, ast.Call) and isinstance(e.func, ast.Name) and e.func.id == 'getattr' and len(e.args) >= 2:
            # getattr(obj, name[, default]): the attribute itself, not a copy of it (the attribute's name may only be known at run time)
            nm = e.args[1].value if isinstance(e.args[1], ast.Constant) and isinstance(e.args[1].value, str) else '*'
            if nm != '*':
                return self.classify(ast.copy_location(ast.Attribute(value=e.args[0], attr=nm, ctx=ast.Load()), e), env, fi, env_types) \
                    | (self.classify(e.args[2], env, fi, env_types) - {'fresh'} if len(e.args) > 2 else set())
            base = self.classify(e.args[0], env, fi, env_types)
            return {(c + '.*') if (c.startswith('param:') and '.' not in c) else c for c in base}
        if isinstance(e, ast.Call):
            callee, kind = self.resolve_call(fi, e, env_types)
            if callee is not None and kind != 'ctor':
                s = self.summary(callee)
                out = set()
                args = list(e.args)
                offset = 1 if kind in ('method', 'classmethod') else 0
                for r in s.returns:
                    if r == 'fresh':
                        out.add('fresh')
                    elif r.startswith('param:'):
                        pn = r[6:]
                        if pn in callee.params:
                            i = callee.params.index(pn) - offset
                            if i == -1 and isinstance(e.func, ast.Attribute):
                                out |= self.classify(e.func.value, env, fi, env_types)
                            elif 0 <= i < len(args):
                                out |= self.classify(args[i], env, fi, env_types)
                            else:
                                for k in e.keywords:
                                    if k.arg == pn:
                                        out |= self.classify(k.value, env, fi, env_types)
                return out or {'fresh'}
            if kind == 'ctor':
                return {'fresh'}
            cn = chain(e.func) or ''
            # library calls that may hand back their argument itself (no copy when the type already fits), or a view of it
            if cn.split('.')[-1] in ('asarray', 'asanyarray', 'ascontiguousarray', 'atleast_1d', 'atleast_2d', 'ravel', 'squeeze', 'reshape', 'transpose', 'swapaxes', 'broadcast_to', 'asfarray') \
                    and cn.split('.')[0] in ('np', 'numpy') and e.args:
                return self.classify(e.args[0], env, fi, env_types)
            if cn.split('.')[-1] in ('array', 'Quantity') and e.args and any(k.arg == 'copy' and isinstance(k.value, ast.Constant) and k.value.value is False for k in e.keywords):
                return self.classify(e.args[0], env, fi, env_types)
            # methods returning views of their receiver
            if isinstance(e.func, ast.Attribute) and e.func.attr in ('view', 'reshape', 'ravel', 'swapaxes', 'transpose', 'squeeze', 'diagonal'):
                return self.classify(e.func.value, env, fi, env_types)
            return {'fresh'}
        return {'fresh'}

    # ---- per-function analysis
    def summary(self, fi):
        if fi.qual in self.cache:
            return self.cache[fi.qual]
        s = Summary(fi)
        if fi.qual in self.active:
            return s
        self.active.add(fi.qual)
        saved_fields, self.fields = self.fields, {}
        env = {p: {'param:' + p} for p in fi.params}
        env_types = {}
        if fi.cls is not None and fi.params and 'staticmethod' not in fi.decorators and 'classmethod' not in fi.decorators:
            env_types[fi.params[0]] = fi.cls
        for p in fi.params:
            t = self.param_types.get((fi.qual.split(':')[1], p))
            if t:
                env_types[p] = self.repo.cls(*t)
        self._block(fi.node.body, env, env_types, fi, s)
        self.fields = saved_fields
        self.active.discard(fi.qual)
        if not s.returns:
            s.returns = {'fresh'}
        self.cache[fi.qual] = s
        return s

    def _note(self, s, cls, node, txt, deep_field=None):
        s.stores.append((node, cls, txt))
        if cls.startswith('param:'):
            p, _, f = cls[6:].partition('.')
            s.mutates.setdefault(p, []).append((node, txt))
            if deep_field is not None:
                s.deep.setdefault(p, {}).setdefault(f or deep_field or '*', []).append((node, txt))

    def _record_store(self, target, env, env_types, fi, s, node, value=None):
        t = target
        if isinstance(t, ast.Name):
            return
        txt = up(node).split('\n')[0][:100]
        if isinstance(t, ast.Attribute):
            # obj.attr = v : rebinding an attribute of obj (shallow)
            if isinstance(t.value, ast.Name) and t.value.id not in fi.params and env.get(t.value.id, {'fresh'}) == {'fresh'} and value is not None:
                self.fields.setdefault(t.value.id, {})[t.attr] = self.classify(value, env, fi, env_types)
            for c in self.classify(t.value, env, fi, env_types):
                if c.startswith('param:') and '.' in c:
                    self._note(s, c, node, txt, deep_field='*')        # attribute of an object held in the parameter's attribute
                else:
                    self._note(s, c, node, txt)
            return
        # x[...] = v , x.a[...] = v , x[...][...] = v : in-place store into the array x / x.a
        obj = t.value
        while isinstance(obj, ast.Subscript):
            obj = obj.value
        for c in self.classify(obj, env, fi, env_types):
            self._note(s, c, node, txt, deep_field='*')

    def _bind(self, target, classes, env):
        if isinstance(target, ast.Name):
            env[target.id] = set(classes)
        elif isinstance(target, (ast.Tuple, ast.List)):
            for x in target.elts:
                self._bind(x, classes, env)

    def _block(self, body, env, env_types, fi, s):
        for st in body:
            self._stmt(st, env, env_types, fi, s)

    def _arg_node(self, c, callee, kind, pn):
        offset = 1 if kind in ('method', 'classmethod', 'ctor') else 0
        if pn not in callee.params:
            return None
        i = callee.params.index(pn) - offset
        if i == -1 and isinstance(c.func, ast.Attribute) and kind == 'method':
            return c.func.value
        if 0 <= i < len(c.args):
            return c.args[i]
        for k in c.keywords:
            if k.arg == pn:
                return k.value
        return None

    def _calls_effects(self, node, env, env_types, fi, s):
        todo_ = []
        for c in [n for n in walk_local(node) if isinstance(n, ast.Call)]:
            callee, kind = self.resolve_call(fi, c, env_types)
            if callee is None and isinstance(c.func, ast.Name):
                # a call through a local name bound to a function or a bound method (fit = self._fit_a / self._fit_b; fit(...)): every binding is a callee
                alts = []
                for n_ in walk_local(fi.node):
                    if isinstance(n_, ast.Assign) and any(isinstance(t_, ast.Name) and t_.id == c.func.id for t_ in n_.targets) and isinstance(n_.value, (ast.Name, ast.Attribute, ast.IfExp)):
                        for v_ in ([n_.value.body, n_.value.orelse] if isinstance(n_.value, ast.IfExp) else [n_.value]):
                            c2 = ast.copy_location(ast.Call(func=v_, args=c.args, keywords=c.keywords), c)
                            ce_, k_ = self.resolve_call(fi, c2, env_types)
                            if ce_ is not None:
                                alts.append((c2, ce_, k_))
                if alts:
                    todo_ += alts
                    continue
            todo_.append((c, callee, kind))
        for c, callee, kind in todo_:
            if callee is not None:
                s.calls.append((callee, c))
                cs = self.summary(callee)
                for pn, sites in cs.mutates.items():
                    argnode = self._arg_node(c, callee, kind, pn)
                    if argnode is None:
                        continue
                    deep = cs.deep.get(pn, {})
                    shallow_sites = [x for x in sites if not any(x in v for v in deep.values())]
                    txt0 = '%s -> %s: ' % (up(c)[:60], callee.qual.split(':')[1])
                    # shallow (attribute rebinding on the object itself)
                    if shallow_sites:
                        for cl in self.classify(argnode, env, fi, env_types):
                            self._note(s, cl, c, txt0 + shallow_sites[0][1], deep_field=('*' if (cl.startswith('param:') and '.' in cl) else None))
                    # deep: in-place stores into the contents of attribute f of the argument
                    for f, dsites in deep.items():
                        classes = set()
                        if isinstance(argnode, ast.Name) and argnode.id in self.fields and f != '*' and f in self.fields[argnode.id]:
                            classes = set(self.fields[argnode.id][f])
                        elif isinstance(argnode, ast.Name) and argnode.id in self.fields and f == '*':
                            for v in self.fields[argnode.id].values():
                                classes |= set(v)
                            classes |= self.classify(argnode, env, fi, env_types)
                        else:
                            base = self.classify(argnode, env, fi, env_types)
                            classes = {(b + '.' + f) if (b.startswith('param:') and '.' not in b and f != '*') else b for b in base}
                        for cl in classes:
                            self._note(s, cl, c, txt0 + dsites[0][1], deep_field='*')
            elif isinstance(c.func, ast.Attribute) and c.func.attr in INPLACE_METHODS:
                for cl in self.classify(c.func.value, env, fi, env_types):
                    self._note(s, cl, c, up(c)[:100], deep_field='*')
            else:
                for k in c.keywords:
                    if k.arg == 'out':
                        for cl in self.classify(k.value, env, fi, env_types):
                            self._note(s, cl, c, up(c)[:100], deep_field='*')

    def _stmt(self, st, env, env_types, fi, s):
        if isinstance(st, ast.Assign):
            self._calls_effects(st.value, env, env_types, fi, s)
            classes = self.classify(st.value, env, fi, env_types)
            for t in st.targets:
                for tt in ([t] if not isinstance(t, (ast.Tuple, ast.List)) else t.elts):
                    if isinstance(tt, ast.Name):
                        env[tt.id] = set(classes)
                        if isinstance(st.value, ast.Call):
                            callee, kind = self.resolve_call(fi, st.value, env_types)
                            if kind == 'ctor' and callee is not None:
                                env_types[tt.id] = callee.cls
                    else:
                        self._record_store(tt, env, env_types, fi, s, st, st.value)
        elif isinstance(st, ast.AugAssign):
            self._calls_effects(st.value, env, env_types, fi, s)
            if isinstance(st.target, ast.Name):
                # x += v mutates the array bound to x in place
                for cl in env.get(st.target.id, {'fresh'}):
                    if cl != 'index':
                        self._note(s, cl, st, up(st)[:100], deep_field='*')
            else:
                self._record_store(st.target, env, env_types, fi, s, st)
        elif isinstance(st, ast.Return):
            if st.value is not None:
                self._calls_effects(st.value, env, env_types, fi, s)
                s.returns |= self.classify(st.value, env, fi, env_types)
        elif isinstance(st, ast.Expr):
            self._calls_effects(st.value, env, env_types, fi, s)
        elif isinstance(st, ast.If):
            self._calls_effects(st.test, env, env_types, fi, s)
            e1, e2 = {k: set(v) for k, v in env.items()}, {k: set(v) for k, v in env.items()}
            self._block(st.body, e1, env_types, fi, s)
            self._block(st.orelse, e2, env_types, fi, s)
            for k in set(e1) | set(e2):
                env[k] = e1.get(k, set()) | e2.get(k, set())
        elif isinstance(st, (ast.For, ast.While)):
            if isinstance(st, ast.For):
                self._calls_effects(st.iter, env, env_types, fi, s)
                it = self.classify(st.iter, env, fi, env_types)
                src = up(st.iter)
                is_index = src.startswith('range(') or 'np.where(' in src or src.startswith('enumerate(')
                if isinstance(st.target, ast.Name):
                    env[st.target.id] = {'index'} if is_index and not src.startswith('enumerate(') else it
                elif isinstance(st.target, ast.Tuple) and src.startswith('enumerate(') and len(st.target.elts) == 2:
                    self._bind(st.target.elts[0], {'index'}, env)
                    inner = st.iter.args[0] if isinstance(st.iter, ast.Call) and st.iter.args else st.iter
                    self._bind(st.target.elts[1], self.classify(inner, env, fi, env_types), env)
                else:
                    self._bind(st.target, it, env)
            else:
                self._calls_effects(st.test, env, env_types, fi, s)
            for _ in range(2):
                self._block(st.body, env, env_types, fi, s)
            self._block(st.orelse, env, env_types, fi, s)
        elif isinstance(st, ast.Try):
            self._block(st.body, env, env_types, fi, s)
            for h in st.handlers:
                self._block(h.body, env, env_types, fi, s)
            self._block(st.orelse, env, env_types, fi, s)
            self._block(st.finalbody, env, env_types, fi, s)
        elif isinstance(st, ast.With):
            self._block(st.body, env, env_types, fi, s)
        elif isinstance(st, (ast.Raise, ast.Assert)):
            pass
