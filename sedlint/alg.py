"""E4: canonical algebra.

Sparse Laurent polynomials with Fraction coefficients over opaque *atoms*.
An atom is a nested tuple:

  ('sym', name, labels)          an input array element x[labels]; labels is a tuple of axis labels
  ('sum', label, polykey)        reduction over one axis of a (single-monomial) term
  ('pow', polykey, q)            (non-monomial polynomial) ** q, q a Fraction
  ('ind', op, polykey)           Iverson bracket; op in '<0' '==0' 'isinf' 'isnan' 'true'; idempotent
  ('fn', name, arg, ...)         uninterpreted function; each arg is
                                   ('P', polykey)         a polynomial argument
                                   ('B', label, polykey)  a polynomial argument with ``label`` bound in it
                                   ('C', value)           a python constant (str/int/None/Fraction)

Polynomial normal form over algebraically independent atoms is complete for the
ring axioms.  On top of it:  ln of a monomial is expanded (ln(c*a^e) = ln c +
e ln a),  abs(x)^(2k) = x^(2k),  Iverson brackets are idempotent and two
brackets [s == a][s == b] with distinct constants multiply to 0,  real
comparisons are oriented to "< 0" and <= is identified with < (the properties
exclude exact ties),  sums distribute over polynomials and pull out factors
that do not depend on the bound label.
"""
from fractions import Fraction


class _Cached(tuple):
    """tuple with cached hash and repr (atoms and keys are deeply nested; both are recomputed constantly otherwise)"""

    def __hash__(self):
        d = self.__dict__
        h = d.get('_h')
        if h is None:
            h = d['_h'] = tuple.__hash__(self)
        return h

    def __repr__(self):
        d = self.__dict__
        r = d.get('_r')
        if r is None:
            r = d['_r'] = tuple.__repr__(self)
        return r

    def __eq__(self, o):
        if self is o:
            return True
        if isinstance(o, _Cached) and hash(self) != hash(o):
            return False
        return tuple.__eq__(self, o)

    def __ne__(self, o):
        return not self.__eq__(o)


class Atom(_Cached):
    pass


class Key(_Cached):
    pass


class Mono(_Cached):
    pass


def _k(x):
    return repr(x)


class Poly:
    __slots__ = ('t', '_key')

    def __init__(self, t=None):
        self.t = {m: c for m, c in (t or {}).items() if c != 0}
        self._key = None

    # ---- constructors
    @staticmethod
    def const(c):
        if isinstance(c, float):
            c = Fraction(repr(c)) if c == c and c not in (float('inf'), float('-inf')) else None
            if c is None:
                raise ValueError('non-finite constant')
        c = Fraction(c)
        return Poly({(): c}) if c != 0 else Poly()

    @staticmethod
    def atom(a, e=1):
        if type(a) is not Atom:
            a = Atom(a)
        return Poly({Mono(((a, Fraction(e)),)): Fraction(1)})

    @staticmethod
    def from_key(k):
        return Poly(dict(k))

    def key(self):
        if self._key is None:
            self._key = Key(sorted(self.t.items(), key=_k))
        return self._key

    def __hash__(self):
        return hash(self.key())

    def __eq__(self, o):
        return isinstance(o, Poly) and self.t == o.t

    def is_zero(self):
        return not self.t

    def is_const(self):
        return all(m == () for m in self.t)

    def const_value(self):
        return self.t.get((), Fraction(0))

    def is_monomial(self):
        return len(self.t) == 1

    # ---- ring operations
    def __add__(self, o):
        o = _coerce(o)
        r = dict(self.t)
        for m, c in o.t.items():
            r[m] = r.get(m, 0) + c
        return Poly(r)

    __radd__ = __add__

    def __neg__(self):
        return Poly({m: -c for m, c in self.t.items()})

    def __sub__(self, o):
        return self + (-_coerce(o))

    def __rsub__(self, o):
        return _coerce(o) - self

    def __mul__(self, o):
        o = _coerce(o)
        r = {}
        for m1, c1 in self.t.items():
            for m2, c2 in o.t.items():
                m, extra = _mulmono(m1, m2)
                if m is None:
                    continue
                if extra is None:
                    r[m] = r.get(m, 0) + c1 * c2
                else:       # a rewrite produced a polynomial factor (abs(x)^2 -> x^2)
                    for mm, cc in (Poly({m: c1 * c2}) * extra).t.items():
                        r[mm] = r.get(mm, 0) + cc
        return Poly(r)

    __rmul__ = __mul__

    def __truediv__(self, o):
        return self * _coerce(o).pow(-1)

    def __rtruediv__(self, o):
        return _coerce(o) * self.pow(-1)

    def pow(self, e):
        e = Fraction(e)
        if e == 1:
            return self
        if e == 0:
            return Poly.const(1)
        if self.is_zero():
            if e > 0:
                return Poly()
            raise ZeroDivisionError('0 ** %s' % e)
        if e.denominator == 1 and e > 0:
            r = Poly.const(1)
            for _ in range(int(e)):
                r = r * self
            return r
        if len(self.t) == 1:
            (m, c), = self.t.items()
            if e.denominator == 1:
                cc = Fraction(1) / (c ** int(-e))
            else:
                cc = _frac_root(c, e)
            if cc is not None:
                r = Poly({(): cc})
                for a, x in m:
                    r = r * _atom_pow(a, x * e)
                return r
        return _pow_nonmono(self, e)

    def atoms(self):
        s = set()
        for m in self.t:
            for a, _ in m:
                s.add(a)
        return s

    def __repr__(self):
        return show(self)


def _coerce(o):
    if isinstance(o, Poly):
        return o
    return Poly.const(o)


def _frac_root(c, e):
    """c ** e for a Fraction c and non-integer e when exact, else None."""
    if c == 1:
        return Fraction(1)
    if c < 0:
        return None
    n, d = e.numerator, e.denominator
    import math

    def iroot(x, k):
        r = round(x ** (1.0 / k))
        for cand in (r - 1, r, r + 1):
            if cand >= 0 and cand ** k == x:
                return cand
        return None
    a, b = iroot(c.numerator, d), iroot(c.denominator, d)
    if a is None or b is None:
        return None
    base = Fraction(a, b)
    return base ** n if n >= 0 else Fraction(1) / (base ** (-n))


def _pow_nonmono(Q, E):
    """Canonical Q ** E for a non-monomial Q: content pulled out, atom ('pow', Q', +-1/d) ** |n|."""
    E = Fraction(E)
    if E == 0:
        return Poly.const(1)
    if Q.is_monomial() or Q.is_zero():
        return Q.pow(E)
    if E.denominator == 1 and E > 0:
        return Q.pow(E)
    items = sorted(Q.t.items(), key=lambda mc: _k(mc[0]))
    lead = items[0][1]
    coef = Fraction(1)
    if lead != 1:
        if E.denominator == 1:
            coef = Fraction(1) / (lead ** int(-E)) if E < 0 else lead ** int(E)
            Q = Poly({m: c / lead for m, c in Q.t.items()})
        else:
            r = _frac_root(lead, E) if lead > 0 else None
            if r is not None:
                coef = r
                Q = Poly({m: c / lead for m, c in Q.t.items()})
    n, d = E.numerator, E.denominator
    base = ('pow', Q.key(), Fraction(1 if n > 0 else -1, d))
    return Poly({Mono(((Atom(base), Fraction(abs(n))),)): coef})


def _atom_pow(a, e):
    """atom ** e with per-atom rewrites."""
    if a[0] == 'ind':
        if e > 0:
            return Poly.atom(a)
        raise ZeroDivisionError('negative power of an Iverson bracket')
    if a[0] == 'fn' and a[1] == 'abs' and e.denominator == 1 and int(e) % 2 == 0:
        return Poly.from_key(a[2][1]).pow(e)
    if a[0] == 'pow':
        return _pow_nonmono(Poly.from_key(a[1]), a[2] * e)
    if a[0] == 'fn' and a[1] == 'exp10':
        # 10**x ** e = 10**(e x)
        return mk_fn('exp10', P(Poly.from_key(a[2][1]) * e))
    return Poly.atom(a, e)


def _ind_eq_const(a):
    """For ('ind','==0', key of (x - c)) return (key of x-part, c) else None."""
    if a[0] != 'ind' or a[1] != '==0':
        return None
    p = Poly.from_key(a[2])
    c = p.const_value()
    rest = p - Poly.const(c)
    if rest.is_zero():
        return None
    return (rest.key(), -c)


def _mulmono(a, b):
    d = dict(a)
    for at, e in b:
        d[at] = d.get(at, 0) + e
    out = []
    extra = None
    eqs = {}
    pows = {}
    for at, e in d.items():
        if e == 0:
            continue
        if at[0] == 'ind':
            if e < 0:
                raise ZeroDivisionError('negative power of an Iverson bracket')
            e = Fraction(1)
            ec = _ind_eq_const(at)
            if ec is not None:
                # ec = (key of x, c) meaning x == c (after sign normalisation of the stored key)
                if ec[0] in eqs and eqs[ec[0]] != ec[1]:
                    return None, None          # [x == a][x == b] = 0 for a != b
                eqs[ec[0]] = ec[1]
        elif at[0] == 'fn' and at[1] == 'abs' and e.denominator == 1 and int(e) % 2 == 0:
            f = Poly.from_key(at[2][1]).pow(e)
            extra = f if extra is None else extra * f
            continue
        elif at[0] == 'pow':
            pows.setdefault(at[1], Fraction(0))
            pows[at[1]] += at[2] * e
            continue
        out.append((at, e))
    for qk, E in pows.items():
        if E == 0:
            continue
        f = _pow_nonmono(Poly.from_key(qk), E)
        if E.denominator == 1 and E > 0:
            extra = f if extra is None else extra * f
        else:
            (mm, cc), = f.t.items()
            if cc != 1:
                extra = Poly.const(cc) if extra is None else extra * cc
            out.extend(mm)
    # merge exp10 factors: 10**a * 10**b = 10**(a+b)
    ex = [(at, e) for at, e in out if at[0] == 'fn' and at[1] == 'exp10']
    if len(ex) > 1 or (ex and ex[0][1] != 1):
        tot = Poly()
        for at, e in ex:
            tot = tot + Poly.from_key(at[2][1]) * e
        out = [(at, e) for at, e in out if not (at[0] == 'fn' and at[1] == 'exp10')]
        f = mk_fn('exp10', P(tot))
        extra = f if extra is None else extra * f
    return Mono(sorted(out, key=_k)), extra


# ---------------------------------------------------------------- smart constructors

def P(p):
    return ('P', _coerce(p).key())


def B(label, p):
    return ('B', label, _coerce(p).key())


def C(v):
    return ('C', v)


def L(label):
    """marks an atom that is itself an array along an axis (logspace, arange, compress, argsort, rev ...)"""
    return ('L', label)


def array_fn(name, label, p, *extra, out=None):
    """an array-valued function of a whole axis: the atom varies along ``out`` (default: the same axis) and binds ``label`` in its argument"""
    return mk_fn(name, L(out if out is not None else label), B(label, p), *extra)


def sym(name, *labels):
    return Poly.atom(('sym', name, tuple(labels)))


# interpolation is linear in its table values (third argument)
LINEAR_FNS = {'interp': 2, 'lininterp': 2, 'rev': 1}
REV_AS_GATHER = True
SORTED_SYMS = set()       # names of input arrays a set-up declares to be in increasing order (e.g. the result of np.unique)
ELEMENTWISE = {'spectral'}        # element-wise functions with no further algebra: distribute over bracket selections, commute with rev   # name -> position of the argument they are linear in


def mk_fn(name, *args):
    """Uninterpreted function with the few algebraic rules the properties need."""
    if name == 'ln' and len(args) == 1 and args[0][0] == 'P':
        p = Poly.from_key(args[0][1])
        if p.is_zero():
            return Poly.atom(('fn', 'ln', args[0]))
        if p.is_monomial():
            (m, c), = p.t.items()
            if c > 0 and all(a[0] != 'ind' for a, _ in m):
                r = Poly()
                if c != 1:
                    r = r + _ln_const(c)
                for a, e in m:
                    if a[0] == 'fn' and a[1] == 'exp10':
                        r = r + Poly.from_key(a[2][1]) * e * _ln_const(Fraction(10))
                    else:
                        r = r + Poly.atom(('fn', 'ln', ('P', Poly.atom(a).key()))) * e
                return r
    if name == 'exp10' and len(args) == 1 and args[0][0] == 'P':
        p = Poly.from_key(args[0][1])
        if p.is_zero():
            return Poly.const(1)
        sel = next((a for a in sorted(p.atoms(), key=_k) if a[0] == 'ind'), None)
        if sel is not None:
            # 10**(a + [c]*b) selects between 10**(a + b) and 10**a (Shannon expansion over the bracket)
            p0, p1 = Poly(), Poly()
            for m, c in p.t.items():
                if any(at == sel for at, _ in m):
                    p1 = p1 + Poly({tuple((at, e) for at, e in m if at != sel): c})
                else:
                    p0 = p0 + Poly({m: c})
            r = Poly.atom(sel)
            return r * mk_fn('exp10', P(p0 + p1)) + (Poly.const(1) - r) * mk_fn('exp10', P(p0))
        if p.is_const() and p.const_value().denominator == 1 and abs(p.const_value()) <= 40:
            v = int(p.const_value())
            return Poly.const(Fraction(10) ** v if v >= 0 else Fraction(1, 10 ** (-v)))
    if name == 'at' and len(args) == 2 and args[0][0] == 'B' and args[1][0] == 'P' and args[0][1]:
        # gathering is substitution of the axis by the index: canonical form has `at` around leaf arrays only
        return index_at(Poly.from_key(args[0][2]), args[0][1], Poly.from_key(args[1][1]))
    if name in ('interp', 'lininterp') and len(args) >= 3 and args[0][0] == 'P' and args[1][0] == 'B':
        # interpolation is unchanged when query and abscissa are rescaled by the same positive factor: the canonical form carries no unit
        # atom common to every term of the query (interp(0.55 micron; x) == interp(0.55; x / micron))
        qp, xp = Poly.from_key(args[0][1]), Poly.from_key(args[1][2])
        if not qp.is_zero() and not xp.is_zero():
            common = None
            for m in qp.t:
                ue = {a: e for a, e in m if a[0] == 'sym' and a[1].startswith('unit:')}
                common = ue if common is None else {a: e for a, e in common.items() if ue.get(a) == e}
            if common:
                f = Poly({tuple(sorted(((a, -e) for a, e in common.items()), key=lambda t: repr(t[0]))): Fraction(1)})
                args = (P(qp * f), B(args[1][1], xp * f)) + tuple(args[2:])
    if name == 'lininterp' and len(args) >= 3 and args[0][0] == 'P' and args[1][0] == 'B' and args[2][0] == 'B' and args[1][1] == args[2][1] \
            and ('C', 'assume_sorted=True') in args[3:]:
        # the caller vouches for the order: when the table was put in the order of its own abscissa (both columns gathered by argsort of the abscissa) this
        # is what interp1d does by itself, so the option and the gather drop out together
        lab_ = args[1][1]
        xp, fp = Poly.from_key(args[1][2]), Poly.from_key(args[2][2])
        got = _ungather([xp, fp], lab_)
        if got is not None and index_at(got[0], lab_, array_fn('argsort', lab_, got[0])) == xp:
            args = (args[0], B(lab_, got[0]), B(lab_, got[1])) + tuple(x for x in args[3:] if x != ('C', 'assume_sorted=True'))
    if name == 'lininterp' and len(args) >= 3 and args[0][0] == 'P' and args[1][0] == 'B' and args[2][0] == 'B' and args[1][1] == args[2][1] \
            and ('C', 'assume_sorted=True') not in args[3:]:
        # scipy's interp1d sorts the table by its abscissa itself: a table whose abscissa and ordinate were gathered by one and the same permutation
        # is the table before the gather
        lab_ = args[1][1]
        xp, fp = Poly.from_key(args[1][2]), Poly.from_key(args[2][2])
        got = _ungather([xp, fp], lab_)
        if got is not None:
            args = (args[0], B(lab_, got[0]), B(lab_, got[1])) + tuple(args[3:])
    if name == 'logspace' and len(args) == 4 and args[0][0] == 'L' and all(x[0] == 'P' for x in args[1:]):
        # n points from 10**a to 10**b, evenly spaced in the exponent: element i is 10**(a + i*(b - a)/(n - 1)); a single point is 10**a
        a_, b_, n_ = [Poly.from_key(x[1]) for x in args[1:]]
        if n_.is_const() and n_.const_value() == 1:
            return mk_fn('exp10', P(a_))
        if not (n_.is_const() and n_.const_value() < 1):
            return mk_fn('exp10', P(a_ + Poly.atom(('fn', 'arange', args[0])) * (b_ - a_) * (n_ - 1).pow(-1)))
    if name == 'int' and len(args) == 1 and args[0][0] == 'P':
        q = Poly.from_key(args[0][1])
        if q.is_monomial():
            (m, c), = q.t.items()
            if c == 1 and len(m) == 1 and m[0][1] == 1 and m[0][0][0] == 'fn' and m[0][0][1] in ('first', 'last', 'argmin', 'argmax', 'searchsorted', 'len', 'int', 'floor', 'ceil'):
                return q                      # already a whole number (a position, a count)
    if name == 'argmax' and len(args) == 1 and args[0][0] == 'B':
        q = Poly.from_key(args[0][2])
        if not q.is_const() and all(a[0] == 'ind' or (a[0] == 'fn' and a[1] in ('any', 'all')) for mono in q.t for a, _ in mono):
            return mk_fn('first', args[0])        # the largest of truth values is the first True (where there is one; callers guard the case where there is none)
    if name == 'compress' and len(args) == 3 and args[0][0] == 'L' and args[1][0] == 'B' and args[2][0] == 'B' and args[1][1] == args[2][1]:
        # the elements a mask selects are the elements at the positions where it holds: x[mask] == x[nonzero(mask)]
        lab = args[1][1]
        return index_at(Poly.from_key(args[1][2]), lab, mk_fn('nonzero', args[0], args[2]))
    if name == 'searchsorted' and len(args) == 2 and args[0][0] == 'B' and args[1][0] == 'P':
        # the position of q in a sorted table is unchanged when both are rescaled by the same positive factor: no unit atom common to every term of the query
        qp, xp = Poly.from_key(args[1][1]), Poly.from_key(args[0][2])
        if not qp.is_zero() and not xp.is_zero():
            common = None
            for m in qp.t:
                ue = {a: e for a, e in m if a[0] == 'sym' and a[1].startswith('unit:')}
                common = ue if common is None else {a: e for a, e in common.items() if ue.get(a) == e}
            if common:
                f = Poly({tuple(sorted(((a, -e) for a, e in common.items()), key=lambda t: repr(t[0]))): Fraction(1)})
                args = (B(args[0][1], xp * f), P(qp * f))
    if name in LINEAR_FNS and len(args) > LINEAR_FNS[name] and args[LINEAR_FNS[name]][0] == 'B':
        k = LINEAR_FNS[name]
        lab, fp = args[k][1], Poly.from_key(args[k][2])
        simple = fp.is_monomial() and list(fp.t.values()) == [Fraction(1)] and all(lab in atom_labels(a) for a, _ in list(fp.t)[0])
        if not simple:
            out = Poly()
            for m, c in fp.t.items():
                dep = tuple((a, e) for a, e in m if lab in atom_labels(a))
                ind = tuple((a, e) for a, e in m if lab not in atom_labels(a))
                a2 = ('B', lab, Poly({dep: Fraction(1)}).key())
                out = out + Poly({ind: c}) * mk_fn(name, *(tuple(args[:k]) + (a2,) + tuple(args[k + 1:])))
            return out
    if name == 'rev' and len(args) == 2 and args[0][0] == 'L' and args[1][0] == 'B' and args[0][1] == args[1][1] and REV_AS_GATHER:
        # reversal is the gather x[len - 1 - i]: pushed down to the leaves like every gather, so rev(x*y) == rev(x)*rev(y) and rev(rev(x)) == x
        lab = args[1][1]
        run = Poly.atom(('sym', 'idx:' + str(lab), (lab,)))
        return index_at(Poly.from_key(args[1][2]), lab, count(lab) - 1 - run)
    if name == 'rev' and len(args) == 2 and args[0][0] == 'L' and args[1][0] == 'B':
        inner = Poly.from_key(args[1][2])
        if inner.is_monomial():
            (m, c), = inner.t.items()
            if c == 1 and len(m) == 1 and m[0][1] == 1 and m[0][0][0] == 'fn' and m[0][0][1] == 'rev' and len(m[0][0]) == 4 and m[0][0][3][0] == 'B' \
                    and m[0][0][3][1] == args[1][1]:
                return Poly.from_key(m[0][0][3][2])        # rev(rev(x)) = x
    if name in ('max', 'min', 'nanmax', 'nanmin') and len(args) == 1 and args[0][0] == 'B':
        inner = Poly.from_key(args[0][2])
        if inner.is_monomial():
            (m, c), = inner.t.items()
            pos = tuple((a, e) for a, e in m if a[0] == 'sym' and a[1].startswith('unit:'))
            if c > 0 and (pos or c != 1):
                rest = tuple((a, e) for a, e in m if not (a[0] == 'sym' and a[1].startswith('unit:')))
                return Poly({pos: c}) * Poly.atom(('fn', name, ('B', args[0][1], Poly({rest: Fraction(1)}).key())))
    if name == 'abs' and len(args) == 1 and args[0][0] == 'P':
        p = Poly.from_key(args[0][1])
        if p.is_const():
            return Poly.const(abs(p.const_value()))
    if name in ELEMENTWISE and len(args) == 1 and args[0][0] == 'P':
        # an element-wise function of a value that is selected by brackets selects between the function values (Shannon expansion),
        # and commutes with a reversal of the axis: f(rev(x)) == rev(f(x))
        p = Poly.from_key(args[0][1])
        inner = None
        for a in sorted(p.atoms(), key=_k):
            if a[0] == 'ind':
                inner = a
                break
        if inner is not None and p.t:
            p0, p1 = Poly(), Poly()
            for m, c in p.t.items():
                if any(at == inner for at, _ in m):
                    p1 = p1 + Poly({tuple((at, e) for at, e in m if at != inner): c})
                else:
                    p0 = p0 + Poly({m: c})
            r = Poly.atom(inner)
            return r * mk_fn(name, P(p0 + p1)) + (Poly.const(1) - r) * mk_fn(name, P(p0))
        if p.is_monomial():
            (m, c), = p.t.items()
            if c == 1 and len(m) == 1 and m[0][1] == 1 and m[0][0][0] == 'fn' and m[0][0][1] == 'rev' and len(m[0][0]) == 4 and m[0][0][3][0] == 'B':
                at = m[0][0]
                return mk_fn('rev', at[2], B(at[3][1], mk_fn(name, P(Poly.from_key(at[3][2])))))
    if name in ('argsort', 'argmin', 'argmax') and args and args[-1][0] == 'B':
        # the ordering of x is the ordering of k*x for a positive factor k (a unit the values are expressed in, a positive constant)
        inner = Poly.from_key(args[-1][2])
        if inner.is_monomial():
            (m, c), = inner.t.items()
            pos = tuple((a, e) for a, e in m if a[0] == 'sym' and a[1].startswith('unit:'))
            if c > 0 and (pos or c != 1):
                rest = tuple((a, e) for a, e in m if not (a[0] == 'sym' and a[1].startswith('unit:')))
                args = tuple(args[:-1]) + (B(args[-1][1], Poly({rest: Fraction(1)})),)
    if name in ('argsort', 'argmin', 'argmax') and args and args[-1][0] == 'B':
        # ... and the ordering of ln(y) (times positive constants) is the ordering of y
        inner = Poly.from_key(args[-1][2])
        lab_ = args[-1][1]
        if inner.is_monomial():
            (m, c), = inner.t.items()
            dep = [(a, e) for a, e in m if lab_ in atom_labels(a)]
            ind = [(a, e) for a, e in m if lab_ not in atom_labels(a)]
            if c > 0 and len(dep) == 1 and dep[0][1] == 1 and dep[0][0][0] == 'fn' and dep[0][0][1] == 'ln' and dep[0][0][2][0] == 'P' and \
                    all(a[0] == 'fn' and a[1] == 'ln' and a[2][0] == 'P' and Poly.from_key(a[2][1]).is_const() and Poly.from_key(a[2][1]).const_value() > 1 for a, _ in ind):
                return mk_fn(name, *(tuple(args[:-1]) + (B(lab_, Poly.from_key(dep[0][0][2][1])),)))
    if name == 'argsort' and len(args) == 2 and args[0][0] == 'L' and args[1][0] == 'B' and args[0][1] == args[1][1]:
        inner = Poly.from_key(args[1][2])
        if inner.is_monomial():
            (m, c), = inner.t.items()
            if c == 1 and len(m) == 1 and m[0][1] == 1 and m[0][0][0] == 'sym' and m[0][0][1] in SORTED_SYMS and m[0][0][2] == (args[0][1],):
                return Poly.atom(('fn', 'arange', args[0]))          # an input declared to be in increasing order: sorting it is the identity
            if c == 1 and len(m) == 1 and m[0][1] == 1 and m[0][0][0] == 'fn' and m[0][0][1] == 'at' and len(m[0][0]) == 4 and m[0][0][2][0] == 'B' and m[0][0][2][1] == args[0][1] \
                    and m[0][0][3][0] == 'P':
                # x gathered by its own argsort is sorted: sorting it again is the identity permutation
                src_ = Poly.from_key(m[0][0][2][2])
                if Poly.from_key(m[0][0][3][1]) == mk_fn('argsort', args[0], B(args[0][1], src_)):
                    return Poly.atom(('fn', 'arange', args[0]))
        # argsort of a permutation is its inverse: argsort(argsort(x)) == invperm(argsort(x))
        inner = Poly.from_key(args[1][2])
        if inner.is_monomial():
            (m, c), = inner.t.items()
            if c == 1 and len(m) == 1 and m[0][1] == 1 and m[0][0][0] == 'fn' and m[0][0][1] in ('argsort', 'invperm') and len(m[0][0]) == 4 and m[0][0][2] == args[0]:
                if m[0][0][1] == 'invperm':
                    return Poly.from_key(m[0][0][3][2])      # argsort(invperm(p)) == p
                return Poly.atom(('fn', 'invperm') + tuple(args))
    if name == 'invperm' and len(args) == 2 and args[0][0] == 'L' and args[1][0] == 'B' and args[0][1] == args[1][1]:
        inner = Poly.from_key(args[1][2])
        if inner.is_monomial():
            (m, c), = inner.t.items()
            if c == 1 and len(m) == 1 and m[0][1] == 1 and m[0][0][0] == 'fn' and m[0][0][1] == 'invperm' and len(m[0][0]) == 4 and m[0][0][2] == args[0]:
                return Poly.from_key(m[0][0][3][2])          # invperm(invperm(p)) == p
            if c == 1 and len(m) == 1 and m[0][1] == 1 and m[0][0][0] == 'fn' and m[0][0][1] == 'arange' and m[0][0][2:] == (args[0],):
                return inner                                  # the identity permutation
    if name in ('any', 'all') and len(args) == 1 and args[0][0] == 'B' and Poly.from_key(args[0][2]).is_const():
        # the same truth value at every position (axes are taken to be non-empty: there is at least one filter, one model, one request)
        return Poly.from_key(args[0][2])
    if name in ('any', 'all') and len(args) == 1 and args[0][0] == 'B':
        # a bracket that does not depend on the position comes out: any_d(r*X + (1-r)*Y) == r*any_d(X) + (1-r)*any_d(Y)
        inner = Poly.from_key(args[0][2])
        free_ = next((a for a in sorted(inner.atoms(), key=_k) if a[0] == 'ind' and args[0][1] not in atom_labels(a)), None)
        if free_ is not None and all(e == 1 for m in inner.t for a, e in m if a == free_):
            p0, p1 = Poly(), Poly()
            for m, c in inner.t.items():
                if any(at == free_ for at, _ in m):
                    p1 = p1 + Poly({tuple((at, e) for at, e in m if at != free_): c})
                else:
                    p0 = p0 + Poly({m: c})
            r = Poly.atom(free_)
            return r * mk_fn(name, ('B', args[0][1], (p0 + p1).key())) + (Poly.const(1) - r) * mk_fn(name, ('B', args[0][1], p0.key()))
    if name == 'any' and len(args) == 1 and args[0][0] == 'B':
        # any(not p) == not all(p): one canonical spelling for a negated conjunction
        inner = Poly.from_key(args[0][2])
        neg = Poly.const(1) - inner
        if not inner.is_monomial() and neg.is_monomial() and list(neg.t.values()) == [Fraction(1)] and all(a[0] == 'ind' for a, _ in list(neg.t)[0]):
            return Poly.const(1) - Poly.atom(('fn', 'all', ('B', args[0][1], neg.key())))
    return Poly.atom(('fn', name) + tuple(args))


def _ungather(polys, lab):
    """``polys`` with the gather by one permutation of axis ``lab`` removed from all of them, when every one of them is exactly such a gather; else None"""
    pis = set()

    def is_perm_gather(a):
        if a[0] == 'fn' and a[1] == 'at' and len(a) == 4 and a[2][0] == 'B' and a[2][1] == lab and a[3][0] == 'P':
            ip = Poly.from_key(a[3][1])
            if ip.is_monomial():
                (m, c), = ip.t.items()
                if c == 1 and len(m) == 1 and m[0][1] == 1 and m[0][0][0] == 'fn' and m[0][0][1] in ('argsort', 'invperm') and m[0][0][2] == ('L', lab):
                    return ip
        return None

    def scan(a):
        ip = is_perm_gather(a)
        if ip is not None:
            pis.add(ip.key())
        return None
    for p in polys:
        rebuild(p, scan)
    if len(pis) != 1:
        return None
    pi = Poly.from_key(next(iter(pis)))

    def strip(a):
        ip = is_perm_gather(a)
        if ip is not None and ip == pi:
            return Poly.from_key(a[2][2])
        return None
    out = [rebuild(p, strip) for p in polys]
    for p, q in zip(polys, out):
        if index_at(q, lab, pi) != p:
            return None
    return out


def expand_interp(p, unsorted=None, assume_sorted=False):
    """np.interp(q, x, y) written as the linear interpolation interp1d does inside the table, with the first / last ordinate (or left= / right=) held beyond
    its ends: the spellings of 'held constant (or zero) beyond the ends of the table' then have one normal form.  np.interp does not sort its table, so an
    atom is expanded only when its abscissa is known to increase (gathered by its own argsort), or when the caller takes that as a precondition"""
    def f(a):
        if a[0] == 'fn' and a[1] == 'interp' and len(a) >= 5 and a[2][0] == 'P' and a[3][0] == 'B' and a[4][0] == 'B' and a[3][1] == a[4][1]:
            q, lab, xp, fp = Poly.from_key(a[2][1]), a[3][1], Poly.from_key(a[3][2]), Poly.from_key(a[4][2])
            if not assume_sorted and array_fn('argsort', lab, xp) != Poly.atom(('fn', 'arange', ('L', lab))):
                if unsorted is not None:
                    unsorted.append(xp)
                return None
            ends = {'left': mk_fn('at', B(lab, fp), P(Poly())), 'right': mk_fn('at', B(lab, fp), P(Poly.const(-1)))}
            for x in a[5:]:
                if x[0] != 'C' or '=' not in x[1]:
                    return None
                k_, v_ = x[1].split('=', 1)
                try:
                    ends[k_] = Poly.const(Fraction(v_))
                except (ValueError, ZeroDivisionError):
                    return None
            lin = mk_fn('lininterp', P(q), B(lab, xp), B(lab, fp), C('bounds_error=False'), C('fill_value=Marker(numpy.nan)'))
            lo, hi = mk_fn('at', B(lab, xp), P(Poly())), mk_fn('at', B(lab, xp), P(Poly.const(-1)))
            r = lin + lt(q, lo) * (ends['left'] - lin)
            return r + lt(hi, q) * (ends['right'] - r)
        return None
    return rebuild(p, f)


def unfold_lininterp(p):
    """Linear interpolation inside a table written out: with the table sorted by its abscissa and hi = clip(searchsorted(x, q), 1, n - 1), lo = hi - 1,
    the value is y[lo] * (x[hi] - q) / (x[hi] - x[lo]) + y[hi] * (q - x[lo]) / (x[hi] - x[lo]).  Only the strict form (which refuses queries outside
    the table) is unfolded, so the identity is needed - and used - inside the table only; a hand-written interpolation of that shape and interp1d then
    have one normal form."""
    def f(a):
        if a[0] == 'fn' and a[1] == 'lininterp' and len(a) == 5 and a[2][0] == 'P' and a[3][0] == 'B' and a[4][0] == 'B' and a[3][1] == a[4][1]:
            q, lab, xp, fp = Poly.from_key(a[2][1]), a[3][1], Poly.from_key(a[3][2]), Poly.from_key(a[4][2])
            srt = array_fn('argsort', lab, xp)
            xs, ys = index_at(xp, lab, srt), index_at(fp, lab, srt)
            ss = mk_fn('searchsorted', B(lab, xs), P(q))
            top = count(lab) - 1
            hi = ss + lt(ss, Poly.const(1)) * (Poly.const(1) - ss) + lt(top, ss) * (top - ss)          # np.clip(ss, 1, n - 1), as the interpreter writes it
            lo = hi - 1
            xlo, xhi, ylo, yhi = index_at(xs, lab, lo), index_at(xs, lab, hi), index_at(ys, lab, lo), index_at(ys, lab, hi)
            inv = (xhi - xlo).pow(-1)
            return ylo * (xhi - q) * inv + yhi * (q - xlo) * inv
        return None
    return rebuild(p, f)


def _ln_const(c):
    c = Fraction(c)
    if c == 1:
        return Poly()
    return Poly.atom(('fn', 'ln', ('P', Poly.const(c).key())))


def ln(p):
    return mk_fn('ln', P(p))


def log10(p):
    return ln(p) * _ln_const(10).pow(-1)


NO_SHANNON = False       # True: brackets nested in a bracket's argument are left where they are (no expansion)


def _is_truth_valued(p):
    """every term a product of brackets, and the whole 0 or 1 whatever the brackets are (tried on every assignment of them: sound, the brackets may be
    related but are never anything else than 0 or 1)"""
    atoms = []
    for m, c in p.t.items():
        for a, e in m:
            if a[0] != 'ind' or e != 1:
                return False
            if a not in atoms:
                atoms.append(a)
    if not atoms or len(atoms) > 8:
        return False
    seen = set()
    for bits in range(1 << len(atoms)):
        on = {a for k, a in enumerate(atoms) if bits >> k & 1}
        v = sum(c for m, c in p.t.items() if all(a in on for a, e in m))
        if v not in (0, 1):
            return False
        seen.add(v)
    return seen == {0, 1}


def mk_ind(op, p):
    """Iverson bracket [p op]; real comparisons are normalised to '<0' / '==0' with a
    positive-scale-invariant key; brackets nested in the argument are removed by
    Shannon expansion: [P0 + r*P1 op] = r*[P0+P1 op] + (1-r)*[P0 op]."""
    p = _coerce(p)
    inner = None
    for a in sorted(p.atoms(), key=_k):
        if a[0] == 'ind':
            inner = a
            break
    if inner is not None and NO_SHANNON:
        inner = None          # (the caller decides the nested brackets first - an ordering of the points compared - and re-forms this one afterwards)
    if inner is not None:
        p0, p1 = Poly(), Poly()
        for m, c in p.t.items():
            if any(at == inner for at, _ in m):
                p1 = p1 + Poly({tuple((at, e) for at, e in m if at != inner): c})
            else:
                p0 = p0 + Poly({m: c})
        r = Poly.atom(inner)
        return r * mk_ind(op, p0 + p1) + (Poly.const(1) - r) * mk_ind(op, p0)
    if op in ('<0', '==0'):
        if p.is_const():
            c = p.const_value()
            return Poly.const(1 if ((c < 0) if op == '<0' else (c == 0)) else 0)
        if op == '<0' and len(p.t) == 3:
            # [len(K) - 1 < rank(K, n)]: the rank of a key that is in K (as keypos takes n to be) is a position of K, never past the last one
            for m_, c_ in p.t.items():
                if c_ == -1 and len(m_) == 1 and m_[0][1] == 1 and m_[0][0][0] == 'fn' and m_[0][0][1] == 'rank' and len(m_[0][0]) == 4 and m_[0][0][2][0] == 'B':
                    if p + Poly.atom(m_[0][0]) == count(m_[0][0][2][1]) - 1:
                        return Poly.const(0)
        if p.t and all(len(m_) == 1 and m_[0][1] == 1 and m_[0][0][0] == 'sum' for m_ in p.t) and len({m_[0][0][1] for m_ in p.t}) == 1:
            # a count of the positions at which a mask holds (possibly spread over several sums by linearity): above zero when the mask holds somewhere,
            # never below zero
            lab_ = next(iter(p.t))[0][0][1]
            body_ = Poly()
            for m_, c_ in p.t.items():
                body_ = body_ + Poly.from_key(m_[0][0][2]) * Poly.const(c_)
            for sign_ in (-1, 1):
                b_ = body_ * Poly.const(sign_)
                if _is_truth_valued(b_):
                    some_ = mk_fn('any', ('B', lab_, b_.key()))
                    if op == '==0':
                        return Poly.const(1) - some_
                    return some_ if sign_ == -1 else Poly.const(0)
        p = _scale_normalise(p, allow_flip=(op == '==0'))
    elif op in ('isinf', 'isnan'):
        if p.is_const():
            return Poly.const(0)
        p = _scale_normalise(p, allow_flip=True)
        if op == 'isinf' and p == Poly.atom(('fn', 'ln', ('P', Poly().key()))):
            return Poly.const(1)       # ln(0) = -inf
    return Poly.atom(('ind', op, p.key()))


def _scale_normalise(p, allow_flip):
    """Divide by |leading coefficient| (and by its sign for equalities), and by the unit atoms - positive numbers - every term carries."""
    common = None
    for m in p.t:
        ue = {a: e for a, e in m if a[0] == 'sym' and a[1].startswith('unit:')}
        common = ue if common is None else {a: e for a, e in common.items() if ue.get(a) == e}
        if not common:
            break
    if common:
        p = p * Poly({tuple(sorted(((a, -e) for a, e in common.items()), key=lambda t: repr(t[0]))): Fraction(1)})
    items = sorted(p.t.items(), key=lambda mc: _k(mc[0]))
    lead = None
    for m, c in items:
        if m != ():
            lead = c
            break
    if lead is None:
        return p
    s = abs(lead)
    if allow_flip and lead < 0:
        s = lead
    if s == 1:
        return p
    return Poly({m: c / s for m, c in p.t.items()})


class Facts:
    """Side conditions stated by a property (e.g. lo <= hi): brackets known false/true, and
    the derived rule that [P<0][Q<0] = 0 whenever P+Q is known to be >= 0."""

    def __init__(self):
        self.false, self.true = set(), set()

    def assume_le(self, a, b):
        """a <= b : the bracket [b - a < 0] is false."""
        q = mk_ind('<0', _coerce(b) - _coerce(a))
        for at in q.atoms():
            self.false.add(at)
        return self

    def assume_true(self, bracket_poly):
        for at in bracket_poly.atoms():
            self.true.add(at)
        return self

    def assume_false(self, bracket_poly):
        for at in bracket_poly.atoms():
            self.false.add(at)
        return self

    def _nonneg(self, p):
        if p.is_const():
            return p.const_value() >= 0
        q = mk_ind('<0', p)
        return q.is_monomial() and all(at in self.false for at in q.atoms()) and q.t and list(q.t.values()) == [1]

    def simplify(self, p):
        def f(a):
            if a in self.false:
                return Poly()
            if a in self.true:
                return Poly.const(1)
            return None
        return rebuild(p, f, self._drop_contradictions)

    def _drop_contradictions(self, p):
        out = {}
        for m, c in p.t.items():
            lts = [Poly.from_key(a[2]) for a, _ in m if a[0] == 'ind' and a[1] == '<0']
            dead = False
            for i in range(len(lts)):
                for j in range(i + 1, len(lts)):
                    if self._nonneg(lts[i] + lts[j]):
                        dead = True
            if not dead:
                out[m] = c
        return Poly(out)


class OrderFacts:
    """A (weak) ordering of finitely many symbolic points: every bracket comparing two of them is decided.
    Values that a piece of code touches only through comparisons have finitely many orderings; a property over
    all such values is decided by enumerating them."""

    def __init__(self, points, ranks):
        self.points, self.ranks = list(points), list(ranks)
        self.val = {}
        n = len(self.points)
        for i in range(n):
            for j in range(n):
                if i == j:
                    continue
                a, b = self.points[i], self.points[j]
                for q, truth in ((mk_ind('<0', a - b), self.ranks[i] < self.ranks[j]), (mk_ind('==0', a - b), self.ranks[i] == self.ranks[j])):
                    if q.is_monomial():
                        (m, c), = q.t.items()
                        if c == 1 and len(m) == 1 and m[0][1] == 1 and m[0][0][0] == 'ind':
                            self.val[m[0][0]] = 1 if truth else 0

    def simplify(self, p):
        return rebuild(p, lambda a: Poly.const(self.val[a]) if a in self.val else None)


def weak_orderings(n):
    """all rank vectors of n items (ordered set partitions), ranks normalised to 0..k-1"""
    out = set()

    def rec(prefix):
        if len(prefix) == n:
            order = sorted(set(prefix))
            out.add(tuple(order.index(x) for x in prefix))
            return
        for r in range(n):
            rec(prefix + [r])
    rec([])
    return sorted(out)


def lt(a, b):
    return mk_ind('<0', _coerce(a) - _coerce(b))


def eq(a, b):
    return mk_ind('==0', _coerce(a) - _coerce(b))


def b_not(p):
    return Poly.const(1) - p


def b_and(p, q):
    return p * q


def b_or(p, q):
    return p + q - p * q


# ---------------------------------------------------------------- labels

def atom_labels(a):
    k = a[0]
    if k == 'sym':
        return set(x for x in a[2] if x)
    if k == 'sum':
        return poly_labels(Poly.from_key(a[2])) - {a[1]}
    if k == 'pow':
        return poly_labels(Poly.from_key(a[1]))
    if k == 'ind':
        return poly_labels(Poly.from_key(a[2]))
    if k == 'fn':
        s = set()
        for x in a[2:]:
            if x[0] == 'P':
                s |= poly_labels(Poly.from_key(x[1]))
            elif x[0] == 'B':
                s |= poly_labels(Poly.from_key(x[2])) - {x[1]}
            elif x[0] == 'L':
                s.add(x[1])          # the atom is an array along this (new) axis
        return s
    return set()


_lab_cache = {}


def poly_labels(p):
    k = p.key()
    if k in _lab_cache:
        return _lab_cache[k]
    s = set()
    for a in p.atoms():
        s |= atom_labels(a)
    _lab_cache[k] = s
    return s


def sum_over(p, label):
    """SUM_label p, distributed over monomials; label-independent factors pulled out."""
    r = Poly()
    for m, c in p.t.items():
        dep = tuple((a, e) for a, e in m if label in atom_labels(a))
        ind = tuple((a, e) for a, e in m if label not in atom_labels(a))
        if dep:
            at = ('sum', label, Poly({dep: Fraction(1)}).key())
            r = r + Poly({ind: c}) * Poly.atom(at)
        else:
            r = r + Poly({ind: c}) * count(label)
    return r


def is_integer_valued(p):
    """True when every value the polynomial can take is an integer by construction: integer coefficients on products of indicators, lengths, and
    sums over an axis of such terms (so ``int()`` of it is the identity)."""
    for m, c in p.t.items():
        if Fraction(c).denominator != 1:
            return False
        for a, e in m:
            if Fraction(e).denominator != 1 or e < 0:
                return False
            if a[0] == 'ind' or (a[0] == 'fn' and a[1] == 'len'):
                continue
            if a[0] == 'sum' and is_integer_valued(Poly.from_key(a[2])):
                continue
            return False
    return True


def count(label):
    """Number of elements along an axis (a scalar; the label is not free in it)."""
    return Poly.atom(('fn', 'len', ('C', label)))


# ---------------------------------------------------------------- rebuild / substitute

def _extreme_of_sorted(p, label, idx):
    """x[argsort(x)[-1]] == max(x) and x[argsort(x)[0]] == min(x), for x = the array ``p`` over ``label``; None when idx is not of that form"""
    if not idx.is_monomial():
        return None
    (m, c), = idx.t.items()
    if not (c == 1 and len(m) == 1 and m[0][1] == 1):
        return None
    a = m[0][0]
    if not (a[0] == 'fn' and a[1] == 'at' and len(a) == 4 and a[2][0] == 'B' and a[3][0] == 'P'):
        return None
    pos = Poly.from_key(a[3][1])
    if not (pos.is_const() and pos.const_value() in (0, -1)):
        return None
    inner = Poly.from_key(a[2][2])
    if not inner.is_monomial():
        return None
    (mi, ci), = inner.t.items()
    if not (ci == 1 and len(mi) == 1 and mi[0][1] == 1):
        return None
    s_ = mi[0][0]
    if not (s_[0] == 'fn' and s_[1] == 'argsort' and len(s_) == 4 and s_[2] == ('L', a[2][1]) and s_[3][0] == 'B'):
        return None
    if relabel(Poly.from_key(s_[3][2]), s_[3][1], label) != p:
        return None
    return mk_fn('max' if pos.const_value() == -1 else 'min', B(label, p))


def index_at(p, label, idx):
    """The element of the term ``p`` at position ``idx`` of axis ``label``: gathering commutes with every element-wise
    operation, so the index is pushed down to the leaves: free occurrences x[label] become at(label -> x, idx);
    occurrences bound by a reduction / gather over the same label are untouched."""
    idx = _coerce(idx)
    back_ = idx - count(label)
    if back_.is_const() and back_.const_value().denominator == 1 and back_.const_value() < 0:
        idx = back_                            # x[len(x) - c] == x[-c]: one spelling for positions counted from the end
    run = Poly.atom(('sym', 'idx:' + str(label), (label,)))
    # the value of the running position itself: a position counted from the end is len + idx
    pos_idx = count(label) + idx if idx.is_const() and idx.const_value().denominator == 1 and idx.const_value() < 0 else idx
    if idx == Poly.atom(('fn', 'arange', ('L', label))):
        return p                               # x[arange(n)] == x
    ext_ = _extreme_of_sorted(p, label, idx)
    if ext_ is not None:
        return ext_
    memo = {}

    def go(q):
        k_ = q.key()
        if k_ in memo:
            return memo[k_]
        out = Poly()
        for m, c in q.t.items():
            term = Poly.const(c)
            for a, e in m:
                term = term * go_atom(a).pow(e)
            out = out + term
        memo[k_] = out
        return out

    def leaf(a):
        if idx == run:
            return Poly.atom(a)
        if a[0] == 'fn' and a[1] == 'arange' and len(a) == 3 and a[2] == ('L', label):
            return pos_idx                     # arange(n)[i] == i
        if a[0] == 'fn' and a[1] == 'argsort' and len(a) == 4 and a[2] == ('L', label) and a[3][0] == 'B' and idx.is_monomial():
            # argsort(K)[rank(K, n)] is the position in K of the key that equals n (n is taken to be one of the keys)
            (mx_, cx_), = idx.t.items()
            if cx_ == 1 and len(mx_) == 1 and mx_[0][1] == 1 and mx_[0][0][0] == 'fn' and mx_[0][0][1] == 'rank' and len(mx_[0][0]) == 4 \
                    and mx_[0][0][2][0] == 'B' and Poly.from_key(mx_[0][0][2][2]) == relabel(Poly.from_key(a[3][2]), a[3][1], mx_[0][0][2][1]):
                return Poly.atom(('fn', 'keypos', mx_[0][0][2], mx_[0][0][3]))
        if a[0] == 'fn' and a[1] == 'slice' and len(a) == 7 and a[2] == ('L', label) and a[3][0] == 'B' and a[3][1] != label \
                and (a[6] == ('C', None) or (a[6][0] == 'P' and Poly.from_key(a[6][1]).is_const() and Poly.from_key(a[6][1]).const_value() > 0)) \
                and (a[4] == ('C', None) or (a[4][0] == 'P' and Poly.from_key(a[4][1]).is_const() and Poly.from_key(a[4][1]).const_value() >= 0)) \
                and not (idx.is_const() and idx.const_value() < 0):
            # element i of x[lo:hi:step] with a fixed non-negative start and a fixed positive step (i counted from the front) is x[lo + i*step]
            lo = Poly() if a[4] == ('C', None) else Poly.from_key(a[4][1])
            step = Poly.const(1) if a[6] == ('C', None) else Poly.from_key(a[6][1])
            return index_at(Poly.from_key(a[3][2]), a[3][1], lo + idx * step)
        if a[0] == 'fn' and a[1] == 'slice' and len(a) == 7 and a[2] == ('L', label) and a[3][0] == 'B' and a[3][1] != label and a[6] == ('C', None) \
                and a[4][0] == 'P' and Poly.from_key(a[4][1]).is_const() and Poly.from_key(a[4][1]).const_value() < 0 and Poly.from_key(a[4][1]).const_value().denominator == 1 \
                and idx.is_const() and idx.const_value().denominator == 1 and idx.const_value() >= 0 and (Poly.from_key(a[4][1]) + idx).const_value() < 0:
            # element i of x[-c:] (a start counted from the end, step 1) is x[-c + i] as long as that is still counted from the end
            return index_at(Poly.from_key(a[3][2]), a[3][1], Poly.from_key(a[4][1]) + idx)
        return Poly.atom(('fn', 'at', ('B', label, Poly.atom(a).key()), ('P', idx.key())))

    def go_atom(a):
        if a in memo:
            return memo[a]
        kind = a[0]
        if label not in atom_labels(a):
            r = Poly.atom(a)
        elif kind == 'sym':
            r = pos_idx if a[1] == 'idx:' + str(label) else leaf(a)
        elif kind == 'sum':
            r = sum_over(go(Poly.from_key(a[2])), a[1])          # a[1] != label here (label is free in a)
        elif kind == 'pow':
            r = go(Poly.from_key(a[1])).pow(a[2])
        elif kind == 'ind':
            r = mk_ind(a[1], go(Poly.from_key(a[2])))
        elif kind == 'fn':
            if any(x[0] == 'L' and x[1] == label for x in a[2:]):
                r = leaf(a)                                          # an array-valued atom along this axis
            elif a[1] == 'at' and len(a) == 4 and a[2][0] == 'B' and a[2][1] != label and a[3][0] == 'P':
                # a gather over another axis around a leaf that also varies along this one: x[i_other, i_this].  Independent gathers commute;
                # the canonical nesting has the smaller label outside (and the atom is built directly: going through mk_fn would push the
                # outer gather back in, for ever)
                l2 = a[2][1]
                base = go(Poly.from_key(a[2][2]))
                i2 = go(Poly.from_key(a[3][1]))
                r = None
                if base.is_monomial():
                    (bm, bc), = base.t.items()
                    if bc == 1 and len(bm) == 1 and bm[0][1] == 1 and bm[0][0][0] == 'fn' and bm[0][0][1] == 'at' and len(bm[0][0]) == 4 and bm[0][0][2][0] == 'B' \
                            and bm[0][0][2][1] == label and str(label) < str(l2) and l2 not in poly_labels(Poly.from_key(bm[0][0][3][1])) and label not in poly_labels(i2):
                        inner_leaf = Poly.from_key(bm[0][0][2][2])
                        swapped_inner = Poly.atom(('fn', 'at', ('B', l2, inner_leaf.key()), ('P', i2.key())))
                        r = Poly.atom(('fn', 'at', ('B', label, swapped_inner.key()), bm[0][0][3]))
                if r is None:
                    r = Poly.atom(('fn', 'at', ('B', l2, base.key()), ('P', i2.key())))
            else:
                args = []
                for x in a[2:]:
                    if x[0] == 'P':
                        args.append(P(go(Poly.from_key(x[1]))))
                    elif x[0] == 'B':
                        args.append(x if x[1] == label else B(x[1], go(Poly.from_key(x[2]))))
                    else:
                        args.append(x)
                r = mk_fn(a[1], *args)
        else:
            r = Poly.atom(a)
        memo[a] = r
        return r
    return go(p)


def shift_index(p, label, k):
    """The term for position i+k of axis ``label`` given the term for the generic position i."""
    run = Poly.atom(('sym', 'idx:' + str(label), (label,)))
    return index_at(p, label, run + k)


def rebuild(p, f, post=None, _memo=None):
    """Rebuild ``p`` bottom-up; ``f(atom)`` returns a Poly to replace a (rebuilt) atom or None;
    ``post`` (Poly -> Poly) is applied to every rebuilt polynomial, nested ones included.
    Atoms and nested polynomials are rebuilt once per call (memoised)."""
    memo = {} if _memo is None else _memo
    k = ('p', p.key())
    if k in memo:
        return memo[k]
    out = Poly()
    for m, c in p.t.items():
        term = Poly.const(c)
        for a, e in m:
            term = term * _rebuild_atom(a, f, post, memo).pow(e)
        out = out + term
    if post:
        out = post(out)
    memo[k] = out
    return out


def _rebuild_atom(a, f, post=None, memo=None):
    if memo is not None and a in memo:
        return memo[a]
    k = a[0]
    if k == 'sym':
        new = Poly.atom(a)
    elif k == 'sum':
        new = sum_over(rebuild(Poly.from_key(a[2]), f, post, memo), a[1])
    elif k == 'pow':
        new = rebuild(Poly.from_key(a[1]), f, post, memo).pow(a[2])
    elif k == 'ind':
        new = mk_ind(a[1], rebuild(Poly.from_key(a[2]), f, post, memo))
    elif k == 'fn':
        args = []
        for x in a[2:]:
            if x[0] == 'P':
                args.append(P(rebuild(Poly.from_key(x[1]), f, post, memo)))
            elif x[0] == 'B':
                args.append(B(x[1], rebuild(Poly.from_key(x[2]), f, post, memo)))
            else:
                args.append(x)
        new = mk_fn(a[1], *args)
    else:
        new = Poly.atom(a)
    if new.is_monomial():
        (m, c), = new.t.items()
        if c == 1 and len(m) == 1 and m[0][1] == 1:
            r = f(m[0][0])
            if r is not None:
                new = r
    if memo is not None:
        memo[a] = new
    return new


def subst_sym(p, mapping):
    """Replace ('sym', name, labels) atoms by name -> Poly or callable(labels) -> Poly."""
    def f(a):
        if a[0] == 'sym' and a[1] in mapping:
            v = mapping[a[1]]
            return v(a[2]) if callable(v) else v
        return None
    return rebuild(p, f)


def relabel(p, old, new, suffix=''):
    """Rename axis label ``old`` to ``new`` in free positions; sym names get ``suffix`` (used for shifted slices)."""
    def f(a):
        if a[0] == 'sym' and old in a[2]:
            return Poly.atom(('sym', a[1] + suffix, tuple(new if x == old else x for x in a[2])))
        return None
    return rebuild(p, f)


# ---------------------------------------------------------------- zero test

def clear_denominators(p, limit=12):
    """Multiply through by non-monomial denominators: zero-test modulo pow(Q,-1)*Q = 1."""
    for _ in range(limit):
        target = None
        for a in p.atoms():
            if a[0] == 'pow' and a[2] == -1:
                target = a
                break
        if target is None:
            return p
        Q = Poly.from_key(target[1])
        kmax = 0
        for m in p.t:
            for at, e in m:
                if at == target:
                    if e.denominator != 1 or e < 0:
                        return p
                    kmax = max(kmax, int(e))
        r = Poly()
        for m, c in p.t.items():
            j = 0
            rest = []
            for at, e in m:
                if at == target:
                    j = int(e)
                else:
                    rest.append((at, e))
            r = r + Poly({tuple(rest): c}) * Q.pow(kmax - j)
        p = r
    return p


def is_zero(p):
    if p.is_zero():
        return True, p
    q = clear_denominators(p)
    return q.is_zero(), q


def equal(a, b):
    return is_zero(_coerce(a) - _coerce(b))


def leaf_syms(p, _seen=None):
    """Names of all 'sym' atoms and fn names anywhere in ``p``."""
    syms, fns = set(), set()

    def walk(q):
        for a in q.atoms():
            k = a[0]
            if k == 'sym':
                syms.add(a[1])
            elif k == 'sum':
                walk(Poly.from_key(a[2]))
            elif k == 'pow':
                walk(Poly.from_key(a[1]))
            elif k == 'ind':
                walk(Poly.from_key(a[2]))
            elif k == 'fn':
                fns.add(a[1])
                for x in a[2:]:
                    if x[0] == 'P':
                        walk(Poly.from_key(x[1]))
                    elif x[0] == 'B':
                        walk(Poly.from_key(x[2]))
    walk(p)
    return syms, fns


def constants_in(p):
    """all rational coefficients appearing anywhere in ``p`` (nested arguments included)"""
    out, seen = set(), set()

    def walk(q):
        k_ = q.key()
        if k_ in seen:
            return
        seen.add(k_)
        for m, c in q.t.items():
            out.add(c)
        for a in q.atoms():
            k = a[0]
            if k == 'sum':
                walk(Poly.from_key(a[2]))
            elif k == 'pow':
                walk(Poly.from_key(a[1]))
            elif k == 'ind':
                walk(Poly.from_key(a[2]))
            elif k == 'fn':
                for x in a[2:]:
                    if x[0] == 'P':
                        walk(Poly.from_key(x[1]))
                    elif x[0] == 'B':
                        walk(Poly.from_key(x[2]))
    walk(p)
    return out


def contains_atom(p, pred):
    found = []

    def walk(q):
        for a in q.atoms():
            if pred(a):
                found.append(a)
            k = a[0]
            if k == 'sum':
                walk(Poly.from_key(a[2]))
            elif k == 'pow':
                walk(Poly.from_key(a[1]))
            elif k == 'ind':
                walk(Poly.from_key(a[2]))
            elif k == 'fn':
                for x in a[2:]:
                    if x[0] == 'P':
                        walk(Poly.from_key(x[1]))
                    elif x[0] == 'B':
                        walk(Poly.from_key(x[2]))
    walk(p)
    return found


# ---------------------------------------------------------------- printing

def show(p, limit=2000):
    if not p.t:
        return '0'
    parts = []
    total = 0
    for m, c in sorted(p.t.items(), key=_k):
        f = '*'.join((show_atom(a, limit) + ('' if e == 1 else '^%s' % e)) for a, e in m)
        if not f:
            part = str(c)
        elif c == 1:
            part = f
        elif c == -1:
            part = '-' + f
        else:
            part = '%s*%s' % (c, f)
        parts.append(part)
        total += len(part) + 3
        if total > limit:
            break
    s = ' + '.join(parts).replace('+ -', '- ')
    return s if len(s) <= limit else s[:limit] + '...'


def show_atom(a, limit=2000):
    k = a[0]
    if k == 'sym':
        return a[1] + ('[%s]' % ','.join(str(x) for x in a[2]) if a[2] else '')
    if k == 'sum':
        return 'SUM_%s(%s)' % (a[1], show(Poly.from_key(a[2]), limit))
    if k == 'pow':
        return '(%s)^%s' % (show(Poly.from_key(a[1]), limit), a[2])
    if k == 'ind':
        return '[%s %s]' % (show(Poly.from_key(a[2]), limit), a[1])
    if k == 'fn':
        args = []
        for x in a[2:]:
            if x[0] == 'P':
                args.append(show(Poly.from_key(x[1]), limit))
            elif x[0] == 'B':
                args.append('%s->%s' % (x[1], show(Poly.from_key(x[2]), limit)))
            elif x[0] == 'L':
                args.append('[%s]' % x[1])
            else:
                args.append(str(x[1]))
        return '%s(%s)' % (a[1], ', '.join(args))
    return repr(a)


def all_labels(p):
    """Every axis label mentioned in ``p``, free or bound."""
    out = set()

    def walk(q):
        for a in q.atoms():
            k = a[0]
            if k == 'sym':
                out.update(x for x in a[2] if x)
            elif k == 'sum':
                out.add(a[1]); walk(Poly.from_key(a[2]))
            elif k == 'pow':
                walk(Poly.from_key(a[1]))
            elif k == 'ind':
                walk(Poly.from_key(a[2]))
            elif k == 'fn':
                for x in a[2:]:
                    if x[0] == 'P':
                        walk(Poly.from_key(x[1]))
                    elif x[0] == 'B':
                        out.add(x[1]); walk(Poly.from_key(x[2]))
                    elif x[0] == 'L':
                        out.add(x[1])
    walk(p)
    return out


def _map_label(l, m):
    """a label under a renaming of base labels: 'pos#2' -> m['pos#2'];  slices 'pos#2[::2]' and shifted copies keep their decoration"""
    if not isinstance(l, str):
        return l
    if l in m:
        return m[l]          # the label itself (decoration included) is renamed
    base = l.split('[')[0]
    core = base.rstrip("'~")
    if core in m:
        return m[core] + l[len(core):]
    return l


def rename_labels(p, m):
    """``p`` with axis labels renamed everywhere (free and bound occurrences, running-index symbols, decorated copies of a label)"""
    def atom(a):
        k = a[0]
        if k == 'sym':
            name = a[1]
            if name.startswith('idx:'):
                name = 'idx:' + _map_label(name[4:], m)
            return Poly.atom(('sym', name, tuple(_map_label(x, m) for x in a[2])))
        if k == 'sum':
            return sum_over(go(Poly.from_key(a[2])), _map_label(a[1], m))
        if k == 'pow':
            return go(Poly.from_key(a[1])).pow(a[2])
        if k == 'ind':
            return mk_ind(a[1], go(Poly.from_key(a[2])))
        if k == 'fn':
            args = []
            for x in a[2:]:
                if x[0] == 'P':
                    args.append(P(go(Poly.from_key(x[1]))))
                elif x[0] == 'B':
                    args.append(B(_map_label(x[1], m), go(Poly.from_key(x[2]))))
                elif x[0] == 'L':
                    args.append(L(_map_label(x[1], m)))
                else:
                    args.append(x)
            return mk_fn(a[1], *args)
        return Poly.atom(a)

    def go(q):
        out = Poly()
        for mono, c in q.t.items():
            term = Poly.const(c)
            for a, e in mono:
                term = term * atom(a).pow(e)
            out = out + term
        return out
    return go(p)


def poly_labels_deep(p, out=None):
    """every axis label occurring in ``p``, bound ones included"""
    out = set() if out is None else out
    for mono in p.t:
        for a, _ in mono:
            k = a[0]
            if k == 'sym':
                out.update(x for x in a[2] if x)
            elif k == 'sum':
                out.add(a[1]); poly_labels_deep(Poly.from_key(a[2]), out)
            elif k in ('pow', 'ind'):
                poly_labels_deep(Poly.from_key(a[1] if k == 'pow' else a[2]), out)
            elif k == 'fn':
                for x in a[2:]:
                    if x[0] == 'P':
                        poly_labels_deep(Poly.from_key(x[1]), out)
                    elif x[0] == 'B':
                        out.add(x[1]); poly_labels_deep(Poly.from_key(x[2]), out)
                    elif x[0] == 'L':
                        out.add(x[1])
    return out
