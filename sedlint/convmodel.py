"""Symbolic interpretation of the two broadband convolution drivers (_convolve_model_dir_1/_2)."""
import ast

from . import alg
from .alg import Poly, P, B, C, sym, mk_fn
from .interp import Interp, Hooks, Arr, Obj, Unk, GenList, Pinned, SymTable, symarr, scalar, num, unit_atom, ClassRef
from .astutil import up

M, A, N, F = 'm', 'a', 'n', 'f'


class ConvHooks(Hooks):
    def __init__(self, single_aperture=False):
        self.single = single_aperture
        self.calls = []          # (name, receiver, args, node)
        self.sed_read_kwargs = []

    def decide(self, interp, test, env, mod):
        """one aperture / several apertures, decided on the value of the test"""
        try:
            v = interp.expr(test, dict(env), mod)
        except Exception:
            return None
        if isinstance(v, Arr) and v.ndim == 0 and not v.poly.is_const():
            syms, fns = alg.leaf_syms(v.poly)
            if not syms and fns <= {'len'}:
                from .interp import decide_with, count_atom
                return decide_with(interp, test, env, mod, consts={count_atom(A): 1 if self.single else 10 ** 6})
        return None

    def try_handler(self, interp, st, env, mod):
        # "try: assert binned_nu is not None ... except: rebin" : the first iteration rebins
        if any('rebin' in up(x) for h in st.handlers for x in h.body):
            return 0
        return None

    def external(self, interp, name, args, kwargs, node, mod):
        last = name.split('.')[-1]
        if name == 'builtins.sorted':
            return GenList(M, 'SEDFILE')
        if last == 'ProgressBar' and len(args) == 1:
            return args[0]
        if last in ('exists',) and name.startswith('os.'):
            return True
        return NotImplemented

    def opaque(self, interp, fi, args, kwargs, node):
        q = fi.qual
        repo = interp.repo
        if fi.name in ('validate_array', 'validate_scalar'):
            return args[1] if len(args) > 1 else kwargs.get('value')
        if q.endswith('parfile:read'):
            return {'version': 1}
        if q.endswith(':read_table'):
            # the parameter file as it is stored; load_parameter_table itself is interpreted, so anything it does to the table (its row order is what the
            # convolved files follow) is seen
            return SymTable({'MODEL_NAME': symarr('pnames', (M,))}, M)
        if q.endswith(':SED.read'):
            self.sed_read_kwargs.append(dict(kwargs))
            hidden = (M,) if _inside_loop(interp, node) else ()      # one SED per iteration of the model loop
            return Obj(repo.cls('sed.sed', 'SED'), {
                'name': Arr((), sym('sname', *hidden)), 'distance': scalar(sym('sdist')),
                '_apertures': None if self.single is True else symarr('sap', (A,), unit=unit_atom('au')),
                '_wav': symarr('swav', (N,), unit=unit_atom('micron')), '_nu': symarr('snu', (N,), unit=unit_atom('Hz')),
                '_flux': symarr('sflux', ((None if self.single is True else A), N), extra=hidden, unit=unit_atom('mJy')),
                '_error': symarr('serr', ((None if self.single is True else A), N), extra=hidden, unit=unit_atom('mJy'))})
        if q.endswith(':SEDCube.read') or q.endswith(':BaseCube.read'):
            self.sed_read_kwargs.append(dict(kwargs))
            return Obj(repo.cls('sed.cube', 'SEDCube'), {
                '_names': symarr('cnames', (M,)), '_wav': symarr('cubewav', (N,), unit=unit_atom('micron')), '_nu': None,
                '_apertures': symarr('cap', (A,), unit=unit_atom('au')),
                '_val': symarr('cubeval', (M, A, N), unit=unit_atom('Ucube')), '_unc': symarr('cubeunc', (M, A, N), unit=unit_atom('Ucube')),   # the cube's flux unit is whatever the file declares
                '_distance': scalar(sym('cubedist')), '_valid': None})
        if q.endswith(':Filter.rebin'):
            me = args[0]
            hidden = (F,)
            self.calls.append(('rebin', me, args[1:], node, len(interp.assumed)))
            return Obj(repo.cls('filter.filter', 'Filter'), {'name': 'FNAME', '_wavelength': Arr((), sym('fcw', F), unit=unit_atom('micron')),
                                                             '_nu': args[1] if len(args) > 1 else None,
                                                             '_r': Arr((N,), sym('R', N, F), unit=num(1))})
        if q.endswith(':ConvolvedFluxes.sort_to_match') or q.endswith(':ConvolvedFluxes.write'):
            self.calls.append((fi.name, args[0], args[1:], node, len(interp.assumed)))       # last: how many guards had been passed when the call happened
            return None
        return NotImplemented


def _inside_loop(interp, node):
    """is the call node lexically inside a for loop of the function being interpreted?"""
    if node is None or not interp.stack:
        return False
    q = interp.stack[-1]
    for fi in interp.repo.all_functions():
        if fi.qual == q:
            for n in ast.walk(fi.node):
                if isinstance(n, ast.For) and n.lineno <= node.lineno <= (n.end_lineno or n.lineno) and any(m is node for m in ast.walk(n)):
                    return True
    return False


def filters_list(repo):
    f = Obj(repo.cls('filter.filter', 'Filter'), {'name': 'FNAME', '_wavelength': Arr((), sym('fcw', F), unit=unit_atom('micron')),
                                                    '_nu': symarr('fnu', ('k',), unit=unit_atom('Hz')), '_r': symarr('fresp', ('k',), extra=(F,), unit=num(1))})
    return GenList(F, f)


def run_driver(repo, version, single_aperture=False):
    fi = repo.func('convolve.convolve', '_convolve_model_dir_%d' % version)
    h = ConvHooks(single_aperture)
    I = Interp(repo, h)
    filters = filters_list(repo)
    kwargs = {'overwrite': False}
    if version == 2:
        kwargs['memmap'] = False
    fluxes_holder = {}
    # run and fish the ``fluxes`` list out of the function's environment through a tracing subclass
    class Tr(Interp):
        def call(self, f, args, kw=None, selfv=None, node=None):
            return Interp.call(self, f, args, kw, selfv, node)

        def block(self, body, env, mod):
            r = Interp.block(self, body, env, mod)
            if env.get('__func__') is fi:
                for k_, v_ in env.items():
                    if isinstance(v_, GenList) and isinstance(v_.elem, Obj) and v_.elem.cls is not None and v_.elem.cls.name == 'ConvolvedFluxes':
                        fluxes_holder['fluxes'] = v_
                        fluxes_holder['env'] = env
            return r
    I = Tr(repo, h)
    if single_aperture == 'one':
        I.axis_len[A] = 1          # a package tabulated at exactly one (real) aperture
    out = I.call(fi, ['DIR', filters], kwargs)
    if 'fluxes' not in fluxes_holder:
        # no list of results is kept: each filter's object is built and written inside the loop over the filters - the object handed to write() is the
        # element for the generic filter
        written = [c[1] for c in h.calls if c[0] == 'write' and isinstance(c[1], Obj) and c[1].cls is not None and c[1].cls.name == 'ConvolvedFluxes']
        sorted_ = [c[1] for c in h.calls if c[0] == 'sort_to_match']
        if written and all(w is written[0] for w in written) and any(o is written[0] for o in sorted_):
            # (its rows are still in the order the SEDs were read: sort_to_match, which the hooks summarise and C07 checks on its own, is what re-orders them)
            fluxes_holder['fluxes'] = GenList(F, written[0])
    return fi, I, h, fluxes_holder


def reference(version, single_aperture=False):
    R = sym('R', N, F)
    if version == 1:
        if single_aperture is True:
            fl, er = sym('sflux', N, M), sym('serr', N, M)
        else:
            fl, er = sym('sflux', A, N, M), sym('serr', A, N, M)
        names = sym('sname', M)
    else:
        fl, er = sym('cubeval', M, A, N), sym('cubeunc', M, A, N)
        names = sym('cnames', M)
    flux = alg.sum_over(fl * R, N)
    err = alg.sum_over((er * R).pow(2), N).pow(alg.Fraction(1, 2))
    return {'flux': flux, 'error': err, 'names': names, 'cw': sym('fcw', F)}
