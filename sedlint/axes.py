"""Axis labels read from the repo's own declarations: the shape=(self.n_models, self.n_ap, self.n_wav)
arguments of the validate_array calls in the property setters, and the n_* getters."""
import ast

from .astutil import walk_local, chain, kw, up, calls


def declared_axes(repo, ci):
    """{attr: tuple of axis names} for every attribute of class ``ci`` (following bases)."""
    counts = {}     # n_x -> coordinate attr   (n_wav -> wav)
    for c in repo.mro(ci):
        for name, g in c.getters.items():
            if name.startswith('n_'):
                for r in [n for n in walk_local(g.node) if isinstance(n, ast.Return) and n.value is not None]:
                    v = r.value
                    src = None
                    if isinstance(v, ast.Call) and chain(v.func) == 'len' and v.args and isinstance(v.args[0], ast.Attribute):
                        src = v.args[0].attr
                    elif isinstance(v, ast.Subscript) and isinstance(v.value, ast.Attribute) and v.value.attr == 'shape' and isinstance(v.value.value, ast.Attribute):
                        src = v.value.value.attr
                    if src:
                        counts.setdefault(name, src)
    axes = {}
    for c in repo.mro(ci):
        for name, s in c.setters.items():
            if name in axes:
                continue
            found = None
            for call in calls(s.node):
                if (chain(call.func) or '').endswith('validate_array'):
                    sh = kw(call, 'shape')
                    if sh is None:
                        continue
                    # shape=None if ... else (len(self.nu),)   |   shape=(self.n_models, self.n_ap)
                    cand = [sh]
                    if isinstance(sh, ast.IfExp):
                        cand = [sh.body, sh.orelse]
                    for t in cand:
                        if isinstance(t, ast.Tuple):
                            labs = []
                            for e in t.elts:
                                if isinstance(e, ast.Attribute) and e.attr.startswith('n_'):
                                    labs.append(e.attr)
                                elif isinstance(e, ast.Call) and chain(e.func) == 'len' and e.args and isinstance(e.args[0], ast.Attribute):
                                    other = e.args[0].attr
                                    lab = [k for k, v in counts.items() if v == other]
                                    labs.append(lab[0] if lab else 'len(%s)' % other)
                                else:
                                    labs.append(up(e))
                            if found is None or len(labs) > len(found):
                                found = tuple(labs)
            if found:
                axes[name] = found
    for n, a in counts.items():
        axes[a] = (n,)          # the coordinate attribute that defines the count carries that axis
    # coordinate attributes whose length is tied to another coordinate (nu <-> wav)
    return axes, counts


def reversal_position(sub):
    """For ``x[..., ::-1]`` style subscripts: (position of the reversed axis counted from the front or None,
    from the back or None, number of explicit indices)."""
    idx = sub.slice.elts if isinstance(sub.slice, ast.Tuple) else [sub.slice]
    pos = None
    for i, e in enumerate(idx):
        if isinstance(e, ast.Slice) and e.lower is None and e.upper is None and e.step is not None and up(e.step) == '-1':
            pos = i
    if pos is None:
        return None
    has_ellipsis = any(isinstance(e, ast.Constant) and e.value is Ellipsis for e in idx)
    if has_ellipsis:
        ell = [i for i, e in enumerate(idx) if isinstance(e, ast.Constant) and e.value is Ellipsis][0]
        if pos > ell:
            return ('back', len(idx) - 1 - pos)
        return ('front', pos)
    return ('front', pos)
