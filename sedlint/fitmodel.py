"""Symbolic model of the fitting core, shared by C01-C05 and C11.

Everything here is obtained by interpreting /repo's current source with E5;
the reference formulas are written from the property statements in the E4 term
language.  Kernels (linear_regression / optimal_scaling / chi_squared) are
verified on their own and appear as uninterpreted atoms when Models.fit is
compared with its reference (modularity keeps rational denominators out of
Iverson-bracket keys)."""
import ast

from . import alg
from .alg import Poly, P, B, C, sym, sum_over, lt, eq, mk_fn, mk_ind, Facts
from .interp import (Interp, Hooks, Arr, Obj, Unk, symarr, scalar, num, GenList, Pinned, LabelClash, unit_atom, init_obj)
from .astutil import up
from .loader import AnalysisError

W, M, D = 'w', 'm', 'd'
FLAGS = (0, 1, 2, 3, 4, 9)


def loc(fi, line=None):
    return '%s:%d %s' % (fi.module.path, line or fi.node.lineno, ((fi.cls.name + '.') if fi.cls else '') + fi.name)


def inf_to(p, c=10 ** 30):
    return p + mk_ind('isinf', p) * (Poly.const(c) - p)


# ------------------------------------------------------------------ kernels

def kernel_funcs(repo):
    return {n: repo.func('fitting_routines', n) for n in ('linear_regression', 'optimal_scaling', 'chi_squared')}


def run_kernel(repo, name, args):
    I = Interp(repo)
    out = I.call(repo.func('fitting_routines', name), args)
    if I.lost and not isinstance(out, Unk):
        out = Unk('a call made by %s for its effect was not modelled (%s): the value returned is not all it computes' % (name, str(I.lost[0])[:100]))
    return I, out


def kernel_atom_LR(data, wt, own, other):
    """Coefficient of pattern ``own`` in the weighted 2-parameter regression of data on (own, other)."""
    return mk_fn('LRc', B(W, data), B(W, wt), B(W, own), B(W, other))


def kernel_atom_OS(data, wt, pat):
    return mk_fn('OS', B(W, data), B(W, wt), B(W, pat))


def kernel_atom_CHI(valid, data, err, wt, model):
    return mk_fn('CHI', B(W, valid), B(W, data), B(W, err), B(W, wt), B(W, model))


def unfold_kernels(p):
    """the least-squares kernels written out as the weighted sums they stand for (their code is checked against these definitions by ALG-1 / ALG-3):
    OS(d; w, a) = S(w a d) / S(w a a);  LRc(d; w, a, b) = (S(w b b) S(w a d) - S(w a b) S(w b d)) / (S(w a a) S(w b b) - S(w a b)^2).
    Two fits that reach the same optimum by different routes (the scale of the 2-parameter solution, or the 1-parameter scale at the A_V of that
    solution) then have one normal form."""
    def f(a):
        if a[0] == 'fn' and a[1] in ('OS', 'LRc') and all(x[0] == 'B' for x in a[2:]) and len({x[1] for x in a[2:]}) == 1:
            lab = a[2][1]
            S = lambda q: alg.sum_over(q, lab)
            args = [Poly.from_key(x[2]) for x in a[2:]]
            if a[1] == 'OS' and len(args) == 3:
                d, w, pa = args
                return S(w * pa * d) * S(w * pa * pa).pow(-1)
            if a[1] == 'LRc' and len(args) == 4:
                d, w, pa, pb = args
                return (S(w * pb * pb) * S(w * pa * d) - S(w * pa * pb) * S(w * pb * d)) * (S(w * pa * pa) * S(w * pb * pb) - S(w * pa * pb).pow(2)).pow(-1)
        return None
    return alg.rebuild(p, f)


def congruent(p, names=('CHI',)):
    """one congruence step for uninterpreted functions: two applications whose arguments are pairwise equal (as decided by the zero test, which clears
    denominators) are the same value, even when the arguments are spelled differently"""
    atoms = [a for a in p.atoms() if a[0] == 'fn' and a[1] in names]
    rep = {}
    for i, a in enumerate(atoms):
        for b in atoms[:i]:
            if b in rep or a[1] != b[1] or len(a) != len(b):
                continue
            same = True
            for x, y in zip(a[2:], b[2:]):
                if x[0] != y[0] or (x[0] in ('B', 'L') and x[1] != y[1]):
                    same = False
                    break
                if x[0] in ('P', 'B'):
                    if not alg.is_zero(Poly.from_key(x[-1]) - Poly.from_key(y[-1]))[0]:
                        same = False
                        break
                elif x != y:
                    same = False
                    break
            if same:
                rep[a] = b
                break
    if not rep:
        return p
    return alg.rebuild(p, lambda a: Poly.atom(rep[a]) if a in rep else None)


class KernelCall:
    def __init__(self, name, args, node, where):
        self.name, self.args, self.node, self.where = name, args, node, where


class FitHooks(Hooks):
    """Configuration for interpreting Models.fit: kernels opaque, log_fluxes_mJy and
    get_log_fluxes symbolic, FitInfo.sort optionally opaque, remove_resolved off."""

    def __init__(self, ndim, opaque_kernels=True, stop_at_sort=True, valid=None, inline_source=False):
        self.ndim = ndim
        self.opaque_kernels = opaque_kernels
        self.stop_at_sort = stop_at_sort
        self.kcalls = []
        self.presort = None
        self.valid = valid
        self.inline_source = inline_source

    def decide(self, interp, test, env, mod):
        t = up(test)
        if 'self.extended' in t and 'ndarray' in t:
            return False
        return None

    def opaque(self, interp, fi, args, kwargs, node):
        q = fi.qual
        if q.endswith(':Models.log_fluxes_mJy'):
            dims = (M, W) if self.ndim == 2 else (M, D, W)
            return symarr('F', dims, unit=num(1))
        if q.endswith(':Source.get_log_fluxes') and not self.inline_source:
            return (symarr('wt', (W,), unit=num(1)), symarr('L', (W,), unit=num(1)), symarr('err', (W,), unit=num(1)))
        if q.endswith(':FitInfo.sort') and self.stop_at_sort:
            self.presort = dict(args[0].attrs)
            return None
        if self.opaque_kernels and fi.module.name.endswith('fitting_routines'):
            names = fi.params
            vals = dict(zip(names, args))
            vals.update(kwargs)
            for k in names:
                if k not in vals or not isinstance(vals[k], Arr):
                    return Unk('kernel %s called with unmodelled argument %s' % (fi.name, k), node)
            self.kcalls.append(KernelCall(fi.name, vals, node, getattr(node, 'lineno', 0)))
            mk = None
            for v in vals.values():
                if v.mask is not None:
                    mk = v.mask
            if fi.name == 'linear_regression':
                d = vals['data']
                outd = d.dims[:-1]
                a1 = kernel_atom_LR(d.poly, vals['weights'].poly, vals['pattern1'].poly, vals['pattern2'].poly)
                a2 = kernel_atom_LR(d.poly, vals['weights'].poly, vals['pattern2'].poly, vals['pattern1'].poly)
                return (Arr(outd, a1, mk, num(1)), Arr(outd, a2, mk, num(1)))
            if fi.name == 'optimal_scaling':
                d = vals['data']
                return Arr(d.dims[:-1], kernel_atom_OS(d.poly, vals['weights'].poly, vals['pattern1'].poly), mk, num(1))
            if fi.name == 'chi_squared':
                d = vals['data']
                return Arr(d.dims[:-1], kernel_atom_CHI(vals['valid'].poly, d.poly, vals['error'].poly, vals['weight'].poly, vals['model'].poly), mk, num(1))
        return NotImplemented


def interpret_models_fit(repo, ndim, opaque_kernels=True, stop_at_sort=True, valid=None, source_attrs=None, inline_source=False):
    """Interpret Models.fit on symbolic inputs.  Returns (interp, hooks, info Obj or Unk)."""
    fit = repo.func('models', 'Models.fit')
    hooks = FitHooks(ndim, opaque_kernels, stop_at_sort, valid, inline_source)
    I = Interp(repo, hooks)
    models = init_obj(repo, repo.cls('models', 'Models'), {
        'names': symarr('names', (M,)),
        'logd': symarr('logd', (D,), unit=num(1)),
        'extended': [],
    })
    src = Obj(repo.cls('source.source', 'Source'), dict(source_attrs or {}))
    src.attrs.setdefault('_valid', valid if valid is not None else symarr('valid', (W,), unit=num(1)))
    args = [src, symarr('A', (W,), unit=num(1)), symarr('S', (W,), unit=num(1)), scalar(sym('lo'), num(1)), scalar(sym('hi'), num(1))]
    info = I.call(fit, args, selfv=models)
    return I, hooks, info


def clamp_facts():
    return Facts().assume_le(sym('lo'), sym('hi'))


def clamp(a0):
    lo, hi = sym('lo'), sym('hi')
    return a0 + lt(a0, lo) * (lo - a0) + lt(hi, a0) * (hi - a0)


# ------------------------------------------------------------------ flag tables

def flag_rows(repo):
    """Per-flag (weight, log_flux, log_error) of Source.get_log_fluxes and n_data contribution,
    by finite-domain specialisation of the flag of a generic point."""
    glf = repo.func('source.source', 'Source.get_log_fluxes')
    nd = repo.func('source.source', 'Source.n_data')
    rows = {}
    for k in FLAGS:
        I = Interp(repo)
        src = Obj(repo.cls('source.source', 'Source'), {
            '_valid': None,
            '_flux': symarr('Fs', (W,), unit=num(1)),
            '_error': symarr('Es', (W,), unit=num(1))})
        # the flags are assigned through the real setter, so anything the class derives from them at that point exists
        I.call(repo.func('source.source', 'Source.valid@setter'), [Arr((W,), num(k), unit=num(1))], selfv=src)
        I.assumed[:] = []
        out = I.call(glf, [], selfv=src)
        I2 = Interp(repo)
        n = I2.call(nd, [], selfv=src)
        rows[k] = (out, n, I.findings + I2.findings)
    return glf, nd, rows


def reference_flag_row(k):
    """The data-format page, as terms: (weight, log_flux, log_error); None = unconstrained."""
    F, E = sym('Fs', W), sym('Es', W)
    ln10 = alg.ln(Poly.const(10))
    if k == 1:
        le = mk_fn('abs', P(E / F)) / ln10
        return (le.pow(-2), alg.log10(F) - Poly.const(Fraction_half()) * (E / F).pow(2) / ln10, le)
    if k in (2, 3):
        return (Poly(), alg.log10(F), E)
    if k == 4:
        return (E.pow(-2), F, E)
    if k == 0:
        return (Poly(), Poly(), Poly())
    if k == 9:
        return (Poly(), None, None)
    raise KeyError(k)


def Fraction_half():
    from fractions import Fraction
    return Fraction(1, 2)


# ------------------------------------------------------------------ comparison with a reference

# functions whose meaning the analyser knows (so a remainder built from them is a definite difference, not an unknown)
BASE_FNS = {'ln', 'abs', 'len', 'LRc', 'OS', 'CHI', 'at', 'argmin', 'argsort', 'arange', 'exp10', 'max', 'min',
            'rev', 'argmax', 'sort', 'slice', 'cumsum', 'invperm', 'spectral', 'int', 'floor', 'ceil', 'nanmax', 'nanmin', 'any', 'all', 'power', 'exp', 'first', 'last'}


def compare(ctx, rule, instance, where, code, ref_poly, ref_dims=None, facts=None, vocab=None, fns=None, findings=(), detail_ok=''):
    """Decide ``code == ref`` as an identity of normal forms.
    VIOLATION only when the non-zero remainder is built from the reference's own vocabulary."""
    for f in findings:
        if f.kind == 'dtype':
            inst = 'element type of the buffer written at line %d' % f.line
            if not any(o.rule == 'DTYPE' and o.instance == inst for o in ctx.obs):
                ctx.violation('DTYPE', inst, '%s:%d %s' % (f.module, f.line, where.split(' ', 1)[-1]), f.msg, 'dtype:' + f.msg[:80])
            return False
        if f.kind == 'zero-times-inf':
            inst = instance + ' (IEEE arithmetic)'
            if not any(o.rule == rule and o.instance == inst for o in ctx.obs):
                ctx.violation(rule, inst, '%s:%d %s' % (f.module, f.line, where.split(' ', 1)[-1]), f.msg, 'zero-times-inf:' + f.msg[:60])
            return False
        if f.kind == 'library-limit':
            inst = instance + ' (library limit)'
            if not any(o.rule == rule and o.instance == inst for o in ctx.obs):
                ctx.violation(rule, inst, '%s:%d %s' % (f.module, f.line, where.split(' ', 1)[-1]), f.msg, 'library-limit:' + f.msg[:60])
            return False
        if f.kind == 'label-clash':
            ctx.violation('AXIS', instance + ' (axis roles)', '%s:%d %s' % (f.module, f.line, where.split(' ', 1)[-1]),
                          'arrays indexed by different axes are combined: %s' % f.msg, 'label-clash:' + f.msg[:80])
            return False
    if isinstance(code, Unk) and code.definite:
        ctx.violation('AXIS', instance + ' (axis roles)', where, 'the value is built with inconsistent axis roles: %s' % code.why, 'axis:' + code.why[:80])
        return False
    if isinstance(code, Unk) or not isinstance(code, Arr):
        ctx.undecided(rule, instance, where, 'value not modelled: %r' % (code,))
        return False
    if ref_dims is not None and tuple(code.dims) != tuple(ref_dims):
        ctx.violation(rule, instance, where, 'result is indexed by axes %s, expected %s' % (code.dims, tuple(ref_dims)), 'axes')
        return False
    try:
        diff = code.poly - ref_poly
    except RecursionError:
        ctx.undecided(rule, instance, where, 'normal form too deep to compare')
        return False
    if code.mask is not None:
        ctx.undecided(rule, instance, where, 'value carries a pending mask')
        return False
    if facts is not None:
        diff = facts.simplify(diff)
    z, rem = alg.is_zero(diff)
    if z:
        ctx.ok(rule, instance, where, detail_ok or ('identity holds: %s' % alg.show(ref_poly, 160)),
               data={'reference': alg.show(ref_poly, 1000)})
        return True
    syms, fnames = alg.leaf_syms(rem)
    if fnames & {'OS', 'LRc'}:
        # two routes to the same least-squares optimum: compare with the kernels written out as the sums they stand for
        try:
            d2 = unfold_kernels(diff)
            if facts is not None:
                d2 = facts.simplify(d2)
            z2, rem2 = alg.is_zero(d2)
        except (RecursionError, ZeroDivisionError):
            z2, rem2 = False, rem
        if not z2:
            try:
                z2, rem2 = alg.is_zero(congruent(d2))
            except (RecursionError, ZeroDivisionError):
                pass
        if z2:
            ctx.ok(rule, instance, where, (detail_ok or ('identity holds: %s' % alg.show(ref_poly, 160))) + ' (least-squares kernels written out as weighted sums)',
                   data={'reference': alg.show(ref_poly, 1000)})
            return True
    if 'searchsorted' in fnames and 'lininterp' in fnames:
        # a hand-written linear interpolation against the library's: compare with the library's written out the same way
        try:
            d2 = alg.unfold_lininterp(diff)
            if facts is not None:
                d2 = facts.simplify(d2)
            z2, rem2 = alg.is_zero(d2)
        except RecursionError:
            z2, rem2 = False, rem
        if z2:
            ctx.ok(rule, instance, where, (detail_ok or ('identity holds: %s' % alg.show(ref_poly, 160))) + ' (linear interpolation written out through searchsorted)',
                   data={'reference': alg.show(ref_poly, 1000)})
            return True
        rem = rem2
        syms, fnames = alg.leaf_syms(rem)
    uninit = sorted(s_ for s_ in syms if s_.startswith('UNINIT#'))
    if uninit and not {s_ for s_ in syms if not s_.startswith('UNINIT#') and s_ not in (set(vocab or ()) | {'INF', 'PI'}) and not s_.startswith('unit:') and not s_.startswith('idx:')} \
            and not {f for f in fnames if f not in (BASE_FNS | set(fns or ()))}:
        ctx.violation(rule, instance, where, 'the value depends on memory that nothing has written (a buffer from np.empty / empty_like read before it is filled): computed %s ; expected %s'
                      % (alg.show(code.poly, 200), alg.show(ref_poly, 200)), 'uninitialised')
        return False
    allowed_s = set(vocab or ()) | {'INF', 'PI'}
    allowed_f = BASE_FNS | set(fns or ())
    # (norm_ord<k>: np.linalg.norm with an explicit order other than 2 - another norm, a known function)
    foreign = {s for s in syms if s not in allowed_s and not s.startswith('unit:') and not s.startswith('idx:')} | {f for f in fnames if f not in allowed_f and not f.startswith('norm_ord')}
    if foreign:
        ctx.undecided(rule, instance, where, 'normal forms differ but the remainder contains unrecognised atoms %s' % sorted(foreign))
    else:
        ctx.violation(rule, instance, where, 'computed %s ; expected %s ; remainder %s'
                      % (alg.show(code.poly, 220), alg.show(ref_poly, 220), alg.show(rem, 220)), 'formula')
    return False


def specialise_flag(p, k):
    return alg.subst_sym(p, {'valid': lambda labs: Poly.const(k)})


def guard_requires(I, candidates):
    """Is one of the interpreted function's raise-guards the precondition ``P`` for some P in ``candidates`` (polys)?  A guard `if c: raise` contributes
    the precondition not c, `if c: ... else: raise` the precondition c; conditions are compared as normal forms (so `not np.all(a == b)` and
    `np.any(a != b)` are the same guard), never as text.  Returns (found, [descriptions of the guards seen])."""
    seen = []
    for g in I.assumed:
        if g[4] != 'raise-guard' or len(g) < 6:
            continue
        tv = g[5]
        seen.append(g[2])
        if not isinstance(tv, Arr) or tv.ndim != 0 or tv.mask is not None:
            continue
        pre = tv.poly if g[3] else alg.b_not(tv.poly)
        for c in candidates:
            if alg.is_zero(pre - c)[0]:
                return True, seen
    return False, seen
