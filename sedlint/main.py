"""Command-line driver: ./check <Cnn> [--tier quick|thorough] [--replay <path>]"""
import importlib
import json
import os
import sys
import traceback

from .loader import Repo, AnalysisError
from . import report

PROPS = ['C%02d' % i for i in range(1, 21)]


import sys as _sys
_sys.setrecursionlimit(6000)


def run_property(pid, repo, tier='quick', seed=0, quiet=False):
    mod = importlib.import_module('sedlint.props.%s' % pid.lower())
    ctx = report.Ctx(pid, repo, tier=tier, seed=seed, quiet=quiet)
    ctx.explanation = getattr(mod, 'EXPLANATION', '')
    ctx.not_decided = list(getattr(mod, 'NOT_DECIDED', []))
    ctx.assumptions = list(getattr(mod, 'ASSUMPTIONS', []))
    ctx.trusted = list(getattr(mod, 'TRUSTED', []))
    ctx.mins = dict(getattr(mod, 'MIN', {}))
    try:
        repo.check_module_count()
        mod.run(ctx)
        from .names import names_rule
        names_rule(ctx)          # NAME-1: the functions the rules analysed read no name that nothing binds
    except AnalysisError as e:
        ctx.error(str(e))
    except RecursionError:
        ctx.error('internal recursion limit')
    except Exception as e:   # an internal failure is exit 2, never a violation
        tb = traceback.format_exc().strip().splitlines()
        ctx.error('internal error %s: %s @ %s' % (type(e).__name__, e, ' / '.join(x.strip() for x in tb[-6:-1])))
    return ctx, mod


def main(argv=None):
    argv = list(sys.argv[1:] if argv is None else argv)
    if not argv or argv[0] not in PROPS:
        print('usage: check <C01..C20> [--tier quick|thorough] [--replay path]')
        return 2
    pid = argv[0]
    tier = os.environ.get('VERIF_TIER', 'quick')
    replay = None
    i = 1
    while i < len(argv):
        if argv[i] == '--tier':
            tier = argv[i + 1]; i += 2
        elif argv[i] == '--replay':
            replay = argv[i + 1]; i += 2
        else:
            print('unknown argument %s' % argv[i]); return 2
    if tier not in ('quick', 'thorough'):
        tier = 'quick'
    try:
        seed = int(os.environ.get('VERIF_SEED', '0'))
    except ValueError:
        seed = 0
    try:
        try:
            repo = Repo()
        except AnalysisError as e:
            print('ANALYSIS-ERROR property=%s %s' % (pid, e))
            return 2
        ctx, mod = run_property(pid, repo, tier, seed)
        replay_key = None
        if replay:
            with open(replay) as fh:
                replay_key = json.load(fh)['key']
        if tier == 'thorough' and replay is None and hasattr(mod, 'thorough'):
            try:
                mod.thorough(ctx)
            except AnalysisError as e:
                ctx.error(str(e))
        return report.finish(ctx, replay_key=replay_key)
    except Exception as e:
        print('ANALYSIS-ERROR property=%s internal error: %s: %s' % (pid, type(e).__name__, e))
        traceback.print_exc()
        return 2


if __name__ == '__main__':
    sys.exit(main())
