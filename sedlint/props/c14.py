"""C14 The extinction law is normalised at V, unit-free and zero outside its table."""
import ast
from fractions import Fraction

from .. import alg, fitmodel as fm
from ..alg import Poly, P, B, C, sym, mk_fn
from ..interp import Interp, Hooks, Arr, Obj, Unk, symarr, scalar, num, unit_atom
from ..fitmodel import loc, compare
from ..rules import pickle_state_agreement, where
from ..astutil import up, walk_local, stores, chain, const, calls, kw
from ..loader import AnalysisError
from ..staterules import state_roundtrip

T, Q = 't', 'q'
EXPLANATION = (
    "(ALG-9) Extinction.get_av, value-numbered with quantities as physical values: result == -0.4 * interp(q; wav, chi; left=0, right=0) / "
    "interp(0.55 micron; wav, chi) with the same table (wav, chi) in numerator and denominator and left/right = 0 only on the numerator; it is of "
    "degree 0 in chi (np.interp is linear in its table values), hence invariant under scaling/units of the opacity; substituting q = 0.55 micron makes "
    "numerator and denominator the same term, hence exactly -0.4; bare numbers and non-length quantities are refused. "
    "(AGREE-1) pickle state, to_table/from_table column names and units, from_file dtype fields vs their uses and usecols=columns agree.")
NOT_DECIDED = ["np.interp arithmetic and its handling of Quantity arguments (library)"]
ASSUMPTIONS = ["np.interp is piecewise-linear interpolation, linear in fp, with left/right used only outside the table", "the table covers 0.55 micron (property precondition)"]
TRUSTED = ["python ast", "sedlint E4/E5"]
MIN = {'ALG-9': 6, 'AGREE-1': 5, 'EFF-4': 1}
TECHNIQUE = 'static analysis: AST value numbering of get_av to a normal form (uninterpreted linear interp atom), substitution identities; writer/reader key agreement'

VOCAB = {'xw', 'chi', 'qq', 'c'}
FNS = {'interp'}


def _strip_extras(p):
    def f(a):
        if a[0] == 'fn' and a[1] == 'interp':
            return Poly.atom(tuple(x for x in a if not (isinstance(x, tuple) and x and x[0] == 'C')))
        return None
    return alg.rebuild(p, f)


def run(ctx):
    check_get_av(ctx)
    check_state(ctx)


def check_get_av(ctx):
    repo = ctx.repo
    ci = repo.cls('extinction.extinction', 'Extinction')
    g = ctx.fn(repo.func('extinction.extinction', 'Extinction.get_av'))
    U = sym('unit:micron')
    init = repo.find_member(ci, '__init__')

    def mk():
        o = Obj(ci)
        if init is not None:
            Interp(repo).call(init[1], [], selfv=o)          # whatever else the constructor sets (caches, ...)
        o.attrs['_wav'] = symarr('xw', (T,), unit=sym('unit:Uw'))          # the table may be in any length unit (from_file(wav_unit=...)): symbolic
        o.attrs['_chi'] = symarr('chi', (T,), unit=sym('unit:cm').pow(2) / sym('unit:g'))
        return o
    I = Interp(repo)
    out = I.call(g, [symarr('qq', (Q,), unit=sym('unit:cm'))], selfv=mk())
    xw, chi, q = sym('xw', T), sym('chi', T), sym('qq', Q)
    num_ = mk_fn('interp', P(q), B(T, xw), B(T, chi), C('left=0'), C('right=0'))
    den = mk_fn('interp', P(Poly.const('0.55') * U), B(T, xw), B(T, chi))
    ref = Poly.const(Fraction(-2, 5)) * num_ / den
    # np.interp is compared in its expanded form (linear inside the table, the end values or left= / right= beyond it), so that holding zero outside through
    # left=0 / right=0 and through a mask applied afterwards are one normal form; np.interp takes an increasing table as its precondition
    ex = lambda p_: alg.expand_interp(p_, assume_sorted=True)
    ref_e = ex(ref)
    exd = lambda v_: v_.with_(poly=ex(v_.poly)) if isinstance(v_, Arr) else v_
    from ..roundtrip import TrialCtx
    t = TrialCtx(ctx)
    okk = compare(t, 'ALG-9', 'get_av formula', loc(g), exd(out), ref_e, (Q,), vocab=VOCAB, fns=FNS | {'lininterp', 'at'}, findings=I.findings,
                  detail_ok='-0.4 * interp(q; wav, chi; zero outside the table) / interp(0.55 micron; wav, chi)')
    if t.n_undecided and not t.n_violations and get_av_by_regions(ctx, g, mk, 'get_av formula', sym('unit:cm')):
        okk = not any(o.status == 'VIOLATION' and o.instance.startswith('get_av formula') for o in ctx.obs)
    else:
        t.commit()
    # a single wavelength (not an array) is a request too
    Is = Interp(repo)
    outs = Is.call(g, [scalar(sym('qs'), sym('unit:cm'))], selfv=mk())
    if isinstance(outs, Arr) and tuple(outs.dims) == (None,):
        outs = outs.with_(dims=())          # one value, in an array of one element (the normalisation is looked up as an array of one wavelength)
    refs = Poly.const(Fraction(-2, 5)) * mk_fn('interp', P(sym('qs')), B(T, xw), B(T, chi), C('left=0'), C('right=0')) / den
    t = TrialCtx(ctx)
    compare(t, 'ALG-9', 'get_av formula, one wavelength', loc(g), exd(outs), ex(refs), (), vocab=VOCAB | {'qs'}, fns=FNS | {'lininterp', 'at'}, findings=Is.findings,
            detail_ok='the same term for a single wavelength')
    if not (t.n_undecided and not t.n_violations and get_av_by_regions(ctx, g, mk, 'get_av formula, one wavelength', sym('unit:cm'), single=True)):
        t.commit()
    if okk:
        ctx.ok('ALG-9', 'invariant under scaling of chi', loc(g), 'get_av(c*chi) == get_av(chi): opacity units and normalisation cancel (follows from the formula: degree 0 in chi)')
        ctx.ok('ALG-9', 'exactly -0.4 at 0.55 micron', loc(g), 'numerator and denominator are the same interpolation term at 0.55 micron (follows from the formula)')
        ctx.ok('ALG-9', 'zero outside the table', loc(g), 'the opacity at the query is taken as zero below the first and above the last tabulated wavelength (follows from the formula)')
    # nothing else is refused: every raise guarded by a test on the table is tried on tables that cover 0.55 micron (it on the first node, between nodes,
    # on an interior node, on the last node); <= and < are kept apart for this
    from .. import knots
    Ig = Interp(repo)
    Ig.exact_le = True
    Ig.call(g, [symarr('qq', (Q,), unit=sym('unit:cm'))], selfv=mk())
    v055 = Poly.const(Fraction(11, 20)) * U
    inst_g = 'get_av accepts every table that covers 0.55 micron'
    seen_g = 0
    for gd in Ig.assumed:
        if gd[4] != 'raise-guard' or len(gd) < 6 or not isinstance(gd[5], Arr) or any(d_ is not None for d_ in gd[5].dims) or gd[5].mask is not None:
            continue
        if not ({'xw', 'chi'} & {str(x_).split('@')[0] for x_ in alg.leaf_syms(gd[5].poly)[0]}) or 'qq' in alg.leaf_syms(gd[5].poly)[0]:
            continue
        seen_g += 1
        pre = gd[5].poly if gd[3] else alg.b_not(gd[5].poly)
        verdicts = []
        for name_, kind_, k_ in knots.regions(3)[:-1]:
            Rg = knots.Region(None, xw, T, 3, requests=[(v055, kind_, k_)])
            try:
                r_ = Rg.simplify(pre)
                for _ in range(3):
                    r2_ = alg.rebuild(r_, lambda a_: Poly.from_key(a_[2][2]) if a_[0] == 'fn' and a_[1] in ('any', 'all') and len(a_) == 3 and a_[2][0] == 'B' and Poly.from_key(a_[2][2]).is_const() else None)
                    if r2_ == r_:
                        break
                    r_ = r2_
            except (RecursionError, ZeroDivisionError):
                r_ = None
            verdicts.append((name_, r_))
        txt = '%s (%s:%s)' % (gd[2] if not gd[3] else 'not (%s)' % gd[2], gd[0], gd[1])
        refused = [n_ for n_, r_ in verdicts if r_ is not None and r_ == Poly()]
        open_ = [n_ for n_, r_ in verdicts if r_ is None or not (r_ == Poly() or r_ == Poly.const(1))]
        if refused:
            ctx.violation('ALG-9', inst_g, loc(g), 'a table is refused when %s: with 0.55 micron %s the call raises although the table covers it' % (txt, refused[0]), 'table-refused')
        elif open_:
            ctx.undecided('ALG-9', inst_g, loc(g), 'a raise is guarded by %s, not decided with 0.55 micron %s' % (txt, open_[0]))
        else:
            ctx.ok('ALG-9', inst_g, loc(g), 'the raise guarded by %s refuses no table with 0.55 micron on a node or between nodes' % txt)
    if not seen_g:
        ctx.ok('ALG-9', inst_g, loc(g), 'no raise is guarded by a test on the table', nontrivial=False)
    # refusals
    for nm, arg in (('bare numbers', symarr('qq', (Q,), unit=num(1))), ('non-length quantity', symarr('qq', (Q,), unit=sym('unit:Hz')))):
        I2 = Interp(repo)
        o2 = I2.call(g, [arg], selfv=mk())
        ctx.expect(isinstance(o2, Unk) and 'raises' in o2.why, 'ALG-9', 'refuses %s' % nm, loc(g), 'raises', 'accepted: %r' % (o2,), 'refusal')
    # another length unit is accepted and gives the same physical formula
    I3 = Interp(repo)
    o3 = I3.call(g, [symarr('qq', (Q,), unit=sym('unit:m'))], selfv=mk())
    t = TrialCtx(ctx)
    compare(t, 'ALG-9', 'query in another length unit', loc(g), exd(o3), ref_e, (Q,), vocab=VOCAB, fns=FNS | {'lininterp', 'at'}, findings=I3.findings, detail_ok='same term for a query given in metres')
    if not (t.n_undecided and not t.n_violations and get_av_by_regions(ctx, g, mk, 'query in another length unit', sym('unit:m'))):
        t.commit()

    # ---- EFF-4: get_av depends on the current table only: anything it remembers on the object is invalidated by both setters
    from ..effects import Effects
    E = Effects(repo)
    summ = E.summary(g)
    remembered = set()
    todo, seen_q = [g], set()
    while todo:
        f_ = todo.pop()
        if f_.qual in seen_q:
            continue
        seen_q.add(f_.qual)
        sm = E.summary(f_)
        for node, cl, txt in sm.stores:
            if cl.startswith('param:' + f_.params[0]) and isinstance(node, ast.Assign):
                for t_ in node.targets:
                    if isinstance(t_, ast.Attribute) and isinstance(t_.value, ast.Name) and t_.value.id == f_.params[0]:
                        remembered.add(t_.attr)
        for callee, _ in sm.calls:
            if callee.cls is ci:
                todo.append(callee)
    if not remembered:
        ctx.ok('EFF-4', 'get_av keeps no state', loc(g), 'get_av and its helpers store nothing on the object: the result depends on the current wav/chi only')
    else:
        for attr in sorted(remembered):
            missing = []
            for sname in ('wav', 'chi'):
                st_ = repo.find_setter(ci, sname)
                resets = st_ is not None and any(isinstance(t_, ast.Attribute) and t_.attr == attr for t_, v_, n_ in stores(st_.node))
                if not resets:
                    missing.append(sname)
            ctx.expect(not missing, 'EFF-4', 'cached %s is invalidated when the table changes' % attr, loc(g), 'both setters reset self.%s' % attr,
                       'get_av remembers self.%s but the %s setter does not reset it: after the table is changed get_av keeps using the old normalisation' % (attr, '/'.join(missing)), 'stale-cache')



def get_av_by_regions(ctx, g, mk, inst, qunit, single=False):
    """get_av decided on a table of three increasing wavelengths: the request below / on / between / above the knots, 0.55 micron on or between them;
    in each combination the value is compared with -0.4 * L0(request) / L(0.55 micron), L the linear interpolant and L0 the same held at zero outside the
    table (knots.py).  True when every combination was decided (the verdict is then recorded)."""
    from .. import knots
    repo = ctx.repo
    n = 3
    xw, chi = sym('xw', T), sym('chi', T)
    v = Poly.const(Fraction(11, 20)) * sym('unit:micron')
    I = Interp(repo)
    I.axis_len[T] = n
    I.exact_le = True          # a request may be a tabulated wavelength: <= and < are kept apart
    q = sym('qs') if single else sym('qq', Q)
    out = I.call(g, [scalar(q, qunit) if single else symarr('qq', (Q,), unit=qunit)], selfv=mk())
    if not isinstance(out, Arr) or out.mask is not None or I.lost or I.findings or tuple(out.dims) not in (((), (None,)) if single else ((Q,),)):
        return False

    def L(kind, k, qq):
        return Poly() if kind in ('below', 'above') else knots.linear_ref(kind, k, qq, xw, chi, T, n)
    bad, ncomb = [], 0
    for nq, kq, jq in knots.regions(n, below=True):
        for nv, kv, jv in knots.regions(n)[:-1]:
            Rg = knots.Region(None, xw, T, n, qlabel=Q, requests=[(q, kq, jq), (v, kv, jv)])
            try:
                got = Rg.simplify(out.poly)
                oob = list(Rg.oob)
                if oob and Rg.pending:
                    return False
                qq = Rg.pts[jq] if kq == 'at' else q
                ref = Rg.simplify(Poly.const(Fraction(-2, 5)) * L(kq, jq, qq) * L(kv, jv, v).pow(-1))
            except (RecursionError, ZeroDivisionError):
                return False
            ncomb += 1
            if oob:
                bad.append('request %s, 0.55 micron %s: reads position %d of a table of %d wavelengths (IndexError)' % (nq, nv, oob[0], n))
                continue
            if knots.equal(got, ref):
                continue
            if not knots.closed_form(got):
                return False
            nan_ = 'NAN' in {str(a_[1]) for a_ in got.atoms() if a_[0] == 'sym'}
            bad.append('request %s, 0.55 micron %s: gives %s where the definition gives %s' % (nq, nv, 'not-a-number' if nan_ else alg.show(got, 100), alg.show(ref, 100)))
    ctx.expect(not bad, 'ALG-9', '%s, table of %d wavelengths, every position of the request and of 0.55 micron' % (inst, n), loc(g),
               '%d combinations: -0.4 * (linear interpolant, zero outside the table) / (linear interpolant at 0.55 micron)' % ncomb, '; '.join(bad[:2]), 'get_av-regions')
    return True


def check_state(ctx):
    repo = ctx.repo
    ci = repo.cls('extinction.extinction', 'Extinction')
    # ---- AGREE-1
    state_roundtrip(ctx, ci)
    from ..staterules import conversion_roundtrip, extinction_from_file
    from ..roundtrip import SuspectCtx
    d_tab = conversion_roundtrip(ctx, ci, 'to_table', 'from_table', 'AGREE-1', 'table column')
    d_file = extinction_from_file(ctx, 'AGREE-1')
    if d_tab and d_file:
        return
    ctx = SuspectCtx(ctx, 'the conversion was not decided by interpretation and the syntactic rule, which knows one spelling only, reports')
    tt = ctx.fn(repo.func('extinction.extinction', 'Extinction.to_table'))
    ft = ctx.fn(repo.func('extinction.extinction', 'Extinction.from_table'))
    wcols = {}
    for t, v, st in stores(tt.node):
        if isinstance(t, ast.Subscript) and isinstance(const(t.slice), str):
            wcols[const(t.slice)] = up(v)
    rcols = {}
    for t, v, st in stores(ft.node):
        if isinstance(t, ast.Attribute) and isinstance(t.value, ast.Name):
            keys = {const(s.slice) for s in walk_local(v) if isinstance(s, ast.Subscript) and isinstance(const(s.slice), str)}
            rcols[t.attr] = keys
    for attr in ('wav', 'chi'):
        w_ok = any(v == 'self.%s' % attr and k == attr for k, v in wcols.items())
        r_ok = rcols.get(attr) == {attr}
        ctx.expect(w_ok and r_ok, 'AGREE-1', 'table column %s' % attr, where(tt), 'to_table writes self.%s to column %r; from_table reads data and unit of %r into %s' % (attr, attr, attr, attr),
                   'to_table columns %s ; from_table reads %s' % (wcols, rcols), 'table-columns')
    ff = ctx.fn(repo.func('extinction.extinction', 'Extinction.from_file'))
    lt_calls = [c for c in calls(ff.node) if (chain(c.func) or '').endswith('loadtxt')]
    if len(lt_calls) != 1:
        raise AnalysisError('from_file: loadtxt call not found')
    lc = lt_calls[0]
    dt = kw(lc, 'dtype')
    fields = [const(e.elts[0]) for e in dt.elts] if isinstance(dt, ast.List) and all(isinstance(e, ast.Tuple) for e in dt.elts) else None
    uc = kw(lc, 'usecols')
    uses = {}
    for t, v, st in stores(ff.node):
        if isinstance(t, ast.Attribute) and isinstance(t.value, ast.Name) and t.value.id == 'self':
            keys = [const(s.slice) for s in walk_local(v) if isinstance(s, ast.Subscript) and isinstance(const(s.slice), str)]
            units = [n.id for n in walk_local(v) if isinstance(n, ast.Name) and n.id.endswith('_unit')]
            uses[t.attr] = (keys, units)
    ok = fields == ['wav', 'chi'] and isinstance(uc, ast.Name) and uc.id == 'columns' and uses.get('wav') == (['wav'], ['wav_unit']) and uses.get('chi') == (['chi'], ['chi_unit'])
    ctx.expect(ok, 'AGREE-1', 'from_file fields', where(ff, lc), 'first selected column -> field wav -> self.wav * wav_unit; second -> chi -> self.chi * chi_unit; usecols=columns',
               'dtype fields %s, usecols %s, uses %s' % (fields, up(uc) if uc is not None else None, uses), 'from-file')


EX = 'sedfitter/extinction/extinction.py'
MUST_FIRE = [
    ('coverage guard with non-strict inequalities: a table whose first or last node is 0.55 micron is refused', [(EX, '        if isinstance(wav, u.Quantity) and wav.unit.is_equivalent(u.m):\n', '        if isinstance(wav, u.Quantity) and wav.unit.is_equivalent(u.m):\n            wav_v = ([0.55] * u.micron).to(self.wav.unit)\n            if wav_v <= self.wav[0] or wav_v >= self.wav[-1]:\n                raise ValueError("extinction law does not cover the V band (0.55 micron)")\n')]),
    ('law looked up with the package\'s own interpolator: a single wavelength outside the table gets not-a-number, not zero', [(EX, '            return (-0.4 * np.interp(wav.to(self.wav.unit), self.wav, self.chi, left=0., right=0.)\n                    / np.interp(([0.55] * u.micron).to(self.wav.unit), self.wav, self.chi))\n', '            from ..utils.interpolate import interp1d_fast\n            xp = self.wav.value\n            fp = self.chi.value\n            x = wav.to(self.wav.unit).value\n            x_v = ([0.55] * u.micron).to(self.wav.unit).value\n            chi = interp1d_fast(xp, fp, x, bounds_error=False, fill_value=0.)\n            chi_v = interp1d_fast(xp, fp, x_v)\n            return u.Quantity(-0.4 * chi / chi_v, u.dimensionless_unscaled)\n')]),
    ('extinction state as bare numbers, default units re-attached without conversion', [(EX, "            'wav': self.wav,\n            'chi': self.chi,\n", "            'wav': self.wav.value,\n            'chi': self.chi.value,\n"), (EX, "        self.wav = d['wav']\n        self.chi = d['chi']", "        self.wav = d['wav'] * u.micron\n        self.chi = d['chi'] * u.cm ** 2 / u.g")]),
    ('-0.4 -> 0.4', [(EX, "return (-0.4 * np.interp(", "return (0.4 * np.interp(")]),
    ('0.55 -> 0.5', [(EX, "[0.55] * u.micron", "[0.5] * u.micron")]),
    ('left/right dropped', [(EX, "self.wav, self.chi, left=0., right=0.)", "self.wav, self.chi)")]),
    ('denominator on other arrays', [(EX, "/ np.interp(([0.55] * u.micron).to(self.wav.unit), self.wav, self.chi))", "/ np.interp(([0.55] * u.micron).to(self.wav.unit), self.chi, self.wav))")]),
    ('query stripped of its unit', [(EX, "np.interp(wav.to(self.wav.unit), self.wav, self.chi, left=0., right=0.)", "np.interp(wav.value, self.wav, self.chi, left=0., right=0.)")]),
    ('from_table swaps columns', [(EX, "self.chi = table['chi'].data * table['chi'].unit", "self.chi = table['wav'].data * table['chi'].unit")]),
    ('__getstate__ loses chi', [(EX, "            'chi': self.chi,\n", "")]),
    ('not normalised', [(EX, "\n                    / np.interp(([0.55] * u.micron).to(self.wav.unit), self.wav, self.chi))", ")")]),
    ('bare numbers accepted', [(EX, "if isinstance(wav, u.Quantity) and wav.unit.is_equivalent(u.m):", "if True:")]),
    ('from_file units swapped', [(EX, "self.wav = f['wav'] * wav_unit\n        self.chi = f['chi'] * chi_unit", "self.wav = f['wav'] * chi_unit\n        self.chi = f['chi'] * wav_unit")]),
    ('from_file ignores columns', [(EX, "usecols=columns)", "usecols=(0, 1))")]),
    ('right=1', [(EX, "left=0., right=0.)", "left=0., right=1.)")]),
    ('normalised at 0.55 nm', [(EX, "[0.55] * u.micron", "[0.55] * u.nm")]),
    ('setstate cross-wired', [(EX, "        self.wav = d['wav']\n        self.chi = d['chi']", "        self.wav = d['chi']\n        self.chi = d['wav']")]),
]
MUST_SILENT = [
    ('coverage guard that refuses only tables that do not reach 0.55 micron', [(EX, '        if isinstance(wav, u.Quantity) and wav.unit.is_equivalent(u.m):\n', '        if isinstance(wav, u.Quantity) and wav.unit.is_equivalent(u.m):\n            wav_v = ([0.55] * u.micron).to(self.wav.unit)\n            if wav_v < self.wav[0] or wav_v > self.wav[-1]:\n                raise ValueError("extinction law does not cover the V band (0.55 micron)")\n')]),
    ('law looked up with the package\'s own interpolator, a single wavelength made an array of one first', [(EX, '            return (-0.4 * np.interp(wav.to(self.wav.unit), self.wav, self.chi, left=0., right=0.)\n                    / np.interp(([0.55] * u.micron).to(self.wav.unit), self.wav, self.chi))\n', '            from ..utils.interpolate import interp1d_fast\n            xp = self.wav.value\n            fp = self.chi.value\n            x = np.atleast_1d(wav.to(self.wav.unit).value)\n            x_v = ([0.55] * u.micron).to(self.wav.unit).value\n            chi = interp1d_fast(xp, fp, x, bounds_error=False, fill_value=0.)\n            chi_v = interp1d_fast(xp, fp, x_v)\n            return u.Quantity(-0.4 * chi / chi_v, u.dimensionless_unscaled)\n')]),
    ('extinction state as bare numbers in fixed units, converted when saved', [(EX, "            'wav': self.wav,\n            'chi': self.chi,\n", "            'wav': self.wav.to(u.micron).value,\n            'chi': self.chi.to(u.cm ** 2 / u.g).value,\n"), (EX, "        self.wav = d['wav']\n        self.chi = d['chi']", "        self.wav = d['wav'] * u.micron\n        self.chi = d['chi'] * u.cm ** 2 / u.g")]),
    ('constant folded', [(EX, "return (-0.4 * np.interp(", "return (-2. / 5. * np.interp(")]),
    ('temporaries', [(EX, "            return (-0.4 * np.interp(wav.to(self.wav.unit), self.wav, self.chi, left=0., right=0.)\n                    / np.interp(([0.55] * u.micron).to(self.wav.unit), self.wav, self.chi))",
                      "            chi_v = np.interp(([0.55] * u.micron).to(self.wav.unit), self.wav, self.chi)\n            chi_q = np.interp(wav.to(self.wav.unit), self.wav, self.chi, left=0., right=0.)\n            return -0.4 * chi_q / chi_v")]),
    ('.to() dropped (astropy converts inside np.interp)', [(EX, "np.interp(wav.to(self.wav.unit), self.wav, self.chi, left=0., right=0.)", "np.interp(wav, self.wav, self.chi, left=0., right=0.)")]),
]


def thorough(ctx):
    from .. import selftest
    selftest.run(ctx, MUST_FIRE, MUST_SILENT)
