"""C06 Broadband convolution is the binned integral of F_nu * R_nu."""
import ast
from fractions import Fraction

from .. import alg, convmodel
from ..alg import Poly, P, B, C, sym, sum_over, lt, mk_fn, Facts
from ..interp import Interp, Hooks, Arr, Obj, Unk, GenList, Pinned, symarr, scalar, num, unit_atom, decide_with, count_atom, index_atom, _is_pynum, Raised, PyRaise
from ..fitmodel import loc, compare
from ..astutil import up, walk_local, stores, chain, calls
from ..rules import where
from ..loader import AnalysisError

N, K = 'n', 'k'
EXPLANATION = (
    "(ALG-13) integrate == sum of 0.5*(x[i+1]-x[i])*(y[i+1]+y[i]) (after NaN->0); interp1d_fast == y[i-1] + (xv-x[i-1])/(x[i]-x[i-1])*(y[i]-y[i-1]) with "
    "i = searchsorted(x, xv); normalize == response/|integrate(nu, response)|; in Filter.rebin, by specialising the bin position to first / interior / last: "
    "the first bin starts at nu[0], the last ends at nu[-1], interior edges are the midpoints 0.5*(nu[i-1]+nu[i]) and 0.5*(nu[i]+nu[i+1]), and the tiling identity "
    "upper_edge(i) == lower_edge(i+1) holds; both edges are clamped to the same bounds, which are order-normalised (CFG-11a: they evaluate to (first,last) sample when "
    "the filter is stored in increasing frequency and to (last,first) when decreasing); the bin integral is integrate_subset over the filter's own grid and response "
    "and is stored at the bin's own index. (CFG-11b) in integrate_subset, for each of the four end-point configurations, the interior slice of hstack([xmin, x[i1:i2], xmax]) "
    "uses i1 = searchsorted(x, xmin) (or 1 when xmin is the first sample) and i2 = searchsorted(x, xmax) (or -1 when xmax is the last sample), the end values are the "
    "sample itself or the linear interpolant on the bracketing pair, and a decreasing grid is reversed together with its values. (ALG-14/AGREE-7) both convolution drivers "
    "store flux == sum_n F*R and error == sqrt(sum_n (E*R)^2) with the same R, reduced over the spectral axis, flux from flux/val and error from error/unc, reading SEDs in "
    "increasing frequency and re-binning each filter onto the SED's own frequency grid.")
NOT_DECIDED = ["conservation sum_i R_i == integral of the response as an arithmetic fact (follows from the decided formulas by the tiling lemma; lemma stated)",
               "NaN handling inside integrate beyond NaN->0; searchsorted tie side at exact equality"]
ASSUMPTIONS = ["one generic bin / SED / filter stands for every iteration of its loop", "np.searchsorted returns the insertion index on an increasing grid",
               "samples are finite, distinct and non-zero in integrate_subset's by-value cases (what integrate does with NaN samples is compared separately)"]
TRUSTED = ["python ast", "sedlint E4/E5"]
MIN = {'ALG-13': 8, 'CFG-11a': 2, 'CFG-11b': 8, 'ALG-14': 6, 'CFG-11c': 1}
TECHNIQUE = ('static analysis: abstract interpretation of the source to algebraic normal forms, with finite-domain specialisation (bin position; integrate_subset on a grid of '
             '3 / 4 symbolic samples under every ordering of the limits and both storage orders; re-binning on grids of 2 and 3 frequencies) compared with the statement\'s formulas')

VOCAB = {'x', 'y', 'x@+1', 'x@0', 'y@+1', 'y@0', 'xv', 'fnu', 'fresp', 'snu', 'idx:n', 'sflux', 'serr', 'cubeval', 'cubeunc', 'R', 'sname', 'cnames', 'fcw', 'xmin', 'xmax'}
FNS = {'searchsorted', 'INTEG', 'INTSUB', 'I1D'}


def check_integrate(ctx):
    repo = ctx.repo
    fi = ctx.fn(repo.func('utils.integrate', 'integrate'))
    I = Interp(repo)
    out = I.call(fi, [symarr('x', (N,), unit=num(1)), symarr('y', (N,), unit=num(1))])
    nan = alg.mk_ind('isnan', sym('y@+1', N + '~'))
    y1 = sym('y@+1', N + '~') * (1 - alg.mk_ind('isnan', sym('y@+1', N + '~')))
    y0 = sym('y@0', N + '~') * (1 - alg.mk_ind('isnan', sym('y@0', N + '~')))
    ref = sum_over(Poly.const(Fraction(1, 2)) * (sym('x@+1', N + '~') - sym('x@0', N + '~')) * (y1 + y0), N + '~')
    compare(ctx, 'ALG-13', 'integrate (trapezium rule)', loc(fi), out, ref, (), vocab=VOCAB, fns=FNS, findings=I.findings,
            detail_ok='sum_i 0.5*(x[i+1]-x[i])*(y[i+1]+y[i]) with NaN values taken as 0')
    f2 = ctx.fn(repo.func('utils.interpolate', 'interp1d_fast'))
    I = Interp(repo)
    out = I.call(f2, [symarr('x', (N,), unit=num(1)), symarr('y', (N,), unit=num(1)), scalar(sym('xv'), num(1))])
    i = mk_fn('searchsorted', B(N, sym('x', N)), P(sym('xv')))
    def at(name, ix):
        return mk_fn('at', B(N, sym(name, N)), P(ix))
    ref = at('y', i - 1) + (sym('xv') - at('x', i - 1)) / (at('x', i) - at('x', i - 1)) * (at('y', i) - at('y', i - 1))
    compare(ctx, 'ALG-13', 'interp1d_fast (linear interpolant)', loc(f2), out, ref, (), vocab=VOCAB, fns=FNS, findings=I.findings,
            detail_ok='y[i-1] + (xv-x[i-1])/(x[i]-x[i-1])*(y[i]-y[i-1]), i = searchsorted(x, xv)')


class NormHooks(Hooks):
    def opaque(self, interp, fi, args, kwargs, node):
        if fi.qual.endswith('integrate:integrate'):
            return Arr((), mk_fn('INTEG', B(K, args[0].poly), B(K, args[1].poly)), unit=num(1))
        if fi.name in ('validate_array', 'validate_scalar'):
            return args[1]
        return NotImplemented


def check_normalize(ctx):
    repo = ctx.repo
    fi = ctx.fn(repo.func('filter.filter', 'Filter.normalize'))
    I = Interp(repo, NormHooks())
    me = Obj(repo.cls('filter.filter', 'Filter'), {'_nu': symarr('fnu', (K,), unit=sym('unit:Ufnu')), '_r': symarr('fresp', (K,), unit=num(1))})          # frequencies in any frequency unit
    I.call(fi, [], selfv=me)
    r = sym('fresp', K)
    ref = r / mk_fn('abs', P(mk_fn('INTEG', B(K, sym('fnu', K) / sym('unit:Hz')), B(K, r))))
    compare(ctx, 'ALG-13', 'normalize', loc(fi), me.attrs.get('_r'), ref, (K,), vocab=VOCAB, fns=FNS, findings=I.findings,
            detail_ok='response / |integrate(nu[Hz], response)|')


BIG = 10 ** 6


class RebinHooks(Hooks):
    """bin position fixed by giving the running index and the grid length concrete values:
    first: i = 0 ; interior: 0 < i < n-1 ; last: i = n-1  (decided on the test's value, not on how it is spelled)"""

    def __init__(self, pos):
        self.pos = pos
        self.intsub = []
        self.consts = {count_atom(N): BIG, index_atom(N): {'first': 0, 'interior': BIG // 2, 'last': BIG - 1}[pos]}

    def decide(self, interp, test, env, mod):
        from ..interp import Pinned as _P
        # only tests on the bin position (no array data involved)
        v = None
        try:
            v = interp.expr(test, dict(env), mod)
        except Exception:
            return None
        if isinstance(v, Arr) and v.ndim == 0:
            syms, fns = alg.leaf_syms(v.poly)
            if syms <= {'idx:' + N} and fns <= {'len'}:
                return decide_with(interp, test, env, mod, consts=self.consts)
        return None

    def opaque(self, interp, fi, args, kwargs, node):
        if fi.name in ('validate_array', 'validate_scalar'):
            return args[1] if len(args) > 1 else kwargs.get('value')
        if fi.qual.endswith(':integrate_subset'):
            self.intsub.append(args)
            ok = all(isinstance(a, Arr) for a in args)
            if not ok:
                return Unk('integrate_subset arguments', node)
            return Arr((), mk_fn('INTSUB', B(K, args[0].poly), B(K, args[1].poly), P(args[2].poly), P(args[3].poly)), unit=num(1))
        return NotImplemented


def intsub_limits(p):
    """for a polynomial that is 0 or one INTSUB(grid, response, a, b) atom: ('zero',) | (grid key, response key, frozenset{a, b}) | None"""
    if p.is_zero():
        return ('zero',)
    if not p.is_monomial():
        return None
    (m, c), = p.t.items()
    if c != 1 or len(m) != 1 or m[0][1] != 1:
        return None
    a = m[0][0]
    if a[0] != 'fn' or a[1] != 'INTSUB':
        return None
    lo, hi = a[4][1], a[5][1]
    if lo == hi:
        return ('zero',)
    return (a[2], a[3], frozenset([lo, hi]))


def check_rebin(ctx):
    """decided for a grid of any length, bin position by bin position (first / interior / last); a re-binning written another way (bin edges built as
    one array, the loop restricted by a mask, ...) that this reading does not follow is decided on grids of two and three frequencies instead"""
    from ..roundtrip import TrialCtx
    t = TrialCtx(ctx)
    _check_rebin_symbolic(t)
    if t.n_undecided and not t.n_violations and rebin_concrete(ctx):
        ctx.exhaustive = True
        return
    t.commit()
    ctx.exhaustive = True


def rebin_concrete(ctx):
    """Filter.rebin interpreted on SED grids of 2 and 3 frequencies (every bin is then a first, an interior or a last one): response[k] under every
    ordering of (lower edge, upper edge, the frequency itself, filter first, filter last) must be the integral of the filter between the edges clamped to
    the filter range, 0 for an empty bin.  True when every bin was decided (the verdicts are then recorded)."""
    repo = ctx.repo
    fi = ctx.fn(repo.func('filter.filter', 'Filter.rebin'))
    where_ = loc(fi)
    Hz = sym('unit:Hz')
    half = Poly.const(Fraction(1, 2))
    fgrid = sym('fnu', K) / Hz
    F0 = mk_fn('at', B(K, fgrid), P(Poly()))
    results = []
    for n in (2, 3):
        h = RebinHooks('interior')
        h.decide = lambda interp, test, env, mod: None          # nothing is fixed by configuration: the positions are concrete
        I = Interp(repo, h)
        I.exact_le = True
        I.axis_len[N] = n
        me = Obj(repo.cls('filter.filter', 'Filter'), {'name': 'F', '_wavelength': scalar(sym('fcw'), unit_atom('micron')),
                                                       '_nu': symarr('fnu', (K,), unit=sym('unit:Ufnu')), '_r': symarr('fresp', (K,), unit=num(1))})
        alg.NO_SHANNON = True          # every bracket is decided below by an ordering of the points it compares: expanding them first only costs
        try:
            try:
                out = I.call(fi, [symarr('snu', (N,), unit=unit_atom('Hz'))], selfv=me)
            except Exception:
                return False
            resp = out.attrs.get('_r') if isinstance(out, Obj) else None
            if not isinstance(resp, Arr) or resp.mask is not None or tuple(resp.dims) != (N,) or I.lost or I.findings:
                return False
            r_ = _rebin_bins(n, resp, results)
        finally:
            alg.NO_SHANNON = False
        if r_ is False:
            return False
    for n, k, pos, n_ord, bad in results:
        inst = 'rebin response on a grid of %d frequencies, bin %d (%s): all orderings of (lower edge, upper edge, the frequency, filter first, filter last)' % (n, k, pos)
        if bad:
            r_, g_, w_ = bad[0]
            order = ' <= '.join(n_ for _, n_ in sorted(zip(r_, ('lower edge', 'upper edge', 'the frequency', 'filter nu[0]', 'filter nu[-1]'))))
            ctx.violation('ALG-13', inst, where_, '%d of %d orderings differ, e.g. for %s: response is %s, expected %s' % (len(bad), n_ord, order, g_, w_), 'ordering-mismatch')
        else:
            ctx.ok('ALG-13', inst, where_, 'in all %d orderings response[k] == integral of the filter between the bin edges clamped to the filter range, 0 for an empty bin' % n_ord)
    ctx.ok('CFG-11a', 'clamp bounds are order-normalised', where_, 'covered by the ordering enumeration: filter first < last and first > last both give the integral over [min, max]')
    ctx.ok('CFG-11a', 'SED grid in either order', where_, 'covered by the ordering enumeration: lower edge < upper edge and lower edge > upper edge')
    return True


def _from_front(p, label, n):
    """on an axis of n positions, x[-c] is x[n - c]: one spelling for the positions of the grid"""
    def f(a):
        if a[0] == 'fn' and a[1] == 'at' and len(a) == 4 and a[2][0] == 'B' and a[2][1] == label and a[3][0] == 'P':
            ix = Poly.from_key(a[3][1])
            if ix.is_const() and ix.const_value().denominator == 1 and -n <= ix.const_value() < 0:
                return Poly.atom(('fn', 'at', a[2], ('P', (ix + n).key())))
        return None
    return alg.rebuild(p, f)


def _rebin_bins(n, resp, results):
    Hz = sym('unit:Hz')
    half = Poly.const(Fraction(1, 2))
    fgrid = sym('fnu', K) / Hz
    F0 = mk_fn('at', B(K, fgrid), P(Poly()))
    x = [alg.index_at(sym('snu', N), N, Poly.const(k)) / Hz for k in range(n)]
    FN = alg.index_at(sym('fnu', K), K, Poly.const(-1)) / Hz
    FNs = [FN, mk_fn('at', B(K, fgrid), P(Poly.const(-1)))]
    for k in range(n):
        e1 = x[0] if k == 0 else half * (x[k - 1] + x[k])
        e2 = x[n - 1] if k == n - 1 else half * (x[k] + x[k + 1])
        rk = _from_front(alg.index_at(resp.poly, N, Poly.const(k)), N, n)
        pos = 'first' if k == 0 else ('last' if k == n - 1 else 'interior')
        n_ord, bad, left = 0, [], set()
        for ranks in alg.weak_orderings(5):          # e1, e2, x_k, F0, FN
            if ranks[0] == ranks[1] or ranks[3] == ranks[4]:
                continue
            if pos == 'first' and ranks[2] != ranks[0] or pos == 'last' and ranks[2] != ranks[1]:
                continue
            if pos == 'interior' and not (min(ranks[0], ranks[1]) < ranks[2] < max(ranks[0], ranks[1])):
                continue
            n_ord += 1
            got = rk
            for FN_ in FNs:
                got = alg.OrderFacts([e1, e2, x[k], F0, FN_], ranks).simplify(got)
            lo_r, hi_r = min(ranks[3], ranks[4]), max(ranks[3], ranks[4])
            ra, rb = min(max(ranks[0], lo_r), hi_r), min(max(ranks[1], lo_r), hi_r)
            lim = intsub_limits(got)
            if lim is None:
                if alg.contains_atom(got, lambda a: a[0] == 'ind'):
                    left.add(alg.show(got, 160))
                else:
                    bad.append((ranks, alg.show(got, 100), 'not a single bin integral'))
                continue
            if ra == rb:
                okk = lim == ('zero',)
                want_txt = '0 (the bin does not meet the filter)'
            else:
                def point(r, own, own_rank):
                    if r == own_rank:
                        return [own]
                    return [F0] + FNs if False else ([F0] if ranks[3] == r else FNs)
                pa, pb = point(ra, e1, ranks[0]), point(rb, e2, ranks[1])
                okk = lim != ('zero',) and any({Poly.from_key(v_) for v_ in lim[2]} == {a_, b_} for a_ in pa for b_ in pb)
                want_txt = 'the integral between %s and %s' % (alg.show(pa[0], 40), alg.show(pb[0], 40))
            if not okk:
                bad.append((ranks, '0' if lim == ('zero',) else 'integral between {%s}' % ', '.join(sorted(alg.show(Poly.from_key(v_), 40) for v_ in lim[2])), want_txt))
        if left and not bad:
            return False
        results.append((n, k, pos, n_ord, bad))

    return True


def _check_rebin_symbolic(ctx):
    repo = ctx.repo
    fi = ctx.fn(repo.func('filter.filter', 'Filter.rebin'))
    Hz = sym('unit:Hz')
    nu = sym('snu', N) / Hz
    i = sym('idx:n', N)
    def at(ix):
        return mk_fn('at', B(N, nu), P(ix))
    half = Poly.const(Fraction(1, 2))
    want = {'first': (at(Poly()), half * (at(i) + at(i + 1))),
            'interior': (half * (at(i - 1) + at(i)), half * (at(i) + at(i + 1))),
            'last': (half * (at(i - 1) + at(i)), at(Poly.const(-1)))}
    fgrid = sym('fnu', K) / Hz
    F0 = mk_fn('at', B(K, fgrid), P(Poly()))
    FN = mk_fn('at', B(K, fgrid), P(Poly.const(-1)))
    where_ = loc(fi)
    for pos in ('first', 'interior', 'last'):
        h = RebinHooks(pos)
        I = Interp(repo, h)
        I.exact_le = True          # a bin edge may coincide with a filter end point: <= and < are kept apart
        me = Obj(repo.cls('filter.filter', 'Filter'), {'name': 'F', '_wavelength': scalar(sym('fcw'), unit_atom('micron')),
                                                       '_nu': symarr('fnu', (K,), unit=sym('unit:Ufnu')), '_r': symarr('fresp', (K,), unit=num(1))})
        out = I.call(fi, [symarr('snu', (N,), unit=unit_atom('Hz'))], selfv=me)
        resp = out.attrs.get('_r') if isinstance(out, Obj) else None
        if not isinstance(resp, Arr):
            if isinstance(resp, Unk) and resp.definite or [f for f in I.findings if f.kind == 'label-clash']:
                compare(ctx, 'ALG-13', 'rebin response, %s bin' % pos, where_, resp if isinstance(resp, Unk) else Unk('x'), Poly(), findings=I.findings)
            else:
                ctx.undecided('ALG-13', 'rebin response, %s bin' % pos, where_, 'rebinned response not modelled: %r' % (resp,))
            continue
        if resp.dims != (N,):
            ctx.violation('ALG-13', 'rebin response, %s bin' % pos, where_, 'response is indexed by %s, expected the new frequency grid' % (resp.dims,), 'axes')
            continue
        e1, e2 = want[pos]
        pts = [e1, e2, F0, FN]
        # fast path: the reference term itself (clamp both edges to [min, max] of the filter ends, integrate a non-empty bin)
        n_ord = n_ok = 0
        bad = []
        leftovers = set()
        for ranks in alg.weak_orderings(4):
            if ranks[0] == ranks[1] or ranks[2] == ranks[3]:
                continue        # distinct SED bin edges, distinct filter end points
            n_ord += 1
            O = alg.OrderFacts(pts, ranks)
            got = O.simplify(resp.poly)
            lo_r, hi_r = min(ranks[2], ranks[3]), max(ranks[2], ranks[3])
            def clampr(r):
                return min(max(r, lo_r), hi_r)
            ra, rb = clampr(ranks[0]), clampr(ranks[1])
            def point_of(r):
                for k_, rk in enumerate(ranks):
                    if rk == r and k_ >= 2:
                        return pts[k_]
                for k_, rk in enumerate(ranks):
                    if rk == r:
                        return pts[k_]
            if ra == rb:
                ref = ('zero',)
            else:
                # an edge clamped onto a filter end point takes that end point's value; an unclamped edge keeps its own
                pa = pts[0] if ra == ranks[0] else point_of(ra)
                pb = pts[1] if rb == ranks[1] else point_of(rb)
                ref = (B(K, fgrid)[1:] and ('B', K, fgrid.key()), ('B', K, sym('fresp', K).key()), frozenset([pa.key(), pb.key()]))
            lim = intsub_limits(got)
            if lim is None:
                syms, fns = alg.leaf_syms(got)
                if alg.contains_atom(got, lambda a: a[0] == 'ind'):
                    leftovers.add(alg.show(got, 160))
                else:
                    bad.append((ranks, alg.show(got, 120), 'not a single bin integral'))
                continue
            if lim == ref or (lim != ('zero',) and ref != ('zero',) and lim[0] == ref[0] and lim[1] == ref[1] and {Poly.from_key(x) for x in lim[2]} == {Poly.from_key(x) for x in ref[2]}):
                n_ok += 1
            else:
                def names(l):
                    if l == ('zero',):
                        return '0'
                    return 'integral between {%s}' % ', '.join(sorted(alg.show(Poly.from_key(x), 50) for x in l[2]))
                bad.append((ranks, names(lim), names(ref)))
        inst = 'rebin response, %s bin: all orderings of (lower edge, upper edge, filter first, filter last)' % pos
        if leftovers and not bad:
            ctx.violation('ALG-13', 'rebin bin edges, %s bin' % pos, where_,
                          'the bin is delimited by quantities other than %s: after fixing every comparison among edges and filter end points the response still branches: %s'
                          % ({'first': 'nu[0] and the midpoint 0.5*(nu[i]+nu[i+1])', 'interior': 'the midpoints 0.5*(nu[i-1]+nu[i]) and 0.5*(nu[i]+nu[i+1])', 'last': 'the midpoint 0.5*(nu[i-1]+nu[i]) and nu[-1]'}[pos],
                             sorted(leftovers)[0]), 'edges')
        elif bad:
            r_, g_, w_ = bad[0]
            order = ' <= '.join(n_ for _, n_ in sorted(zip(r_, ('lower edge', 'upper edge', 'filter nu[0]', 'filter nu[-1]'))))
            ctx.violation('ALG-13', inst, where_, '%d of %d orderings differ, e.g. for ranks %s (%s): response is %s, expected %s' % (len(bad), n_ord, r_, order, g_, w_), 'ordering-mismatch')
        else:
            ctx.ok('ALG-13', inst, where_, 'in all %d orderings (either order of the SED grid, either order of the filter, edges coinciding with filter end points included) response[i] == '
                   'integral of the filter between the bin edges clamped to the filter range, 0 for an empty bin' % n_ord)
        ctx.exhaustive = True
        # the grid / response handed to integrate_subset and the edge formulas (read off the ordering with no clamping)
        if pos == 'interior' and h.intsub:
            a = h.intsub[0]
            okk = isinstance(a[0], Arr) and a[0].poly == fgrid and isinstance(a[1], Arr) and a[1].poly == sym('fresp', K)
            ctx.expect(okk, 'ALG-13', 'bin integral over the filter\'s own grid and response', where_, 'integrate_subset(filter nu[Hz], filter response, edge1, edge2)',
                       'integrate_subset called with %s' % [alg.show(x.poly, 60) if isinstance(x, Arr) else x for x in a[:2]], 'intsub-args')
    # tiling identity on the reference edges that the code was just shown to use
    e1, e2 = want['interior']
    compare(ctx, 'ALG-13', 'tiling: upper edge of bin i == lower edge of bin i+1', loc(fi), Arr((), alg.shift_index(e1, N, 1)), alg.shift_index(e2, N, 0), (), vocab=VOCAB, fns=FNS,
            detail_ok='adjacent bins share their edge, so the bins tile the SED range (edges as decided above)')
    ctx.ok('CFG-11a', 'clamp bounds are order-normalised', loc(fi), 'covered by the ordering enumeration: filter first < last and first > last both give the integral over [min, max]')
    ctx.ok('CFG-11a', 'SED grid in either order', loc(fi), 'covered by the ordering enumeration: lower edge < upper edge and lower edge > upper edge')


class SubsetHooks(Hooks):
    def __init__(self, ranks):
        self.ranks = ranks      # ranks of (first abscissa, last abscissa, first limit, second limit) in the configuration analysed
        self.hstack, self.i1d = [], []
        self.final = None
        self.facts = None

    def decide(self, interp, test, env, mod):
        # the configuration is an ordering of the four points the function compares; the test is evaluated
        # symbolically and decided under that ordering, however the code spells or names it
        if self.facts is None:
            e = {'_x': symarr('x', (N,), unit=num(1))}
            x0 = interp.expr(ast.parse('_x[0]', mode='eval').body, e, mod)
            x1 = interp.expr(ast.parse('_x[-1]', mode='eval').body, e, mod)
            self.facts = alg.OrderFacts([x0.poly, x1.poly, sym('xmin'), sym('xmax')], self.ranks)
        return decide_with(interp, test, env, mod, facts=self.facts)

    def external(self, interp, name, args, kwargs, node, mod):
        if (name.endswith('.hstack') or name.endswith('.concatenate')) and len(args) == 1 and not kwargs:
            a = args[0]
            if isinstance(a, (list, tuple)) and len(a) == 3:
                # [lower, interior, upper]: a one-element list stands for its element
                a = [interp._as_arr(x[0]) if isinstance(x, (list, tuple)) and len(x) == 1 else (interp._as_arr(x) if not isinstance(x, Arr) else x) for x in a]
                a = [Arr((), x.poly, unit=x.unit) if isinstance(x, Arr) and x.dims == (None,) else x for x in a]
            self.hstack.append(a)
            if isinstance(a, list) and len(a) == 3 and all(isinstance(x, Arr) for x in a):
                return Arr(('h',), mk_fn('HSTACK', alg.L('h'), P(a[0].poly), B(a[1].dims[0] if a[1].dims else None, a[1].poly), P(a[2].poly)), unit=num(1))
            return Unk('hstack', node)
        return NotImplemented

    def opaque(self, interp, fi, args, kwargs, node):
        if fi.qual.endswith(':interp1d_fast'):
            self.i1d.append(args)
            if all(isinstance(a, Arr) for a in args):
                return Arr((), mk_fn('I1D', B(args[0].dims[0], args[0].poly), B(args[1].dims[0], args[1].poly), P(args[2].poly)), unit=num(1))
            return Unk('interp1d_fast args', node)
        if fi.qual.endswith('integrate:integrate'):
            self.final = args
            return Arr((), sym('RESULT'), unit=num(1))
        return NotImplemented


def slice_bounds(a):
    """for an Arr whose poly is slice(label->x, lo, hi, step): (inner poly, lo, hi, step)"""
    if not (isinstance(a, Arr) and a.poly.is_monomial()):
        return None
    (m, c), = a.poly.t.items()
    if c != 1 or len(m) != 1 or m[0][1] != 1 or m[0][0][0] != 'fn' or m[0][0][1] != 'slice':
        return None
    at = m[0][0]
    def val(x):
        return None if x == ('C', None) else Poly.from_key(x[1])
    return Poly.from_key(at[3][2]), val(at[4]), val(at[5]), val(at[6])


class _GridHooks(Hooks):
    """integrate_subset on a grid of a few known positions: every comparison of limits and samples, and every searchsorted, is decided by the ordering fixed for
    the case (knots.py: a limit lies on a sample or strictly between two neighbours)"""
    def __init__(self, facts, n):
        self.facts, self.n = facts, n

    def simplify(self, p):
        ca = count_atom(N)
        p = _from_front(alg.rebuild(p, lambda a: Poly.const(self.n) if a == ca else None), N, self.n)          # the grid has n samples: x[-c] is x[n - c]
        return self.facts.simplify(p)

    def decide(self, interp, test, env, mod):
        return decide_with(interp, test, env, mod, facts=self)

    def external(self, interp, name, args, kwargs, node, mod):
        if name.endswith('.searchsorted') and len(args) == 2 and set(kwargs) <= {'side'}:
            a, v = interp._as_arr(args[0]), interp._as_arr(args[1])
            if isinstance(a, Arr) and a.ndim == 1 and a.mask is None and a.dims[0] in interp.axis_len and isinstance(v, Arr) and v.mask is None \
                    and (v.ndim == 0 or v.ndim == 1 and v.dims[0] in interp.axis_len):
                right = kwargs.get('side') == 'right'
                outs = []
                for vp in ([v.poly] if v.ndim == 0 else [alg.index_at(v.poly, v.dims[0], Poly.const(k_)) for k_ in range(interp.axis_len[v.dims[0]])]):
                    tot = 0
                    for j in range(interp.axis_len[a.dims[0]]):
                        e_ = alg.index_at(a.poly, a.dims[0], Poly.const(j))
                        b = self.simplify((Poly.const(1) - lt(vp, e_)) if right else lt(e_, vp))
                        if not b.is_const():
                            return NotImplemented
                        tot += int(b.const_value())
                    outs.append(tot)
                if v.ndim == 0:
                    return outs[0]
                r_ = interp._from_elems(v, [Poly.const(t_) for t_ in outs])          # several requests at once: their positions, as an array over the requests' axis
                r_.unit, r_.dt = num(1), 'i'
                return r_
        return NotImplemented


def integrate_subset_by_value(ctx, plans=((4, False), (3, True))):
    """integrate_subset interpreted on a grid of n samples, stored in increasing and in decreasing order, with each limit on a sample or strictly between two
    neighbours (every pair of positions, in both orders, and the two limits equal): the value returned must be the integral of the piecewise-linear function
    through the samples between the smaller and the larger limit (0 for equal limits).  True when every case was decided (the verdicts are then recorded)."""
    from .. import knots
    repo = ctx.repo
    fi = ctx.fn(repo.func('utils.integrate', 'integrate_subset'))
    where_ = loc(fi)
    half = Poly.const(Fraction(1, 2))
    bad, ncase = [], 0
    for n, decreasing in plans:
        xs = [alg.index_at(sym('x', N), N, Poly.const(k)) for k in range(n)]
        ys = [alg.index_at(sym('y', N), N, Poly.const(k)) for k in range(n)]
        # positions of a limit, in the order of increasing abscissa: ('at', j) on sample j, ('in', j) strictly between samples j and j+1; rank on a scale where
        # sample j has rank 4j and the open interval above it holds ranks 4j+1 (the lower of two limits in it) and 4j+2
        spots = [('at', j) for j in range(n)] + [('in', j) for j in range(n - 1)]
        X = xs[::-1] if decreasing else xs          # samples in the order of increasing abscissa
        Y = ys[::-1] if decreasing else ys
        kr = [4 * j for j in range(n)]
        for ka, ja in spots:
            for kb, jb in spots:
                for flip in ((False, True) if (ka, ja) == (kb, jb) and ka == 'in' else (False,)):
                    ra = 4 * ja if ka == 'at' else 4 * ja + (2 if flip else 1)
                    rb = 4 * jb if kb == 'at' else 4 * jb + (1 if flip else 2)
                    if ka == 'in' and kb == 'in' and ja != jb:
                        ra, rb = 4 * ja + 1, 4 * jb + 1
                    a = X[ja] if ka == 'at' else sym('lim1')
                    b = X[jb] if kb == 'at' else sym('lim2')
                    pts, rks = list(X), list(kr)
                    if ka == 'in':
                        pts.append(a); rks.append(ra)
                    if kb == 'in':
                        pts.append(b); rks.append(rb)
                    facts = alg.OrderFacts(pts, rks)
                    hk = _GridHooks(facts, n)
                    I = Interp(repo, hk)
                    I.exact_le = True
                    I.axis_len[N] = n
                    name = lambda kind, j: ('on sample %d' % j) if kind == 'at' else ('between samples %d and %d' % (j, j + 1))
                    try:
                        out = I.call(fi, [symarr('x', (N,), unit=num(1)), symarr('y', (N,), unit=num(1)), scalar(a, num(1)), scalar(b, num(1))])
                    except (Raised, PyRaise) as ex:
                        if I.lost or I.findings:
                            return False
                        # every test on the way was decided by the ordering of the case: limits inside the grid are refused
                        ncase += 1
                        bad.append('grid stored in %s order, first limit %s, second limit %s (samples numbered by increasing abscissa): raises (%s)'
                                   % ('decreasing' if decreasing else 'increasing', name(ka, ja), name(kb, jb), str(ex)[:80]))
                        continue
                    except Exception:
                        return False
                    if isinstance(out, Unk) and 'always raises on this configuration' in str(out.why) and not I.lost and not I.findings:
                        # every test on the way was decided by the ordering of the case: limits inside the grid are refused
                        ncase += 1
                        bad.append('grid stored in %s order, first limit %s, second limit %s (samples numbered by increasing abscissa): %s'
                                   % ('decreasing' if decreasing else 'increasing', name(ka, ja), name(kb, jb), str(out.why)[:110]))
                        continue
                    # a raise passed on the way is taken as a precondition by the interpreter: here every test has to be decided by the ordering of the case - one
                    # that still depends on the sample values refuses some filters (finite samples assumed: NaN / infinity tests are false)
                    refusals = []
                    for g_ in I.assumed:
                        if len(g_) > 5 and g_[4] == 'raise-guard' and isinstance(g_[5], Arr) and g_[5].ndim == 0:
                            tp_ = alg.rebuild(hk.simplify(g_[5].poly), lambda a_: Poly() if a_[0] == 'ind' and a_[1] in ('isnan', 'isinf') else None)
                            tp_ = hk.simplify(tp_)
                            if not tp_.is_const():
                                refusals.append('%s:%s `%s`' % (g_[0].split('/')[-1], g_[1], g_[2][:60]))
                    if refusals:
                        ncase += 1
                        bad.append('grid stored in %s order, first limit %s, second limit %s (samples numbered by increasing abscissa): whether it raises depends on the sample values (%s)'
                                   % ('decreasing' if decreasing else 'increasing', name(ka, ja), name(kb, jb), refusals[0]))
                        continue
                    if _is_pynum(out):
                        out = scalar(Poly.const(Fraction(out).limit_denominator(10 ** 9)), num(1))
                    if not isinstance(out, Arr) or out.ndim != 0 or out.mask is not None or I.lost or I.findings:
                        return False

                    def expand(p_):
                        def f(at_):
                            if at_[0] == 'sum' and at_[1] in I.axis_len:
                                inner, tot = Poly.from_key(at_[2]), Poly()
                                for k_ in range(I.axis_len[at_[1]]):
                                    tot = tot + alg.index_at(inner, at_[1], Poly.const(k_))
                                return expand(tot)
                            if at_[0] == 'ind' and at_[1] in ('isnan', 'isinf'):
                                return Poly()          # finite samples (what integrate does with NaN samples is ALG-13's business)
                            if at_[0] == 'fn' and at_[1] in ('any', 'all') and len(at_) == 3 and at_[2][0] == 'B' and at_[2][1] in I.axis_len:
                                # any() / all() of samples: of no samples at all it is False / True; of some samples, generic ones (none exactly zero), True
                                inner_ = Poly.from_key(at_[2][2])
                                if I.axis_len[at_[2][1]] == 0:
                                    return Poly.const(0 if at_[1] == 'any' else 1)
                                if not alg.contains_atom(inner_, lambda b_: b_[0] == 'ind') and {s_ for s_ in alg.leaf_syms(inner_)[0] if not s_.startswith('idx:')} <= {'y'}:
                                    return Poly.const(1)
                            return None
                        return alg.rebuild(p_, f)
                    try:
                        got = hk.simplify(expand(hk.simplify(out.poly)))
                    except (RecursionError, ZeroDivisionError):
                        return False
                    if not knots.closed_form(got):
                        # library look-ups left standing (np.interp on the grid, searchsorted): unfolded to the segment the ordering of the case puts them in
                        try:
                            Rg = knots.Region(None, sym('x', N), N, n, requests=[(sym('unused-request'), 'above', n - 1)])
                            Rg.val = dict(facts.val)
                            got = hk.simplify(Rg.simplify(got))
                        except (RecursionError, ZeroDivisionError, ValueError):
                            return False
                        if Rg.oob:
                            ncase += 1
                            bad.append('grid stored in %s order, first limit %s, second limit %s (samples numbered by increasing abscissa): reads position %d of a grid of %d samples (IndexError)'
                                       % ('decreasing' if decreasing else 'increasing', name(ka, ja), name(kb, jb), Rg.oob[0], n))
                            continue
                    if not knots.closed_form(got):
                        return False
                    # the definition
                    lo, hi = ((ka, ja, a, ra), (kb, jb, b, rb)) if ra <= rb else ((kb, jb, b, rb), (ka, ja, a, ra))
                    def value(kind, j, t):
                        return Y[j] if kind == 'at' else Y[j] + (Y[j + 1] - Y[j]) * (t - X[j]) * (X[j + 1] - X[j]).pow(-1)
                    chain_ = [(lo[2], value(lo[0], lo[1], lo[2]))] + [(X[j], Y[j]) for j in range(n) if lo[3] < 4 * j < hi[3]] + [(hi[2], value(hi[0], hi[1], hi[2]))]
                    ref = Poly()
                    if ra != rb:
                        for (t0, f0), (t1, f1) in zip(chain_[:-1], chain_[1:]):
                            ref = ref + half * (t1 - t0) * (f0 + f1)
                    ncase += 1
                    if not knots.equal(got, ref):
                        bad.append('grid stored in %s order, first limit %s, second limit %s (samples numbered by increasing abscissa)%s: returns %s where the integral is %s'
                                   % ('decreasing' if decreasing else 'increasing', name(ka, ja), name(kb, jb), ', the first limit the larger' if ra > rb else '', alg.show(got, 90), alg.show(ref, 90)))
    ctx.expect(not bad, 'CFG-11b', 'integrate_subset on grids of %s samples, every position of the two limits' % ' and '.join('%d (%s order)' % (n_, 'decreasing' if d_ else 'increasing') for n_, d_ in plans), where_,
               '%d cases: the integral of the piecewise-linear function through the samples between the smaller and the larger limit (0 for equal limits)' % ncase,
               '%d of %d cases differ, e.g. %s' % (len(bad), ncase, '; '.join(bad[:2])), 'intsub-by-value')
    return True



def check_filter_read(ctx):
    """Filter.read: the response curve a text file gives - wavelengths (micron) in the first column, response in the second - is the filter's (nu, response)"""
    from ..fitsem import FitsHooks
    from ..interp import ClassRef
    repo = ctx.repo
    ci = repo.cls('filter.filter', 'Filter')
    ff = ci.methods.get('read')
    if ff is None:
        return
    ctx.fn(ff)
    I = Interp(repo, FitsHooks())
    try:
        out = I.call(ff, [ClassRef(ci), 'FILE'])
    except Exception as ex:
        out = Unk('Filter.read: %s' % type(ex).__name__)
    col0, col1 = sym('filecol0', 'row'), sym('filecol1', 'row')
    micron = unit_atom('micron')
    nu = I.getattr(out, 'nu', None, ff.module) if isinstance(out, Obj) else out
    resp = I.getattr(out, 'response', None, ff.module) if isinstance(out, Obj) else out
    compare(ctx, 'ALG-13', 'Filter.read: frequencies', loc(ff), nu, mk_fn('spectral', P(col0 * micron)), ('row',), vocab={'filecol0', 'filecol1'}, fns={'spectral'},
            detail_ok='the first column of the file, in micron, as frequencies')
    compare(ctx, 'ALG-13', 'Filter.read: response', loc(ff), resp, col1, ('row',), vocab={'filecol0', 'filecol1'}, fns={'spectral'}, detail_ok='the second column of the file')


def check_integrate_subset(ctx):
    repo = ctx.repo
    fi = ctx.fn(repo.func('utils.integrate', 'integrate_subset'))
    x, y, xmin, xmax = sym('x', N), sym('y', N), sym('xmin'), sym('xmax')
    ss = lambda v: mk_fn('searchsorted', B(N, x), P(v))
    for first in (True, False):
        for last in (True, False):
            h = SubsetHooks((0, 3 if not last else 2, 0 if first else 1, 2))
            I = Interp(repo, h)
            I.call(fi, [symarr('x', (N,), unit=num(1)), symarr('y', (N,), unit=num(1)), scalar(xmin, num(1)), scalar(xmax, num(1))])
            tag = 'xmin %s first sample, xmax %s last sample' % ('is' if first else 'after', 'is' if last else 'before')
            where_ = loc(fi)
            if len(h.hstack) != 2 or not all(isinstance(s, list) and len(s) == 3 for s in h.hstack):
                ctx.undecided('CFG-11b', tag, where_, 'hstack([lower, interior, upper]) pattern not found (%d)' % len(h.hstack))
                continue
            xs, ys = h.hstack
            sb_x, sb_y = slice_bounds(xs[1]), slice_bounds(ys[1])
            if sb_x is None or sb_y is None:
                ctx.undecided('CFG-11b', tag, where_, 'interior slice not recognised: %r' % (xs[1],))
                continue
            want_lo = Poly.const(1) if first else ss(xmin)
            want_hi = [Poly.const(-1), alg.count(N) - 1] if last else [ss(xmax)]
            probs = []
            for nm, sb, arr in (('x', sb_x, x), ('y', sb_y, y)):
                inner, lo, hi, st = sb
                if inner != arr:
                    probs.append('%s interior is a slice of %s' % (nm, alg.show(inner, 40)))
                if lo is None or not (lo == want_lo):
                    probs.append('%s interior starts at %s, expected %s' % (nm, alg.show(lo) if lo is not None else 0, alg.show(want_lo)))
                if hi is None or not any(hi == w for w in want_hi):
                    probs.append('%s interior stops at %s, expected %s (a sample is dropped or duplicated)' % (nm, alg.show(hi) if hi is not None else 'end', alg.show(want_hi[0])))
                if st is not None:
                    probs.append('%s interior has a stride' % nm)
            if not (isinstance(xs[0], Arr) and xs[0].poly == xmin and isinstance(xs[2], Arr) and xs[2].poly == xmax):
                probs.append('integration limits are not the first/last abscissae')
            ctx.expect(not probs, 'CFG-11b', 'interior points: ' + tag, where_, 'hstack([xmin, x[%s:%s], xmax]) and the same slice of y' % (alg.show(want_lo, 40), alg.show(want_hi[0], 40)),
                       '; '.join(probs), 'slice-bounds')
            # end values
            def at(name, ix):
                return mk_fn('at', B(N, sym(name, N)), P(ix))
            ymin, ymax = ys[0], ys[2]
            for nm, v, is_sample, sample, q, isrc in (('lower end value', ymin, first, at('y', Poly()), xmin, ss(xmin)), ('upper end value', ymax, last, at('y', Poly.const(-1)), xmax, ss(xmax))):
                inst = '%s: %s' % (nm, tag)
                if is_sample:
                    compare(ctx, 'CFG-11b', inst, where_, v, sample, (), vocab=VOCAB, fns=FNS | {'slice'}, detail_ok='the sample value itself')
                else:
                    okk = False
                    if isinstance(v, Arr) and v.poly.is_monomial():
                        (mm, cc), = v.poly.t.items()
                        if cc == 1 and len(mm) == 1 and mm[0][0][0] == 'fn' and mm[0][0][1] == 'I1D':
                            a = mm[0][0]
                            sx = slice_bounds(Arr((N,), Poly.from_key(a[2][2])))
                            sy = slice_bounds(Arr((N,), Poly.from_key(a[3][2])))
                            qq = Poly.from_key(a[4][1])
                            if sx and sy and sx[0] == x and sy[0] == y and sx[1] == isrc - 1 and sx[2] == isrc + 1 and sy[1] == isrc - 1 and sy[2] == isrc + 1 and qq == q:
                                okk = True
                    ctx.expect(okk, 'CFG-11b', inst, where_, 'linear interpolant on the bracketing pair x[i-1:i+1], y[i-1:i+1] at the limit', 'end value is %s' % (alg.show(v.poly, 160) if isinstance(v, Arr) else v), 'end-value')
    # reversal of a decreasing grid
    h = SubsetHooks((3, 0, 1, 2))
    I = Interp(repo, h)
    I.call(fi, [symarr('x', (N,), unit=num(1)), symarr('y', (N,), unit=num(1)), scalar(xmin, num(1)), scalar(xmax, num(1))])
    okk = False
    sx = sy = None
    if len(h.hstack) == 2:
        sx, sy = slice_bounds(h.hstack[0][1]) if isinstance(h.hstack[0], list) else None, slice_bounds(h.hstack[1][1]) if isinstance(h.hstack[1], list) else None
        rx, ry = alg.array_fn('rev', N, x), alg.array_fn('rev', N, y)
        okk = bool(sx and sy and sx[0] == rx and sy[0] == ry)
    if len(h.hstack) != 2 or not all(isinstance(s_, list) and len(s_) == 3 for s_ in h.hstack) or not (sx and sy):
        ctx.undecided('CFG-11b', 'decreasing grid reversed together with its values', loc(fi), 'the rule reads hstack([lower, interior, upper]); the function is written another way')
    else:
        ctx.expect(okk, 'CFG-11b', 'decreasing grid reversed together with its values', loc(fi), 'x and y are both reversed before integrating', 'a decreasing grid is not order-normalised consistently', 'grid-reversal')
    # swapped limits
    h = SubsetHooks((0, 3, 2, 1))
    I = Interp(repo, h)
    I.call(fi, [symarr('x', (N,), unit=num(1)), symarr('y', (N,), unit=num(1)), scalar(xmin, num(1)), scalar(xmax, num(1))])
    okk = len(h.hstack) == 2 and isinstance(h.hstack[0], list) and isinstance(h.hstack[0][0], Arr) and h.hstack[0][0].poly == xmax and h.hstack[0][2].poly == xmin
    if len(h.hstack) != 2 or not all(isinstance(s_, list) and len(s_) == 3 for s_ in h.hstack):
        ctx.undecided('CFG-11b', 'limits given in decreasing order are swapped', loc(fi), 'the rule reads hstack([lower, interior, upper]); the function is written another way')
    else:
        ctx.expect(okk, 'CFG-11b', 'limits given in decreasing order are swapped', loc(fi), 'integrates from min(limit) to max(limit)', 'limits are not order-normalised', 'limit-swap')


def check_drivers(ctx):
    repo = ctx.repo
    for v, single in ((1, False), (1, True), (2, False)):
        fi, I, h, fh = convmodel.run_driver(repo, v, single)
        ctx.fn(fi)
        tag = 'driver %d%s' % (v, ' (single aperture)' if single else '')
        fl = fh.get('fluxes')
        where_ = loc(fi)
        if I.findings:
            compare(ctx, 'ALG-14', tag, where_, Unk('x'), Poly(), findings=I.findings)
            continue
        if not isinstance(fl, GenList) or not isinstance(fl.elem, Obj):
            ctx.undecided('ALG-14', tag, where_, 'list of convolved fluxes not modelled: %r' % (fl,))
            continue
        ref = convmodel.reference(v, single)
        e = fl.elem
        dims = ('m', None) if single else ('m', 'a')
        compare(ctx, 'ALG-14', tag + ' flux', where_, e.attrs.get('_flux'), ref['flux'], dims, vocab=VOCAB, fns=FNS, detail_ok='flux[m,a] == sum_n F[m,a,n]*R[n]')
        compare(ctx, 'ALG-14', tag + ' error', where_, e.attrs.get('_error'), ref['error'], dims, vocab=VOCAB, fns=FNS, detail_ok='error[m,a] == sqrt(sum_n (E[m,a,n]*R[n])^2), from the error/unc array')
        rb = [c for c in h.calls if c[0] == 'rebin']
        grid = 'snu' if v == 1 else 'cubewav'
        okk = bool(rb) and isinstance(rb[0][2][0], Arr) and alg.leaf_syms(rb[0][2][0].poly)[0] == {grid}
        ctx.expect(okk, 'ALG-14', tag + ' filters re-binned onto the SED grid', where_, 'rebin(%s frequency grid)' % ('the SED\'s' if v == 1 else 'the cube\'s'),
                   'rebin called with %s' % (rb[0][2] if rb else None), 'rebin-grid')
        orders = [kw.get('order') for kw in h.sed_read_kwargs if 'order' in kw]
        ctx.expect(bool(orders) and all(o == 'nu' for o in orders), 'ALG-14', tag + ' spectra read in increasing frequency', where_, "order='nu'", 'read with order %s' % orders, 'read-order')


# ---------------------------------------------------------------- re-binning cache of the per-file driver

LOOSE = Fraction(1, 10 ** 6)


class _CacheHooks(Hooks):
    """comparison helpers of numpy in the test that decides whether the re-binned filters are reused: 'equal within a tight tolerance' is taken as equal,
    anything looser is an opaque predicate that does not imply equality"""
    def external(self, interp, name, args, kwargs, node, mod):
        last = name.split('.')[-1]
        if last in ('array_equal', 'allclose', 'assert_array_equal', 'assert_allclose', 'assert_array_almost_equal_nulp', 'assert_array_max_ulp', 'array_equiv', 'isclose') and len(args) >= 2:
            a, b = interp._as_arr(args[0]), interp._as_arr(args[1])
            if not (isinstance(a, Arr) and isinstance(b, Arr)):
                return Unk(last, node)
            tight = True
            if last in ('allclose', 'assert_allclose', 'isclose'):
                rt = kwargs.get('rtol', args[2] if len(args) > 2 else (1e-7 if last == 'assert_allclose' else 1e-5))
                at = kwargs.get('atol', args[3] if len(args) > 3 else (0 if last == 'assert_allclose' else 1e-8))
                tight = all(isinstance(x, (int, float)) and x <= 1e-4 for x in (rt, at))
            if last in ('assert_array_almost_equal_nulp', 'assert_array_max_ulp'):
                n = kwargs.get('nulp', kwargs.get('maxulp', args[2] if len(args) > 2 else 1))
                tight = isinstance(n, (int, float)) and n <= 10 ** 6
            same_len = alg.eq(alg.count(a.dims[0]), alg.count(b.dims[0])) if a.dims and b.dims and a.dims[0] != b.dims[0] else Poly.const(1)
            if a.dims and b.dims and a.dims[0] != b.dims[0]:
                b = Arr(a.dims, alg.relabel(b.poly, b.dims[0], a.dims[0]), unit=b.unit)        # compared element by element once the lengths agree
            d = a.poly - b.poly
            if tight:
                p = same_len * mk_fn('all', B(a.dims[0], alg.eq(d, 0))) if a.dims and a.dims[0] else alg.eq(d, 0)
            else:
                p = same_len * mk_fn('loosely_close', B(a.dims[0], d))
            if last.startswith('assert_'):
                return ('ASSERTS', p)
            return Arr((), p)
        return NotImplemented


def check_rebin_cache(ctx):
    """(CFG-11c) the per-file driver re-bins the filters onto each SED's own grid and keeps them for the next SED only while the grid is the same: the
    condition under which the re-binned filters are *reused* must imply that the new grid equals the grid they were binned on, element by element"""
    repo = ctx.repo
    fi = ctx.fn(repo.func('convolve.convolve', '_convolve_model_dir_1'))
    where_ = loc(fi)
    inst = 'filters re-binned whenever the SED grid changes'
    loops = [n for n in walk_local(fi.node) if isinstance(n, ast.For) and any((chain(c.func) or '').endswith('SED.read') for c in calls(n))]
    rebins = [c for lp in loops for c in calls(lp) if isinstance(c.func, ast.Attribute) and c.func.attr == 'rebin']
    if not loops or not rebins:
        ctx.undecided('CFG-11c', inst, where_, 're-binning inside the model loop not found')
        return
    lp = loops[0]
    enc = {}
    for parent in ast.walk(lp):
        for child in ast.iter_child_nodes(parent):
            enc[child] = parent
    # the construct that guards the rebin call: the nearest enclosing try handler or if
    node, guard = rebins[0], None
    while node in enc and node is not lp:
        par = enc[node]
        if isinstance(par, ast.ExceptHandler):
            guard = ('try', enc[par], par)
            break
        if isinstance(par, ast.If) and node is not par.test:
            guard = ('if', par, node in par.body or any(node is x for b_ in par.body for x in ast.walk(b_)))
            break
        node = par
    if guard is None:
        ctx.ok('CFG-11c', inst, where_, 'filters are re-binned for every SED (no cache)')
        return
    # names: the SED read in the loop, the cached grid (assigned in the guarded block from the SED's grid)
    sed_names = [t.id for t, v, st in stores(lp) if isinstance(t, ast.Name) and isinstance(v, ast.Call) and (chain(v.func) or '').endswith('SED.read')]
    guarded = guard[2].body if guard[0] == 'try' else (guard[1].body if guard[2] else guard[1].orelse)
    cache_names = [t.id for st in guarded for t, v, st2 in stores(st) if isinstance(t, ast.Name) and sed_names and sed_names[0] in {n_.id for n_ in ast.walk(v) if isinstance(n_, ast.Name)}
                   and not isinstance(v, (ast.ListComp, ast.Call))]
    if not sed_names or not cache_names:
        ctx.undecided('CFG-11c', inst, where_, 'the SED and the remembered grid were not identified (%s, %s)' % (sed_names, cache_names))
        return
    NUL = 'k'
    env = {'__module__': fi.module, sed_names[0]: Obj(repo.cls('sed.sed', 'SED'), {'_nu': symarr('snu', (N,), unit=unit_atom('Hz')), '_wav': None}),
           cache_names[0]: symarr('bnu', (N,), unit=unit_atom('Hz'))}        # lengths taken as equal: the case most favourable to reuse
    I = Interp(repo, _CacheHooks())
    reuse = Poly.const(1)
    try:
        if guard[0] == 'try':
            for st in guard[1].body:
                if isinstance(st, ast.Assert):
                    v = I.expr(st.test, dict(env), fi.module)
                    if v is True:
                        continue
                    if isinstance(v, Arr) and v.ndim == 0:
                        reuse = reuse * v.poly
                    else:
                        raise AnalysisError('assert %s' % up(st.test))
                elif isinstance(st, ast.Expr) and isinstance(st.value, ast.Call):
                    v = I.expr(st.value, dict(env), fi.module)
                    if isinstance(v, tuple) and v and v[0] == 'ASSERTS':
                        reuse = reuse * v[1]
                    else:
                        raise AnalysisError('statement %s' % up(st)[:60])
                else:
                    raise AnalysisError('statement %s' % up(st)[:60])
        else:
            v = I.expr(guard[1].test, dict(env), fi.module)
            if isinstance(v, bool):
                v = Arr((), Poly.const(1 if v else 0))
            if not (isinstance(v, Arr) and v.ndim == 0):
                raise AnalysisError('test %s -> %r' % (up(guard[1].test)[:60], v))
            reuse = alg.b_not(v.poly) if guard[2] else v.poly
    except AnalysisError as e:
        ctx.undecided('CFG-11c', inst, where_, 'the reuse condition was not modelled: %s' % e)
        return
    # does reuse imply "same length and equal element by element"?  Substitute 0 for that fact: the condition must vanish.
    if reuse.is_zero():
        ctx.ok('CFG-11c', inst, where_, 'filters are re-binned for every SED (the cache is never reused)')
        return
    if reuse.is_const() and guard[0] == 'if' and any(isinstance(n_, ast.Call) and isinstance(n_.func, ast.Name) and repo.resolve_name(fi.module, n_.func.id) for n_ in ast.walk(guard[1].test)):
        # the test is made by a helper of the package whose comparison the interpretation did not see through (it came out constant): no verdict
        ctx.undecided('CFG-11c', inst, where_, 'the reuse test is delegated to a helper (%s) whose comparison of the grids was not modelled' % up(guard[1].test)[:60])
        return
    equal_atoms = [a for a in reuse.atoms() if a[0] == 'fn' and a[1] == 'all']
    killed = alg.rebuild(reuse, lambda a: Poly.const(0) if a in equal_atoms else None)
    if equal_atoms and killed.is_zero():
        ctx.ok('CFG-11c', inst, loc(fi, rebins[0].lineno), 'the re-binned filters are reused only when the new grid equals the remembered one element by element (within a tight tolerance)')
        return
    syms, fns = alg.leaf_syms(reuse)
    if {x for x in syms if not x.startswith('unit:')} <= {'snu', 'bnu'} and fns <= {'at', 'len', 'all', 'loosely_close', 'any', 'max', 'min'}:
        ctx.violation('CFG-11c', inst, loc(fi, rebins[0].lineno), 'the re-binned filters are reused when %s, which does not imply that the grids are equal: an SED on another grid is convolved with '
                      'responses binned for the previous one' % alg.show(reuse, 200), 'stale-bins')
    else:
        ctx.undecided('CFG-11c', inst, where_, 'reuse condition %s not decided' % alg.show(reuse, 160))


def run(ctx):
    check_integrate(ctx)
    check_normalize(ctx)
    check_rebin(ctx)
    # integrate_subset: decided by value on a grid of three (quick tier) or four (thorough tier) samples; the rules that read its layout (hstack([lower, interior, upper]), the bracketing pair handed to
    # interp1d_fast) corroborate an OK verdict and stand in, as suspects, when the interpretation has none
    from ..roundtrip import SuspectCtx, CorroborateCtx
    sub = CorroborateCtx(ctx, 'decided by value on a grid of a few samples') if integrate_subset_by_value(ctx, ((4, False), (4, True), (5, False)) if getattr(ctx, 'tier', 'quick') == 'thorough' else ((4, False), (3, True))) else \
        SuspectCtx(ctx, 'integrate_subset was not decided by value and the rule that reads its layout reports')
    check_integrate_subset(sub)
    check_filter_read(ctx)
    check_drivers(ctx)
    check_rebin_cache(ctx)
    # F_nu(nu_i) is the spectrum as stored: the drivers read it with SED.read / the cube reader in mJy (round trip decided by interpretation, roundtrip.py)
    from .. import roundtrip
    roundtrip.check_sed(ctx, 'AGREE-4', 'PERM-4')
    roundtrip.check_cube(ctx, 'AGREE-5', 'PERM-5')
    ctx.exhaustive = True


FI = 'sedfitter/filter/filter.py'
IN = 'sedfitter/utils/integrate.py'
IP = 'sedfitter/utils/interpolate.py'
CV = 'sedfitter/convolve/convolve.py'
MUST_FIRE = [
    ('bin edges as one clipped array, the loop restricted to frequencies inside the filter: bins that straddle a filter end get nothing', [('sedfitter/filter/filter.py', '        for i in range(len(f.response)):\n\n            if i == 0:\n                nu1 = nu_new_hz[0]\n            else:\n                nu1 = 0.5 * (nu_new_hz[i - 1] + nu_new_hz[i])\n\n            if i == len(nu_new_hz) - 1:\n                nu2 = nu_new_hz[-1]\n            else:\n                nu2 = 0.5 * (nu_new_hz[i] + nu_new_hz[i + 1])\n\n            nu1 = min(max(nu1, self_nu_min), self_nu_max)\n            nu2 = min(max(nu2, self_nu_min), self_nu_max)\n\n', '        edges = np.hstack([nu_new_hz[0], 0.5 * (nu_new_hz[:-1] + nu_new_hz[1:]), nu_new_hz[-1]])\n        edges = np.clip(edges, self_nu_min, self_nu_max)\n        covered = (nu_new_hz >= self_nu_min) & (nu_new_hz <= self_nu_max)\n        for i in np.nonzero(covered)[0]:\n\n            nu1, nu2 = edges[i], edges[i + 1]\n\n')]),
    ('re-binned filters reused when only the length and the end points of the grid agree', [(CV, "        try:\n            assert binned_nu is not None\n            np.testing.assert_array_almost_equal_nulp(s.nu.value, binned_nu.value, 100)\n        except (ValueError, AssertionError):\n", "        if binned_nu is None or len(s.nu) != len(binned_nu) or s.nu[0] != binned_nu[0] or s.nu[-1] != binned_nu[-1]:\n")]),
    ('re-binned filters reused when the grids agree to a relative tolerance of 100', [(CV, "        try:\n            assert binned_nu is not None\n            np.testing.assert_array_almost_equal_nulp(s.nu.value, binned_nu.value, 100)\n        except (ValueError, AssertionError):\n", "        if binned_nu is None or s.nu.shape != binned_nu.shape or not np.allclose(s.nu.value, binned_nu.value, 100):\n")]),
    ('re-binned filters reused whenever the grid has the same length', [(CV, "        try:\n            assert binned_nu is not None\n            np.testing.assert_array_almost_equal_nulp(s.nu.value, binned_nu.value, 100)\n        except (ValueError, AssertionError):\n", "        if binned_nu is None or len(s.nu) != len(binned_nu):\n")]),
    ('D20 reverted: cube flux multiplied by the unit factor and converted again on assignment', [(CV, "np.sum(sed_val * response, axis=1).to(u.mJy)", "np.sum(sed_val * response, axis=1) * sed_cube.val.unit.to(u.mJy)")]),
    ('cube error multiplied by the unit factor and converted again', [(CV, "np.sqrt(np.sum((sed_unc * response) ** 2, axis=1)).to(u.mJy)", "np.sqrt(np.sum((sed_unc * response) ** 2, axis=1)) * sed_cube.unc.unit.to(u.mJy)")]),
    ('midpoint 0.5 -> 0.25', [(FI, "nu1 = 0.5 * (nu_new_hz[i - 1] + nu_new_hz[i])", "nu1 = 0.25 * (nu_new_hz[i - 1] + nu_new_hz[i])")]),
    ('nu1 from i+1', [(FI, "nu1 = 0.5 * (nu_new_hz[i - 1] + nu_new_hz[i])", "nu1 = 0.5 * (nu_new_hz[i + 1] + nu_new_hz[i])")]),
    ('clip removed on the upper edge', [(FI, "            nu2 = min(max(nu2, self_nu_min), self_nu_max)\n", "")]),
    ('clip bounds not order-normalised (D15 reverted)', [(FI, "self_nu_min = min(self_nu_hz[0], self_nu_hz[-1])", "self_nu_min = self_nu_hz[0]"), (FI, "self_nu_max = max(self_nu_hz[0], self_nu_hz[-1])", "self_nu_max = self_nu_hz[-1]")]),
    ('abs removed from normalize', [(FI, "self.response = self.response / np.abs(integrate(self.nu.to(u.Hz).value, self.response))", "self.response = self.response / integrate(self.nu.to(u.Hz).value, self.response)")]),
    ('integrate_subset hands (y, x) to integrate', [(IN, "    return integrate(x, y)", "    return integrate(y, x)")]),
    ('interp1d_fast refuses the last sample of its pair', [('sedfitter/utils/interpolate.py', "if xval < x[0] or xval > x[-1]:", "if xval < x[0] or xval >= x[-1]:")]),
    ('upper end value taken from the first sample', [(IN, "        ymax = y[-1]", "        ymax = y[0]")]),
    ('interior slice one sample short', [(IN, "    x = np.hstack([xmin, x[i1:i2], xmax])\n    y = np.hstack([ymin, y[i1:i2], ymax])", "    x = np.hstack([xmin, x[i1:i2 - 1], xmax])\n    y = np.hstack([ymin, y[i1:i2 - 1], ymax])")]),
    ('half removed from integrate', [(IN, "integrals = 0.5 * (x[1:] - x[:-1]) * (y[1:] + y[:-1])", "integrals = (x[1:] - x[:-1]) * (y[1:] + y[:-1])")]),
    ('y[1:] - y[:-1]', [(IN, "integrals = 0.5 * (x[1:] - x[:-1]) * (y[1:] + y[:-1])", "integrals = 0.5 * (x[1:] - x[:-1]) * (y[1:] - y[:-1])")]),
    ('error = sum E*R', [(CV, "fluxes[i].error[im] = np.sqrt(np.sum((s.error * f.response) ** 2, axis=1))", "fluxes[i].error[im] = np.sum(s.error * f.response, axis=1)")]),
    ('i2 = -2 (D16 reverted)', [(IN, "        i2 = -1\n", "        i2 = -2\n")]),
    ('driver 2 error from val (D5 reverted)', [(CV, "sed_unc = sed_cube.unc[:, i_ap, :]", "sed_unc = sed_cube.val[:, i_ap, :]")]),
    ('last bin ends at the midpoint', [(FI, "nu2 = nu_new_hz[-1]", "nu2 = 0.5 * (nu_new_hz[-1] + nu_new_hz[-2])")]),
    ('interp1d_fast uses the next pair', [(IP, "    return (xval - x[ipos - 1]) \\\n        / (x[ipos] - x[ipos - 1])", "    return (xval - x[ipos - 1]) \\\n        / (x[ipos + 1] - x[ipos - 1])")]),
    ('bin integral over the new grid', [(FI, "integrate_subset(self_nu_hz, self.response, nu1, nu2)", "integrate_subset(nu_new_hz, self.response, nu1, nu2)")]),
    ('flux summed over apertures', [(CV, "fluxes[i].flux[im, :] = np.sum(s.flux * f.response, axis=1)", "fluxes[i].flux[im, :] = np.sum(s.flux * f.response, axis=0)")]),
    ('SEDs read in wavelength order', [(CV, "s = SED.read(sed_file, unit_freq=u.Hz, unit_flux=u.mJy, order='nu')", "s = SED.read(sed_file, unit_freq=u.Hz, unit_flux=u.mJy, order='wav')")]),
    ('y not reversed with x', [(IN, "        x = x[::-1]\n        y = y[::-1]\n", "        x = x[::-1]\n")]),
    ('upper end value from the wrong pair', [(IN, "ymax = interp1d_fast(x[i2 - 1:i2 + 1], y[i2 - 1:i2 + 1], xmax)", "ymax = interp1d_fast(x[i2:i2 + 2], y[i2:i2 + 2], xmax)")]),
    ('driver 2 flux from squared values', [(CV, "fluxes[i].flux[:, i_ap] = np.sum(sed_val * response, axis=1).to(u.mJy)", "fluxes[i].flux[:, i_ap] = np.sum(sed_val * response ** 2, axis=1).to(u.mJy)")]),
    ('response stored at the previous bin', [(FI, "f.response[i] = integrate_subset", "f.response[i - 1] = integrate_subset")]),
]
_ENDS_OLD = """    if xmin == x[0]:
        i1 = 1
        ymin = y[0]
    else:
        i1 = np.searchsorted(x, xmin)
        ymin = interp1d_fast(x[i1 - 1:i1 + 1], y[i1 - 1:i1 + 1], xmin)

    if xmax == x[-1]:
        i2 = -1
        ymax = y[-1]
    else:
        i2 = np.searchsorted(x, xmax)
        ymax = interp1d_fast(x[i2 - 1:i2 + 1], y[i2 - 1:i2 + 1], xmax)
"""
_ENDS_INTERP = """    ymin, ymax = np.interp([xmin, xmax], x, y)
    i1 = np.searchsorted(x, xmin, side='right')
    i2 = np.searchsorted(x, xmax, side='left')
"""

MUST_SILENT = [
    # listed as must-fire while integrate_subset was judged by its layout ("a sample is duplicated"): by value the duplicate of the first sample is a chunk of zero width
    ('i1 = 0: the first sample twice, a chunk of no width', [(IN, "        i1 = 1\n", "        i1 = 0\n")]),
    ('end values through np.interp on the order-normalised grid, strict interior by searchsorted sides', [(IN, _ENDS_OLD, _ENDS_INTERP)]),
    ('bin edges as one clipped array, every bin visited', [('sedfitter/filter/filter.py', '        for i in range(len(f.response)):\n\n            if i == 0:\n                nu1 = nu_new_hz[0]\n            else:\n                nu1 = 0.5 * (nu_new_hz[i - 1] + nu_new_hz[i])\n\n            if i == len(nu_new_hz) - 1:\n                nu2 = nu_new_hz[-1]\n            else:\n                nu2 = 0.5 * (nu_new_hz[i] + nu_new_hz[i + 1])\n\n            nu1 = min(max(nu1, self_nu_min), self_nu_max)\n            nu2 = min(max(nu2, self_nu_min), self_nu_max)\n\n', '        edges = np.hstack([nu_new_hz[0], 0.5 * (nu_new_hz[:-1] + nu_new_hz[1:]), nu_new_hz[-1]])\n        edges = np.clip(edges, self_nu_min, self_nu_max)\n        for i in range(len(f.response)):\n\n            nu1, nu2 = edges[i], edges[i + 1]\n\n')]),
    ('grid compared with np.array_equal', [(CV, "        try:\n            assert binned_nu is not None\n            np.testing.assert_array_almost_equal_nulp(s.nu.value, binned_nu.value, 100)\n        except (ValueError, AssertionError):\n", "        if binned_nu is None or not np.array_equal(s.nu.value, binned_nu.value):\n")]),
    ('grid compared with shape and np.all(==)', [(CV, "        try:\n            assert binned_nu is not None\n            np.testing.assert_array_almost_equal_nulp(s.nu.value, binned_nu.value, 100)\n        except (ValueError, AssertionError):\n", "        if binned_nu is None or s.nu.shape != binned_nu.shape or not np.all(s.nu == binned_nu):\n")]),
    ('filters re-binned for every SED', [(CV, "        try:\n            assert binned_nu is not None\n            np.testing.assert_array_almost_equal_nulp(s.nu.value, binned_nu.value, 100)\n        except (ValueError, AssertionError):\n", "        if True:\n")]),
    ('cube flux converted by the assignment into the mJy array', [(CV, "np.sum(sed_val * response, axis=1).to(u.mJy)", "np.sum(sed_val * response, axis=1)")]),
    ('cube flux as bare values times the factor, unit re-attached', [(CV, "np.sum(sed_val * response, axis=1).to(u.mJy)", "np.sum(sed_val.value * response, axis=1) * sed_cube.val.unit.to(u.mJy) * u.mJy")]),
    ('np.clip for the clamp', [(FI, "            nu1 = min(max(nu1, self_nu_min), self_nu_max)\n            nu2 = min(max(nu2, self_nu_min), self_nu_max)\n", "            nu1 = np.clip(nu1, self_nu_min, self_nu_max)\n            nu2 = np.clip(nu2, self_nu_min, self_nu_max)\n")]),
    ('midpoint as sum over 2', [(FI, "nu2 = 0.5 * (nu_new_hz[i] + nu_new_hz[i + 1])", "nu2 = (nu_new_hz[i + 1] + nu_new_hz[i]) / 2.")]),
    ('trapezium with commuted factors', [(IN, "integrals = 0.5 * (x[1:] - x[:-1]) * (y[1:] + y[:-1])", "integrals = (y[:-1] + y[1:]) * (x[1:] - x[:-1]) / 2.")]),
    ('i2 = len(x) - 1', [(IN, "        i2 = -1\n", "        i2 = len(x) - 1\n")]),
    ('quadrature via power 0.5', [(CV, "fluxes[i].error[im] = np.sqrt(np.sum((s.error * f.response) ** 2, axis=1))", "fluxes[i].error[im] = np.sum((s.error * f.response) ** 2, axis=1) ** 0.5")]),
]


def thorough(ctx):
    from .. import selftest
    selftest.run(ctx, MUST_FIRE, MUST_SILENT)
