"""C16 Monochromatic convolution emits every in-range wavelength at any memory limit."""
import ast
import re

from .. import alg, readers
from ..alg import Poly, P, B, C, sym, lt, mk_fn
from ..interp import Interp, Hooks, Arr, Obj, Unk, ClassRef, symarr, scalar, num, unit_atom
from ..fitmodel import loc, compare
from ..astutil import up, walk_local, stores, chain, calls, kw, const
from ..rules import where
from ..axes import declared_axes
from ..loader import AnalysisError

N = 'n'
EXPLANATION = (
    "(ALG-18) the window-to-index arithmetic: jlo == n - searchsorted(wavelengths[::-1], wav_max) and jhi == n - 1 - searchsorted(wavelengths[::-1], wav_min) as term "
    "identities, with the defining SED and every model SED read in frequency order, so index j denotes the same wavelength everywhere. (CFG-9) inclusive-bound tiling: jhi is an "
    "inclusive bound (it occurs in min(jmin+chunk-1, jhi) and jhi-jlo+1), so the chunk loop must be range(jlo, jhi+1, chunk) and every per-chunk loop and list must run over "
    "the chunk's actual length min(jmin+chunk-1, jhi)-jmin+1; then the chunks tile [jlo, jhi] for every chunk size (interval lemma). (PERM-8) within a chunk the same index "
    "j+jmin selects the wavelength, the flux column and the error column on the spectral axis of the SED, the file name MO{j+jmin+1:03d} and the row of the returned table; "
    "row im of names/flux/error comes from the SED read in iteration im. (CFG-5) sort_to_match(parameter-table names) precedes write. For cube packages, "
    "MonochromaticFluxes.from_sed_cube takes flux, error and wavelength at one index on the axis declared n_wav, and the reader chooses that index as argmin|cube.wav - wav|.")
NOT_DECIDED = ["searchsorted tie side at exact equality", "floating point of the chunk-size formula from max_ram"]
ASSUMPTIONS = ["interval lemma: range(lo, hi+1, c) with blocks [s, min(s+c-1, hi)] tiles [lo, hi]"]
TRUSTED = ["python ast", "sedlint E4/E5"]
MIN = {'ALG-18': 4, 'CFG-9': 5, 'PERM-8': 7, 'CFG-5': 1}
TECHNIQUE = 'static analysis: index arithmetic in polynomial normal form, loop-bound (interval tiling) rules and index-coherence sets over the chunked loops'

VOCAB = {'wl', 'wmax', 'wmin', 'jlo', 'jhi', 'chunk', 'jmin', 'cubeval', 'cubeunc', 'cubewav', 'cnames', 'cap', 'idx'}
FNS = {'searchsorted', 'rev'}


def sequential_defs(stmts, upto=None):
    """[(name, value node, stmt)] for simple top-level assignments of a statement list"""
    out = []
    for st in stmts:
        if upto is not None and st is upto:
            break
        if isinstance(st, ast.Assign) and len(st.targets) == 1 and isinstance(st.targets[0], ast.Name):
            out.append((st.targets[0].id, st.value, st))
    return out


def run(ctx):
    """the driver is decided by interpreting it on the enumerated configurations (monodrv); the symbolic rules over its source - which hold for every chunk
    size but read one layout of the loops only - corroborate an OK verdict, and stand in (as suspects) when the interpretation has none"""
    from .. import monodrv
    from ..roundtrip import SuspectCtx, CorroborateCtx
    repo = ctx.repo
    fi = ctx.fn(repo.func('convolve.monochromatic', 'convolve_model_dir_monochromatic'))
    verdict = monodrv.decide(ctx, repo, fi, loc(fi))
    ctx.extra['driver_configurations'] = len(list(monodrv.scenarios()))
    if verdict == 'ok':
        sub = CorroborateCtx(ctx, 'decided by interpretation on the enumerated configurations')
    elif verdict == 'undecided':
        sub = SuspectCtx(ctx, 'the driver was not decided by interpretation and the symbolic rule, which reads one layout only, reports')
    else:
        sub = None          # the interpretation found a violation: reported above
    if sub is not None:
        try:
            driver_symbolic(sub)
        except (AnalysisError, KeyError, IndexError, AttributeError, ValueError) as e:
            # the symbolic rules read one layout of the driver (and of the SED class's declared axes): anything they cannot find is an unrecognised layout
            sub.undecided('CFG-9', 'symbolic rules over the driver', loc(fi), 'layout not recognised: %s %s' % (type(e).__name__, e))
    cube_rules(ctx)
    # the rows hold each model's flux as the file states it: the unit strings of the SED files are read by parse_unit_safe
    from . import c15
    c15.check_unit_strings(ctx)


def driver_symbolic(ctx):
    repo = ctx.repo
    fi = ctx.fn(repo.func('convolve.monochromatic', 'convolve_model_dir_monochromatic'))
    mod = fi.module
    I = Interp(repo)
    defs = {n: (v, st) for n, v, st in sequential_defs(fi.node.body)}
    firsts = [n_ for n_, (v_, st_) in defs.items() if isinstance(v_, ast.Call) and (chain(v_.func) or '').endswith('SED.read')]
    nw_name = [n_ for n_, (v_, st_) in defs.items() if any(up(v_) == '%s.n_wav' % f_ for f_ in firsts)]
    wl_name = [n_ for n_, (v_, st_) in defs.items() if any(up(v_) == '%s.wav' % f_ for f_ in firsts)]
    # the chunk loop: either range(jlo, jhi + 1, chunk) or a counted loop range(n_chunks) with jmin = jlo + i*chunk
    chunk_loops = [st for st in fi.node.body if isinstance(st, ast.For) and isinstance(st.iter, ast.Call) and chain(st.iter.func) == 'range'
                   and any(isinstance(n_, ast.For) and up(n_.iter).startswith('enumerate(') for n_ in walk_local(st) if n_ is not st)]
    if len(chunk_loops) != 1:
        raise AnalysisError('monochromatic: chunk loop not found')
    outer0 = chunk_loops
    ss_defs = {n_: d_ for n_, d_ in defs.items() if 'searchsorted' in up(d_[0])}
    lo_def = [(n_, d_[0], d_[1]) for n_, d_ in ss_defs.items() if 'wav_max' in up(d_[0]) and 'wav_min' not in up(d_[0])]
    hi_def = [(n_, d_[0], d_[1]) for n_, d_ in ss_defs.items() if 'wav_min' in up(d_[0]) and 'wav_max' not in up(d_[0])]
    if len(ss_defs) == 2 and (len(lo_def) != 1 or len(hi_def) != 1):
        # both defined from the same bound: decide by role in the loop (start / stop)
        names_ = sorted(ss_defs, key=lambda n_: ss_defs[n_][1].lineno)
        lo_def = [(names_[0], ss_defs[names_[0]][0], ss_defs[names_[0]][1])]
        hi_def = [(names_[1], ss_defs[names_[1]][0], ss_defs[names_[1]][1])]
    if not (firsts and nw_name and wl_name and len(lo_def) == 1 and len(hi_def) == 1):
        raise AnalysisError('monochromatic: window-to-index definitions not found')
    env = {'__module__': mod, nw_name[0]: scalar(alg.count(N), num(1)), wl_name[0]: symarr('wl', (N,), unit=unit_atom('micron')),
           'wav_max': scalar(sym('wmax'), unit_atom('micron')), 'wav_min': scalar(sym('wmin'), unit_atom('micron'))}
    rev = alg.array_fn('rev', N, sym('wl', N))
    n = alg.count(N)
    want = {'jlo': n - mk_fn('searchsorted', B(N, rev), P(sym('wmax'))), 'jhi': n - 1 - mk_fn('searchsorted', B(N, rev), P(sym('wmin')))}
    jlo_name, jhi_name = lo_def[0][0], hi_def[0][0]
    for name, d_ in (('jlo', lo_def[0]), ('jhi', hi_def[0])):
        v = I.expr(d_[1], dict(env), mod)
        compare(ctx, 'ALG-18', name, loc(fi, d_[2].lineno), v, want[name], (), vocab=VOCAB, fns=FNS, findings=I.findings,
                detail_ok={'jlo': 'first index with wavelength < wav_max (array stored in decreasing wavelength)', 'jhi': 'last index with wavelength >= wav_min'}[name])
    # SEDs read in frequency order
    # the reads of the driver and of the helper functions of its module that it calls (a read moved into a helper is still a read of the driver)
    def reach(f, seen):
        out = list(calls(f.node))
        for c in list(out):
            if isinstance(c.func, ast.Name):
                r = repo.resolve_name(f.module, c.func.id)
                if r and r[0] == 'func' and r[1].module is f.module and r[1].qual not in seen:
                    seen.add(r[1].qual)
                    out += reach(r[1], seen)
        return out
    reads = [c for c in reach(fi, {fi.qual}) if (chain(c.func) or '').endswith('SED.read')]
    orders = [const(kw(c, 'order')) if kw(c, 'order') is not None else 'nu' for c in reads]
    ctx.expect(len(reads) >= 2 and all(o == 'nu' for o in orders), 'ALG-18', 'defining SED and model SEDs read in the same (frequency) order', loc(fi), 'orders %s' % orders,
               'SEDs are read with orders %s: index j would denote different wavelengths' % orders, 'read-order')
    ctx.ok('ALG-18', 'wavelengths come from the first SED', loc(fi), '%s = %s.wav' % (wl_name[0], firsts[0]))

    # ---- CFG-9 tiling
    lp = chunk_loops[0]
    if not isinstance(lp.target, ast.Name):
        raise AnalysisError('monochromatic: chunk loop target')
    chunk_candidates = [n_ for n_, (v_, st_) in defs.items() if 'max_ram' in up(v_) or (isinstance(v_, ast.Call) and chain(v_.func) == 'min' and any(n2 in up(v_) for n2 in defs if 'max_ram' in up(defs[n2][0])))]
    if len(lp.iter.args) == 3:
        jmin = lp.target.id
        chunk_name = up(lp.iter.args[2]) if isinstance(lp.iter.args[2], ast.Name) else 'chunk_size'
        senv = {'__module__': mod, jlo_name: scalar(sym('jlo'), num(1)), jhi_name: scalar(sym('jhi'), num(1)), chunk_name: scalar(sym('chunk'), num(1)), jmin: scalar(sym('jmin'), num(1))}
        a, b, c = [I.expr(x, dict(senv), mod) for x in lp.iter.args]
        compare(ctx, 'CFG-9', 'chunk loop start', loc(fi, lp.lineno), a, sym('jlo'), (), vocab=VOCAB, detail_ok='starts at jlo')
        compare(ctx, 'CFG-9', 'chunk loop stop (jhi is inclusive)', loc(fi, lp.lineno), b, sym('jhi') + 1, (), vocab=VOCAB, detail_ok='range stop is jhi + 1, so a chunk starting at jhi is not skipped')
        compare(ctx, 'CFG-9', 'chunk loop step', loc(fi, lp.lineno), c, sym('chunk'), (), vocab=VOCAB, detail_ok='steps by the chunk size')
    elif len(lp.iter.args) == 1:
        # counted loop: chunk i starts at jlo + i*chunk ; the count must be ceil((jhi - jlo + 1) / chunk)
        ivar = lp.target.id
        chunk_name = (chunk_candidates or ['chunk_size'])[-1]
        base_env = {'__module__': mod, jlo_name: scalar(sym('jlo'), num(1)), jhi_name: scalar(sym('jhi'), num(1)), chunk_name: scalar(sym('chunk'), num(1))}
        for n_, (v_, st_) in defs.items():
            if n_ not in base_env and st_.lineno > hi_def[0][2].lineno and n_ != chunk_name:
                base_env[n_] = I.expr(v_, dict(base_env), mod)
        count = I.expr(lp.iter.args[0], dict(base_env), mod)
        Lw = sym('jhi') - sym('jlo') + 1
        ch = sym('chunk')
        ceil_forms = [mk_fn('ceil', P(Lw / ch)), mk_fn('int', P(mk_fn('ceil', P(Lw / ch)))), -mk_fn('floor', P(-Lw / ch)), mk_fn('floor', P((Lw + ch - 1) / ch)), mk_fn('int', P((Lw + ch - 1) / ch))]
        floor_forms = [mk_fn('floor', P(Lw / ch)), mk_fn('int', P(Lw / ch))]
        if isinstance(count, Arr) and any(count.poly == f_ for f_ in ceil_forms):
            ctx.ok('CFG-9', 'number of chunks', loc(fi, lp.lineno), 'ceil((jhi - jlo + 1) / chunk) chunks')
        elif isinstance(count, Arr) and any(count.poly == f_ for f_ in floor_forms):
            ctx.violation('CFG-9', 'number of chunks', loc(fi, lp.lineno), 'the loop runs floor((jhi - jlo + 1) / chunk) times: when the chunk size does not divide the number of wavelengths the last, shorter chunk is never processed', 'floor-chunks')
        else:
            ctx.undecided('CFG-9', 'number of chunks', loc(fi, lp.lineno), 'chunk count %s not recognised' % (alg.show(count.poly, 120) if isinstance(count, Arr) else count))
        jm = [(n_, v_) for n_, v_, st_ in sequential_defs(lp.body) if ivar in up(v_) and jlo_name in up(v_)]
        if not jm:
            raise AnalysisError('monochromatic: start of a chunk not found in the counted loop')
        jmin = jm[0][0]
        senv = dict(base_env)
        senv[ivar] = scalar(sym('ichunk'), num(1))
        start = I.expr(jm[0][1], dict(senv), mod)
        compare(ctx, 'CFG-9', 'chunk i starts at jlo + i*chunk', loc(fi, lp.lineno), start, sym('jlo') + sym('ichunk') * sym('chunk'), (), vocab=VOCAB | {'ichunk'}, detail_ok='consecutive chunks are adjacent')
        ctx.ok('CFG-9', 'chunk loop shape', loc(fi, lp.lineno), 'counted loop over chunks', nontrivial=False)
        senv[jmin] = scalar(sym('jmin'), num(1))
    else:
        raise AnalysisError('monochromatic: chunk loop shape not recognised')
    # locals defined in the chunk body
    benv = dict(senv)
    benv.setdefault(nw_name[0], scalar(alg.count(N), num(1)))       # the number of tabulated wavelengths, should the chunk body refer to it
    for name, v, st in sequential_defs(lp.body):
        if name == jmin:
            continue
        benv[name] = I.expr(v, benv, mod)
    aa, bb = sym('jmin') + sym('chunk') - 1, sym('jhi')
    jmax_ref = aa + lt(bb, aa) * (bb - aa)
    length_ref = jmax_ref - sym('jmin') + 1
    inner = [n_ for n_ in walk_local(lp) if n_ is not lp and isinstance(n_, (ast.For, ast.comprehension)) and isinstance(n_.iter, ast.Call) and chain(n_.iter.func) == 'range' and len(n_.iter.args) == 1
             and 'len(' not in up(n_.iter)]
    if len(inner) < 3:
        raise AnalysisError('monochromatic: per-chunk loops not found (%d)' % len(inner))
    for k, n_ in enumerate(inner, 1):
        v = I.expr(n_.iter.args[0], dict(benv), mod)
        ln = getattr(n_, 'lineno', None) or n_.iter.lineno
        compare(ctx, 'CFG-9', 'per-chunk loop #%d runs over the chunk\'s actual length' % k, loc(fi, ln), v, length_ref, (), vocab=VOCAB,
                detail_ok='range(min(jmin+chunk-1, jhi) - jmin + 1): the last, shorter chunk does not index past jhi')

    # ---- PERM-8 index coherence
    sed_axes, _ = declared_axes(repo, repo.cls('sed.sed', 'SED'))
    sedloop = [n_ for n_ in walk_local(lp) if isinstance(n_, ast.For) and up(n_.iter).startswith('enumerate(') and isinstance(n_.target, ast.Tuple) and any((chain(c_.func) or '').endswith('SED.read') for c_ in calls(n_))]
    if len(sedloop) != 1:
        raise AnalysisError('monochromatic: model loop not found')
    sl = sedloop[0]
    im = sl.target.elts[0].id
    jl = [n_ for n_ in walk_local(sl) if isinstance(n_, ast.For) and n_ is not sl and chain(n_.iter.func if isinstance(n_.iter, ast.Call) else n_.iter) == 'range']
    if len(jl) != 1:
        raise AnalysisError('monochromatic: wavelength loop inside the model loop not found')
    j = jl[0].target.id
    key = '%s + %s' % (j, jmin)
    svar = [t.id for t, v, st in stores(sl) if isinstance(t, ast.Name) and isinstance(v, ast.Call) and (chain(v.func) or '').endswith('SED.read')]
    s = svar[0] if svar else 's'
    found = {'flux': [], 'error': [], 'central_wavelength': [], 'model_names': []}
    lname = None
    for t, v, st in stores(jl[0]):
        tt = up(t)
        m_ = re.match(r'^(\w+)\[%s\]\.(\w+)' % re.escape(j), tt)
        if m_ and m_.group(2) in found:
            lname = lname or m_.group(1)
            found[m_.group(2)].append((t, v, st))
    lname = lname or 'fluxes'
    def spectral_index_ok(v, attr):
        # s.flux[:, j + jmin] or s.flux[0, j + jmin] : index on the axis declared n_wav
        if not (isinstance(v, ast.Subscript) and up(v.value) == '%s.%s' % (s, attr) and isinstance(v.slice, ast.Tuple)):
            return False
        p = sed_axes[attr].index('n_wav')
        return len(v.slice.elts) == len(sed_axes[attr]) and up(v.slice.elts[p]) == key
    for attr in ('flux', 'error'):
        sites = found[attr]
        ok = bool(sites) and all(spectral_index_ok(v, attr) for t, v, st in sites) and all(('[%s' % im) in up(t) for t, v, st in sites)
        ctx.expect(ok, 'PERM-8', 'row %s of %s comes from SED %s at wavelength index %s' % (im, attr, im, key), loc(fi, sites[0][2].lineno if sites else None),
                   '%d stores: %s[%s].%s[%s, ...] = %s.%s[..., %s] on the spectral axis' % (len(sites), lname, j, attr, im, s, attr, key),
                   'stores: %s' % [up(st) for t, v, st in sites], 'row-' + attr)
    cw = found['central_wavelength']
    ctx.expect(bool(cw) and all(up(v) == '%s[%s]' % (wl_name[0], key) for t, v, st in cw), 'PERM-8', 'central wavelength of file %s' % key, loc(fi, cw[0][2].lineno if cw else None),
               'wavelengths[%s]' % key, 'central wavelength = %s' % [up(v) for t, v, st in cw], 'central-wavelength')
    mn = found['model_names']
    ctx.expect(bool(mn) and all(up(t).endswith('[%s]' % im) and up(v) == '%s.name' % s for t, v, st in mn), 'PERM-8', 'row %s of model_names is the name of SED %s' % (im, im),
               loc(fi, mn[0][2].lineno if mn else None), 'model_names[%s] = %s.name' % (im, s), 'names: %s' % [up(st) for t, v, st in mn], 'row-names')
    # file name / table row
    wl = [n_ for n_ in lp.body if isinstance(n_, ast.For) and n_ is not sl and isinstance(n_.iter, ast.Call) and chain(n_.iter.func) == 'range']
    if len(wl) != 1:
        raise AnalysisError('monochromatic: output loop not found')
    j2 = wl[0].target.id
    key2 = '%s + %s' % (j2, jmin)
    wcalls = [c for c in calls(wl[0]) if up(c.func) == '%s[%s].write' % (lname, j2)]
    fmt = [c for c in calls(wl[0]) if isinstance(c.func, ast.Attribute) and c.func.attr == 'format']
    fname_ok = bool(wcalls) and all(w.args and ('MO{' in up(w.args[0])) and ('03d' in up(w.args[0])) and (key2 + ' + 1') in up(w.args[0]) for w in wcalls)
    ctx.expect(fname_ok, 'PERM-8', 'file name MO{index+1:03d}', loc(fi, wl[0].lineno), 'file for wavelength index %s is MO%%03d %% (%s + 1)' % (key2, key2), 'file names: %s' % [up(c)[:80] for c in fmt], 'file-name')
    rows = [(t, v) for t, v, st in stores(wl[0]) if "['filter']" in up(t)]
    ctx.expect(bool(rows) and all(up(t).endswith("['filter'][%s]" % key2) and (key2 + ' + 1') in up(v) for t, v in rows), 'PERM-8', 'returned table row', loc(fi, wl[0].lineno),
               "filters['filter'][%s] names the same file" % key2, 'rows: %s' % [(up(t), up(v)) for t, v in rows], 'table-row')
    # CFG-5
    seq = []
    for st in wl[0].body:
        for c in calls(st):
            if up(c.func) in ('%s[%s].sort_to_match' % (lname, j2), '%s[%s].write' % (lname, j2)):
                seq.append((c.func.attr, up(c.args[0]) if c.args else ''))
    ptab = [n_ for n_, (v_, st_) in defs.items() if isinstance(v_, ast.Call) and (chain(v_.func) or '').endswith('load_parameter_table')]
    ctx.expect(len(seq) >= 2 and seq[0][0] == 'sort_to_match' and seq[0][1] in ["%s['MODEL_NAME']" % p_ for p_ in ptab] and seq[1][0] == 'write', 'CFG-5', 'sort_to_match before write', loc(fi, wl[0].lineno),
               'rows put in parameter-table order before each file is written', 'sequence %s' % seq, 'sort-before-write')



def cube_rules(ctx):
    repo = ctx.repo
    # ---- cube packages
    fsc = ctx.fn(repo.func('convolved_fluxes.convolved_fluxes', 'MonochromaticFluxes.from_sed_cube'))
    cube = Obj(repo.cls('sed.cube', 'SEDCube'), {'_names': symarr('cnames', ('m',)), '_wav': symarr('cubewav', (N,), unit=unit_atom('micron')), '_nu': None,
                                                 '_apertures': symarr('cap', ('a',), unit=unit_atom('au')), '_val': symarr('cubeval', ('m', 'a', N), unit=unit_atom('mJy')),
                                                 '_unc': symarr('cubeunc', ('m', 'a', N), unit=unit_atom('mJy'))})
    class H2(Hooks):
        def opaque(self, interp, f, args, kwargs, node):
            if f.name in ('validate_array', 'validate_scalar'):
                return args[1] if len(args) > 1 else kwargs.get('value')
            return NotImplemented
    I2 = Interp(repo, H2())
    out = I2.call(fsc, [cube, scalar(sym('idx'), num(1))], selfv=ClassRef(repo.cls('convolved_fluxes.convolved_fluxes', 'MonochromaticFluxes')))
    if isinstance(out, Obj):
        for attr, base, dims in (('_flux', sym('cubeval', 'm', 'a', N), ('m', 'a')), ('_error', sym('cubeunc', 'm', 'a', N), ('m', 'a')), ('_wavelength', sym('cubewav', N), ())):
            compare(ctx, 'PERM-8', 'from_sed_cube %s' % attr.lstrip('_'), loc(fsc), out.attrs.get(attr), mk_fn('at', B(N, base), P(sym('idx'))), dims, vocab=VOCAB, fns=FNS, findings=I2.findings,
                    detail_ok='slice of the cube at the wavelength index, on the spectral axis')
    else:
        ctx.undecided('PERM-8', 'from_sed_cube', loc(fsc), 'not modelled: %r' % (out,))
    f2, I3, h3, m = readers.run_reader(repo, 2, named=False)
    ctx.fn(f2)
    ref = readers.reference(False, False)
    compare(ctx, 'ALG-18', 'cube package: nearest tabulated wavelength', loc(f2), m.attrs.get('_fluxes') if isinstance(m, Obj) else Unk('reader'), ref['fluxes'], None,
            vocab=VOCAB | {'dr', 'step', 'theta', 'fwav'}, fns=FNS | {'APINTERP', 'logspace', 'ceil', 'int'}, detail_ok='slice index == argmin |cube.wav - requested wavelength|')


MO = 'sedfitter/convolve/monochromatic.py'
CF = 'sedfitter/convolved_fluxes/convolved_fluxes.py'
ML = 'sedfitter/models.py'
MUST_FIRE = [
    ('round 12 twin: the sorter handed to searchsorted is the identity: the decreasing wavelengths are searched as stored', [(MO, "    jlo = n_wav - 1 - (wavelengths[::-1].searchsorted(wav_max) - 1)\n    jhi = n_wav - 1 - wavelengths[::-1].searchsorted(wav_min)", "    by_increasing = np.arange(n_wav)\n    jlo = n_wav - 1 - (int(wavelengths.searchsorted(wav_max, side='left', sorter=by_increasing)) - 1)\n    jhi = n_wav - 1 - int(wavelengths.searchsorted(wav_min, side='left', sorter=by_increasing))")]),
    ('whole-chunk work arrays filled with reshape(n_chunk, n_ap) of the (n_ap, n_chunk) slice: apertures and wavelengths scrambled', [('sedfitter/convolve/monochromatic.py', "        fluxes = [ConvolvedFluxes(model_names=np.zeros(n_models, dtype='U30'), apertures=apertures, initialize_arrays=True) for i in range(n_chunk)]\n\n        b = ProgressBar(len(sed_files))\n\n        # Loop over SEDs\n        for im, sed_file in enumerate(sed_files):\n\n            b.update()\n\n            log.debug('Processing {0}'.format(os.path.basename(sed_file)))\n\n            # Read in SED\n            s = SED.read(sed_file, unit_freq=u.Hz, unit_flux=u.mJy, order='nu')\n\n            # Convolve\n            for j in range(n_chunk):\n\n                fluxes[j].central_wavelength = wavelengths[j + jmin]\n                fluxes[j].apertures = apertures\n                fluxes[j].model_names[im] = s.name\n\n                if n_ap == 1:\n                    fluxes[j].flux[im] = s.flux[0, j + jmin]\n                    fluxes[j].error[im] = s.error[0, j + jmin]\n                else:\n                    fluxes[j].flux[im, :] = s.flux[:, j + jmin]\n                    fluxes[j].error[im, :] = s.error[:, j + jmin]\n\n        for j in range(n_chunk):\n", "        fluxes = [ConvolvedFluxes(wavelength=wavelengths[i + jmin], model_names=np.zeros(n_models, dtype='U30'), apertures=apertures) for i in range(n_chunk)]\n\n        # Rather than setting the values one model, wavelength and aperture at\n        # a time through the ConvolvedFluxes properties (which is slow for\n        # large grids, since every access goes through Quantity), we fill plain\n        # arrays holding the whole chunk and hand them over once all the SEDs\n        # have been read in.\n        model_names = np.zeros(n_models, dtype='U30')\n        chunk_flux = np.zeros((n_chunk, n_models, n_ap))\n        chunk_error = np.zeros((n_chunk, n_models, n_ap))\n\n        b = ProgressBar(len(sed_files))\n\n        # Loop over SEDs\n        for im, sed_file in enumerate(sed_files):\n\n            b.update()\n\n            log.debug('Processing {0}'.format(os.path.basename(sed_file)))\n\n            # Read in SED\n            s = SED.read(sed_file, unit_freq=u.Hz, unit_flux=u.mJy, order='nu')\n\n            # Convolve - this is just the slice of the SED for this chunk,\n            # for all apertures at once\n            model_names[im] = s.name\n            chunk_flux[:, im, :] = s.flux.value[:, jmin:jmax + 1].reshape(n_chunk, n_ap)\n            chunk_error[:, im, :] = s.error.value[:, jmin:jmax + 1].reshape(n_chunk, n_ap)\n\n        for j in range(n_chunk):\n            fluxes[j].model_names = model_names\n            fluxes[j].flux = chunk_flux[j] * u.mJy\n            fluxes[j].error = chunk_error[j] * u.mJy\n")]),
    ('last chunk clipped at the end of the grid instead of the window', [(MO, 'jmax = min(jmin + chunk_size - 1, jhi)', 'jmax = min(jmin + chunk_size - 1, n_wav - 1)')]),
    ('jlo off by one', [(MO, "jlo = n_wav - 1 - (wavelengths[::-1].searchsorted(wav_max) - 1)", "jlo = n_wav - 1 - wavelengths[::-1].searchsorted(wav_max)")]),
    ('range stop exclusive (D8 reverted)', [(MO, "for jmin in range(jlo, jhi + 1, chunk_size):", "for jmin in range(jlo, jhi, chunk_size):")]),
    ('inner loop over chunk_size', [(MO, "            for j in range(n_chunk):\n\n                fluxes[j].central_wavelength", "            for j in range(chunk_size):\n\n                fluxes[j].central_wavelength")]),
    ('MO{j+1}', [(MO, "'{0:s}/convolved/MO{1:03d}.fits'.format(model_dir, j + jmin + 1)", "'{0:s}/convolved/MO{1:03d}.fits'.format(model_dir, j + 1)")]),
    ('s.flux[:, j]', [(MO, "fluxes[j].flux[im, :] = s.flux[:, j + jmin]", "fluxes[j].flux[im, :] = s.flux[:, j]")]),
    ('sort_to_match removed', [(MO, "            fluxes[j].sort_to_match(par_table['MODEL_NAME'])\n", "")]),
    ('argmin -> argmax', [(ML, "wavelength_index = np.argmin(np.abs(cube.wav - filt['wav']))", "wavelength_index = np.argmax(np.abs(cube.wav - filt['wav']))")]),
    ('jhi from wav_max', [(MO, "jhi = n_wav - 1 - wavelengths[::-1].searchsorted(wav_min)", "jhi = n_wav - 1 - wavelengths[::-1].searchsorted(wav_max)")]),
    ('error column from flux', [(MO, "fluxes[j].error[im, :] = s.error[:, j + jmin]", "fluxes[j].error[im, :] = s.flux[:, j + jmin]")]),
    ('model SEDs read in wavelength order', [(MO, "s = SED.read(sed_file, unit_freq=u.Hz, unit_flux=u.mJy, order='nu')", "s = SED.read(sed_file, unit_freq=u.Hz, unit_flux=u.mJy, order='wav')")]),
    ('from_sed_cube slices the aperture axis', [(CF, "conv.flux = cube.val[:, :, wavelength_index]", "conv.flux = cube.val[:, wavelength_index, :]")]),
    ('from_sed_cube error from val', [(CF, "conv.error = cube.unc[:, :, wavelength_index]", "conv.error = cube.val[:, :, wavelength_index]")]),
    ('chunk step off', [(MO, "for jmin in range(jlo, jhi + 1, chunk_size):", "for jmin in range(jlo, jhi + 1, chunk_size + 1):")]),
    ('table row index without jmin', [(MO, "filters['filter'][j + jmin] = ", "filters['filter'][j] = ")]),
    ('list of chunk_size objects but n_chunk loops (consistent length, wrong size)', [(MO, "n_chunk = jmax - jmin + 1", "n_chunk = jmax - jmin")]),
    ('names from the first model', [(MO, "fluxes[j].model_names[im] = s.name", "fluxes[j].model_names[im] = first_sed.name")]),
    ('wavelength searched on the unreversed array', [(MO, "jhi = n_wav - 1 - wavelengths[::-1].searchsorted(wav_min)", "jhi = n_wav - 1 - wavelengths.searchsorted(wav_min)")]),
]
MUST_SILENT = [
    ('round 12: the window searched in the stored (decreasing) wavelengths through the permutation that sorts them', [(MO, "    jlo = n_wav - 1 - (wavelengths[::-1].searchsorted(wav_max) - 1)\n    jhi = n_wav - 1 - wavelengths[::-1].searchsorted(wav_min)", "    by_increasing = np.arange(n_wav - 1, -1, -1)\n    jlo = n_wav - 1 - (int(wavelengths.searchsorted(wav_max, side='left', sorter=by_increasing)) - 1)\n    jhi = n_wav - 1 - int(wavelengths.searchsorted(wav_min, side='left', sorter=by_increasing))")]),
    ('whole-chunk work arrays filled with the transposed slice', [('sedfitter/convolve/monochromatic.py', "        fluxes = [ConvolvedFluxes(model_names=np.zeros(n_models, dtype='U30'), apertures=apertures, initialize_arrays=True) for i in range(n_chunk)]\n\n        b = ProgressBar(len(sed_files))\n\n        # Loop over SEDs\n        for im, sed_file in enumerate(sed_files):\n\n            b.update()\n\n            log.debug('Processing {0}'.format(os.path.basename(sed_file)))\n\n            # Read in SED\n            s = SED.read(sed_file, unit_freq=u.Hz, unit_flux=u.mJy, order='nu')\n\n            # Convolve\n            for j in range(n_chunk):\n\n                fluxes[j].central_wavelength = wavelengths[j + jmin]\n                fluxes[j].apertures = apertures\n                fluxes[j].model_names[im] = s.name\n\n                if n_ap == 1:\n                    fluxes[j].flux[im] = s.flux[0, j + jmin]\n                    fluxes[j].error[im] = s.error[0, j + jmin]\n                else:\n                    fluxes[j].flux[im, :] = s.flux[:, j + jmin]\n                    fluxes[j].error[im, :] = s.error[:, j + jmin]\n\n        for j in range(n_chunk):\n", "        fluxes = [ConvolvedFluxes(wavelength=wavelengths[i + jmin], model_names=np.zeros(n_models, dtype='U30'), apertures=apertures) for i in range(n_chunk)]\n\n        # Rather than setting the values one model, wavelength and aperture at\n        # a time through the ConvolvedFluxes properties (which is slow for\n        # large grids, since every access goes through Quantity), we fill plain\n        # arrays holding the whole chunk and hand them over once all the SEDs\n        # have been read in.\n        model_names = np.zeros(n_models, dtype='U30')\n        chunk_flux = np.zeros((n_chunk, n_models, n_ap))\n        chunk_error = np.zeros((n_chunk, n_models, n_ap))\n\n        b = ProgressBar(len(sed_files))\n\n        # Loop over SEDs\n        for im, sed_file in enumerate(sed_files):\n\n            b.update()\n\n            log.debug('Processing {0}'.format(os.path.basename(sed_file)))\n\n            # Read in SED\n            s = SED.read(sed_file, unit_freq=u.Hz, unit_flux=u.mJy, order='nu')\n\n            # Convolve - this is just the slice of the SED for this chunk,\n            # for all apertures at once\n            model_names[im] = s.name\n            chunk_flux[:, im, :] = s.flux.value[:, jmin:jmax + 1].T\n            chunk_error[:, im, :] = s.error.value[:, jmin:jmax + 1].T\n\n        for j in range(n_chunk):\n            fluxes[j].model_names = model_names\n            fluxes[j].flux = chunk_flux[j] * u.mJy\n            fluxes[j].error = chunk_error[j] * u.mJy\n")]),
    ('jlo simplified', [(MO, "jlo = n_wav - 1 - (wavelengths[::-1].searchsorted(wav_max) - 1)", "jlo = n_wav - wavelengths[::-1].searchsorted(wav_max)")]),
    ('actual length inlined', [(MO, "            for j in range(n_chunk):\n\n                fluxes[j].central_wavelength", "            for j in range(jmax - jmin + 1):\n\n                fluxes[j].central_wavelength")]),
    ('stop written as 1 + jhi', [(MO, "for jmin in range(jlo, jhi + 1, chunk_size):", "for jmin in range(jlo, 1 + jhi, chunk_size):")]),
]


def thorough(ctx):
    from .. import selftest
    selftest.run(ctx, MUST_FIRE, MUST_SILENT)
