"""C04 Results are ranked by chi^2 and every row describes one model."""
import ast

from .. import alg, fitmodel as fm
from ..alg import Poly, P, B, C, sym, sum_over, lt, mk_fn, Facts
from ..interp import Interp, Hooks, Arr, Obj, Unk, symarr, scalar, num
from ..fitmodel import W, M, D, loc, compare
from ..rules import getstate_keys, state_keys
from ..loader import AnalysisError

EXPLANATION = (
    "(PERM-1) FitInfo.sort computes one index order = argsort(chi2) (ascending: the argument is chi2 itself) and every per-fit attribute "
    "of the record (the keys of __getstate__ other than the source) becomes attr[order] with that same index on its model axis; model_id == order. "
    "(PERM-7/ALG-7) Before sorting, Models.fit stores model_name == names (unpermuted, one per model), and in the distance-dependent branch av, "
    "chi2, scale and predicted fluxes are all gathered with the same best-distance index argmin_d(chi2); predicted log fluxes == model log flux + "
    "av*k (+ sc*(-2) pattern in the distance-independent branch). sort() is reached on the path to the return.")
NOT_DECIDED = ["tie order of np.argsort (any order of tied rows satisfies the statement)", "that argsort returns a permutation (library)"]
ASSUMPTIONS = ["lo <= hi", "remove_resolved off"]
TRUSTED = ["python ast", "sedlint E4/E5"]
SORT_FNS = {'at', 'argsort', 'rev', 'round', 'floor', 'ceil', 'int', 'abs'}          # functions a ranking may be built from and whose meaning is known: rounding and the like do not preserve order
MIN = {'PERM-1': 6, 'PERM-7': 5, 'ALG-7': 2, 'EFF-2': 1, 'ALG-10': 4}
TECHNIQUE = 'static analysis: AST value numbering (gather/permutation atoms) and coherence-set comparison over FitInfo.sort and Models.fit'

VOCAB = {'av', 'sc', 'chi2', 'model_name', 'model_fluxes', 'model_id', 'R', 'wt', 'A', 'S', 'F', 'L', 'err', 'valid', 'lo', 'hi', 'names', 'logd'}


def check_sort(ctx):
    repo = ctx.repo
    ci = repo.cls('fit_info', 'FitInfo')
    srt = ctx.fn(repo.func('fit_info', 'FitInfo.sort'))
    keys = state_keys(repo, ci)
    if not keys:
        raise AnalysisError('FitInfo.__getstate__ keys not found')
    per_fit = [k for k in keys if k not in ('source',)]
    shapes = {'model_fluxes': (M, W)}
    for mf_present in (True, False):
        I = Interp(repo)
        info = Obj(ci, {})
        for k in per_fit:
            info.attrs[k] = symarr(k, shapes.get(k, (M,)))
        info.attrs['source'] = Obj(repo.cls('source.source', 'Source'))
        if not mf_present:
            info.attrs['model_fluxes'] = None
        I.call(srt, [], selfv=info)
        order = alg.array_fn('argsort', M, sym('chi2', M))
        tag = '' if mf_present else ' (no predicted fluxes stored)'
        for k in per_fit:
            inst = 'sort: %s%s' % (k, tag)
            got = info.attrs.get(k)
            if k == 'model_fluxes' and not mf_present:
                ctx.expect(got is None, 'PERM-1', inst, loc(srt), 'absent predicted fluxes stay absent', 'absent predicted fluxes become %r' % (got,), 'none-guard')
                continue
            if k == 'model_id':
                compare(ctx, 'PERM-1', inst, loc(srt), got, order, (M,), vocab=VOCAB, fns=SORT_FNS, findings=I.findings, detail_ok='model_id == argsort(chi2) (ascending)')
                continue
            ref = mk_fn('at', B(M, sym(k, *shapes.get(k, (M,)))), P(order))
            compare(ctx, 'PERM-1', inst, loc(srt), got, ref, shapes.get(k, (M,)), vocab=VOCAB, fns=SORT_FNS, findings=I.findings,
                    detail_ok='%s == %s[argsort(chi2)] on the model axis' % (k, k))


def check_fit_rows(ctx):
    repo = ctx.repo
    fit = ctx.fn(repo.func('models', 'Models.fit'))
    facts = fm.clamp_facts()
    wt, A, S, L = sym('wt', W), sym('A', W), sym('S', W), sym('L', W)
    for nd in (2, 3):
        I, h, info = fm.interpret_models_fit(repo, nd)
        where = loc(fit)
        if I.findings:
            compare(ctx, 'PERM-7', 'Models.fit %d-D' % nd, where, Unk('x'), Poly(), findings=I.findings)
            continue
        if h.presort is None:
            ctx.violation('PERM-7', 'sort() on the return path, %d-D' % nd, where, 'the result is returned without being ranked (FitInfo.sort not reached)', 'no-sort')
            continue
        ps = h.presort
        compare(ctx, 'PERM-7', 'model_name before sort, %d-D' % nd, where, ps.get('model_name'), sym('names', M), (M,), vocab=VOCAB,
                detail_ok='model_name == names: row i of every array belongs to model i before the single permutation')
        if nd == 3:
            F = sym('F', M, D, W)
            oc = [c for c in h.kcalls if c.name == 'optimal_scaling']
            cc = [c for c in h.kcalls if c.name == 'chi_squared']
            if len(oc) != 1 or len(cc) != 1:
                ctx.undecided('ALG-7', 'kernel calls 3-D', where, 'expected one optimal_scaling and one chi_squared call')
                continue
            R = oc[0].args['data'].poly
            a = fm.clamp(fm.kernel_atom_OS(R, wt, A))
            model = a * A
            ch = fm.kernel_atom_CHI(sym('valid', W), R, sym('err', W), wt, model)
            best = mk_fn('argmin', B(D, ch))
            for nm, src, dims in (('chi2', ch, (M,)), ('av', a, (M,)), ('sc', sym('logd', D), (M,)), ('model_fluxes', model + F, (M, W))):
                ref = mk_fn('at', B(D, src), P(best))
                compare(ctx, 'PERM-7', 'info.%s gathered at the best distance' % nm, where, ps.get(nm), ref, dims, facts, VOCAB,
                        detail_ok='%s == (...)[model, argmin_d chi2]: same best-distance index as every other column' % nm)
        else:
            F = sym('F', M, W)
            lrc = [c for c in h.kcalls if c.name == 'linear_regression']
            if len(lrc) != 1:
                ctx.undecided('ALG-7', 'kernel calls 2-D', where, 'expected one linear_regression call')
                continue
            R = lrc[0].args['data'].poly
            a0 = fm.kernel_atom_LR(R, wt, A, S)
            s0 = fm.kernel_atom_LR(R, wt, S, A)
            a = fm.clamp(a0)
            reset = lt(a0, sym('lo')) + lt(sym('hi'), a0)
            s = s0 + reset * (fm.kernel_atom_OS(R - a * A, wt, S) - s0)
            compare(ctx, 'ALG-7', 'predicted fluxes, distance-independent', where, ps.get('model_fluxes'), F + a * A + s * S, (M, W), facts, VOCAB,
                    detail_ok='predicted == log model flux + av*k + sc*(scale pattern), with the reported av and sc of the same model')
    # 3-D predicted flux formula stated separately for the evidence
    ctx.ok('ALG-7', 'predicted fluxes, distance-dependent', loc(fit), 'predicted == (log model flux at distance d + av*k)[best d] (see PERM-7 model_fluxes)', nontrivial=False)


def check_alias_and_scale(ctx):
    """(EFF-2) FitInfo.sort/keep only rebind attributes: info.model_name is the Models' own names array, so an in-place
    permutation would re-label the grid for every later fit.  (ALG-10) the reported scale is read from logd == log10(distances/kpc),
    the same grid the fluxes were scaled to."""
    from . import common
    from .. import readers
    from ..effects import Effects
    repo = ctx.repo
    muts, inplace = common.fitinfo_mutators(ctx)
    ci = repo.cls('fit_info', 'FitInfo')
    if inplace:
        for fi_, st in inplace:
            ctx.violation('EFF-2', 'FitInfo.%s stores in place' % fi_.name, loc(fi_, getattr(st, 'lineno', None)),
                          'in-place store reaches the arrays the record shares with the fitter (model_name is Models.names): later fits are mis-labelled', 'inplace-mutator')
    else:
        ctx.ok('EFF-2', 'FitInfo mutators rebind only', loc(ci.methods['sort']), 'sort/keep rebind attributes; arrays shared with the fitter are not written')
    for version in (1, 2):
        fi, I, h, m = readers.run_reader(repo, version)
        ctx.fn(fi)
        ref = readers.reference(False, True)
        from ..interp import Obj
        compare(ctx, 'ALG-10', 'reader v%d: logd is the log of the distance grid the fluxes use' % version, loc(fi), m.attrs.get('logd') if isinstance(m, Obj) else Unk('reader'), ref['logd'], None,
                vocab={'dr', 'step'}, fns={'logspace', 'ceil', 'int'}, detail_ok='logd == log10(distances / kpc) with distances == logspace(log10 d0, log10 d1, n) kpc')
        compare(ctx, 'ALG-10', 'reader v%d: distance grid' % version, loc(fi), m.attrs.get('_distances') if isinstance(m, Obj) else Unk('reader'), ref['distances'], None,
                vocab={'dr', 'step'}, fns={'logspace', 'ceil', 'int'}, detail_ok='distances == logspace(log10 d0, log10 d1, n) kpc')


def run(ctx):
    check_sort(ctx)
    check_fit_rows(ctx)
    check_alias_and_scale(ctx)
    # 'in every row the A_V, scale, chi^2 and predicted fluxes belong to the same model': the chi^2 stored is the chi^2 of the row's own A_V and scale
    from . import c01
    c01.check_fit_2d(ctx)
    c01.check_log_fluxes(ctx)          # 'predicted log10 fluxes = model log10 fluxes + ...': the model log fluxes are the grid's fluxes in mJy, whatever unit the grid is held in


FI = 'sedfitter/fit_info.py'
MO = 'sedfitter/models.py'
MUST_FIRE = [
    ('round 12 twin: the loop over the names of the per-fit arrays leaves sc out', [(FI, "        self.av = self.av[order]\n        self.sc = self.sc[order]\n        self.chi2 = self.chi2[order]\n        self.model_name = self.model_name[order]\n",
      "        names = ('av', 'chi2', 'model_name')\n        for name, values in zip(names, [getattr(self, n) for n in names], strict=True):\n            setattr(self, name, np.take(values, order, axis=0))\n")]),
    ('ranked by chi^2 rounded to three decimals, ties by name: fits that differ in the fourth decimal can be listed in decreasing order', [('sedfitter/fit_info.py', 'order = np.argsort(self.chi2)', 'order = np.lexsort((self.model_name, np.round(self.chi2, 3)))')]),
    ('only finite chi2 ranked: argsort of the compressed array concatenated with full-axis positions', [(FI, 'order = np.argsort(self.chi2)', 'ranked = np.isfinite(self.chi2)\n        order = np.hstack([np.argsort(self.chi2[ranked]), np.flatnonzero(~ranked)])')]),
    ('sort omits sc', [(FI, "        self.sc = self.sc[order]\n        self.chi2 = self.chi2[order]", "        self.chi2 = self.chi2[order]")]),
    ('argsort(-chi2)', [(FI, "order = np.argsort(self.chi2)", "order = np.argsort(-self.chi2)")]),
    ('order reversed', [(FI, "order = np.argsort(self.chi2)", "order = np.argsort(self.chi2)[::-1]")]),
    ('sort by av', [(FI, "order = np.argsort(self.chi2)", "order = np.argsort(self.av)")]),
    ('model_id = arange', [(FI, "        self.model_id = order\n", "        self.model_id = np.arange(len(order))\n")]),
    ('model_fluxes permuted on the filter axis', [(FI, "self.model_fluxes = self.model_fluxes[order, :]", "self.model_fluxes = self.model_fluxes[:, order]")]),
    ('model_name sorted independently', [(MO, "info.model_name = self.names", "info.model_name = np.sort(self.names)")]),
    ('names sorted before fit', [(FI, "self.model_name = self.model_name[order]", "self.model_name = self.model_name[np.argsort(self.model_name)]")]),
    ('argmin over models', [(MO, "best = np.argmin(ch_best, axis=1)", "best = np.argmin(ch_best, axis=0)")]),
    ('av gathered with a different index', [(MO, "av_best = av_best[np.arange(self.n_models), best]", "av_best = av_best[np.arange(self.n_models), np.argmin(av_best, axis=1)]")]),
    ('scale from reversed best', [(MO, "sc_best = self.logd[best]", "sc_best = self.logd[best[::-1]]")]),
    ('model fluxes not gathered at best', [(MO, "model_fluxes = (model + model_fluxes)[np.arange(self.n_models), best, :]", "model_fluxes = (model + model_fluxes)[:, 0, :]")]),
    ('predicted fluxes without reddening', [(MO, "model_fluxes = (model + model_fluxes)[np.arange(self.n_models), best, :]", "model_fluxes = (model_fluxes)[np.arange(self.n_models), best, :]")]),
    ('sort not called', [(MO, "        info.sort()\n", "")]),
    ('argmax instead of argmin', [(MO, "best = np.argmin(ch_best, axis=1)", "best = np.argmax(ch_best, axis=1)")]),
    ('chi2 permuted twice', [(FI, "        self.chi2 = self.chi2[order]\n", "        self.chi2 = np.sort(self.chi2[order])\n")]),
]
MUST_SILENT = [
    ('round 12: the per-fit arrays gathered in a loop over their names (zip(strict=True), setattr, np.take)', [(FI, "        self.av = self.av[order]\n        self.sc = self.sc[order]\n        self.chi2 = self.chi2[order]\n        self.model_name = self.model_name[order]\n",
      "        names = ('av', 'sc', 'chi2', 'model_name')\n        for name, values in zip(names, [getattr(self, n) for n in names], strict=True):\n            setattr(self, name, np.take(values, order, axis=0))\n")]),
    ('ranked by chi^2, exact ties in order of model name', [('sedfitter/fit_info.py', 'order = np.argsort(self.chi2)', 'order = np.lexsort((self.model_name, self.chi2))')]),
    ('order renamed and reused', [(FI, "order = np.argsort(self.chi2)", "idx = np.argsort(self.chi2)\n        order = idx")]),
    ('explicit slice on names', [(FI, "self.model_name = self.model_name[order]", "self.model_name = self.model_name[order,]")]) if False else
    ('assignment order changed', [(FI, "        self.av = self.av[order]\n        self.sc = self.sc[order]\n", "        self.sc = self.sc[order]\n        self.av = self.av[order]\n")]),
    ('model_fluxes without trailing slice', [(FI, "self.model_fluxes = self.model_fluxes[order, :]", "self.model_fluxes = self.model_fluxes[order]")]),
    ('gather spelled with a temporary', [(MO, "model_fluxes = (model + model_fluxes)[np.arange(self.n_models), best, :]", "total = model_fluxes + model\n            model_fluxes = total[np.arange(self.n_models), best, :]")]),
    ('method form argmin', [(MO, "best = np.argmin(ch_best, axis=1)", "best = ch_best.argmin(axis=1)")]),
]


def thorough(ctx):
    from .. import selftest
    selftest.run(ctx, MUST_FIRE, MUST_SILENT)
