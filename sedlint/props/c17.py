"""C17 Plotted model SEDs are the fitted models."""
import ast
import re
from fractions import Fraction

from .. import alg
from ..alg import Poly, P, B, C, sym, mk_fn
from ..interp import Interp, Hooks, Arr, Obj, Unk, GenList, Pinned, symarr, scalar, num, unit_atom, _copy_val
from ..fitmodel import loc, compare
from ..astutil import up, walk_local, stores, chain, calls, const, kw
from ..rules import where
from ..loader import AnalysisError
from . import common

A, N = 'a', 'n'
MODES = ('interp', 'largest', 'largest+smallest', 'all')
EXPLANATION = (
    "Decides the wiring of plot(), not the pixels: (PERM-8) inside the fit loop every per-fit array of the record (model_name, sc, av, chi2, model_fluxes) is indexed by the "
    "loop variable only, so the SED fetched, its distance scaling and its reddening belong to the same fit, and the law applied is the stored extinction law's get_av; "
    "(ALG-16) SED.scale_to_distance(D) multiplies flux and error by (d_old/(D cm))^2 and sets the distance, SED.scale_to_av multiplies both by 10^(av*law(wav)), plot passes "
    "D = 10^sc * KPC with KPC within 0.1 per cent of one kiloparsec in cm, and the requested aperture is aperture_arcsec * 10^sc * 1000 AU (1 arcsec at 1 kpc = 1000 AU) for "
    "each display mode's aperture selection; (FLAG) exhaustive over the 4 display modes x (best fit / other fit): the rank of the interpolated flux (1-D for interp via "
    "interpolate_variable, 2-D for the others via interpolate) matches the kind of colour entry that is indexed (a single RGB is never indexed per aperture), and the curves per "
    "fit are 1 / 1 / 2 / len(unique apertures); (CFG-13) the fit loop runs n_fits-1 ... 0 so the best fit is drawn last, and the LineCollection of those lines is what is "
    "returned when no output directory is given. (UNIT-1) apertures reach SED.interpolate* as bare AU numbers, which C13 shows they accept.")
NOT_DECIDED = ["that the drawn curve passes through the stored predicted fluxes (numerical; 'within rounding of constants')", "matplotlib rendering"]
ASSUMPTIONS = ["matplotlib draws a LineCollection's segments in list order"]
TRUSTED = ["python ast", "sedlint E4/E5"]
MIN = {'PERM-8': 8, 'ALG-16': 7, 'FLAG': 0, 'CFG-13': 0}          # PERM-8: the eight interpreted configurations of plot(); FLAG / CFG-13 come from the layout rules, which only corroborate
TECHNIQUE = 'static analysis: index-coherence sets in the plot loop, AST value numbering of the SED scaling methods, finite-domain specialisation over display modes'


class SedHooks(Hooks):
    def opaque(self, interp, fi, args, kwargs, node):
        if fi.name in ('validate_array', 'validate_scalar'):
            return args[1] if len(args) > 1 else kwargs.get('value')
        if fi.qual.endswith(':SED.copy'):
            return _copy_val(args[0], {})
        return NotImplemented


def plot_anchors(repo):
    """is plot() written the way the syntactic rules below expect? (they read the function as text: when it is laid out differently they cannot tell a
    defect from a different spelling, and are then only allowed to say undecided)"""
    plot = repo.func('plot', 'plot')
    loops = [n for n in walk_local(plot.node) if isinstance(n, ast.For) and isinstance(n.target, ast.Name) and isinstance(n.iter, ast.Call) and chain(n.iter.func) == 'range' and 'n_fits' in up(n.iter)]
    if len(loops) != 1:
        return False, 'no single loop over the fits'
    lp = loops[0]
    i = lp.target.id
    tests = {up(n_.test).replace(' ', '').replace('"', "'") for n_ in walk_local(lp) if isinstance(n_, ast.If)}
    missing = [m for m in MODES if "sed_type=='%s'" % m not in tests]
    if missing:
        return False, 'display modes %s are not dispatched by sed_type == ... inside the fit loop' % missing
    sa = [c for c in calls(lp) if isinstance(c.func, ast.Attribute) and c.func.attr == 'scale_to_av']
    if len(sa) != 1 or len(sa[0].args) != 2 or isinstance(sa[0].args[0], ast.Name) or isinstance(sa[0].args[1], ast.Name):
        return False, 'the reddening call is not one scale_to_av(a, b) with its arguments written in place inside the loop'
    gs = [c for c in calls(lp) if isinstance(c.func, ast.Attribute) and c.func.attr == 'get_sed']
    rd = [c for c in calls(lp) if (chain(c.func) or '').endswith('SED.read')]
    if not gs or not rd:
        return False, 'the SED is not fetched by get_sed / SED.read inside the loop'
    return True, ''


def run(ctx):
    from ..roundtrip import SuspectCtx
    repo = ctx.repo
    # plot() is decided by interpreting it on eight configurations (plotdrv); the rules that read its layout corroborate an OK verdict and stand in, as
    # suspects, when the interpretation has none.  The SED methods it calls and the kiloparsec constant are decided on their own values.
    from .. import plotdrv
    from ..roundtrip import CorroborateCtx
    plot = ctx.fn(repo.func('plot', 'plot'))
    verdict = plotdrv.decide(ctx, repo, plot, loc(plot))
    ctx.extra['plot_configurations'] = 2 * len(plotdrv.MODES)
    method_rules(ctx)
    if verdict == 'ok':
        pctx = CorroborateCtx(ctx, 'decided by interpretation on the enumerated configurations')
    elif verdict == 'undecided':
        trusted, why = plot_anchors(repo)
        pctx = ctx if trusted else SuspectCtx(ctx, 'plot() is laid out differently from what this rule reads (%s); the rule' % why)
    else:
        pctx = None
    if pctx is not None:
        try:
            plot_rules(pctx)
        except AnalysisError as e:
            pctx.undecided('PERM-8', 'plot() structure', 'sedfitter/plot.py', 'structure not recognised: %s' % e)
    common.check_ownership(ctx, only=('plot',))
    # the stored extinction law survives the fit file unchanged, and get_av is the normalised law (results passed as a file)
    from . import c14, c13
    c14.check_state(ctx)
    c14.check_get_av(ctx)
    # the composite (interp) curve: each filter wavelength paired with that filter's aperture
    c13.check_variable(ctx, increasing=False)          # the packages plotted may store their apertures in any order (C13 itself promises increasing tables)
    c13.check_sed_interpolate(ctx)
    common.check_shared_class_state(ctx, [('sed.cube', 'BaseCube'), ('sed.cube', 'SEDCube'), ('sed.sed', 'SED'), ('extinction.extinction', 'Extinction'), ('fit_info', 'FitInfo')])          # the display modes other than 'interp' draw SED.interpolate at the filters' apertures
    from . import c12
    c12.check_get_sed(ctx)           # 'draws that model's SED': the cube slice found by name on the full model axis


def method_rules(ctx):
    """the SED methods plot() scales and reddens with, and the kiloparsec constant: decided on their values, whatever plot() looks like"""
    repo = ctx.repo
    pm = repo.module('plot')
    kpc = pm.globals.get('KPC')
    kv = const(kpc) if kpc is not None else None
    if kv is None:
        ctx.undecided('ALG-16', 'KPC is one kiloparsec in cm', pm.path, 'KPC constant not found')
    else:
        ctx.expect(abs(kv / 3.0856775814913673e21 - 1) < 1e-3, 'ALG-16', 'KPC is one kiloparsec in cm', '%s:%d <module>' % (pm.path, kpc.lineno), 'KPC = %g within 0.1%% of 3.0857e21' % kv,
                   'KPC = %g is not a kiloparsec in cm' % kv, 'kpc-constant')
    # ---- SED methods
    scls = repo.cls('sed.sed', 'SED')
    def mk():
        return Obj(scls, {'name': 'M', '_distance': None, 'distance': scalar(sym('dold'), unit_atom('cm')), '_apertures': symarr('cap', (A,), unit=unit_atom('au')),
                          '_flux': symarr('flux', (A, N), unit=unit_atom('mJy')), '_error': symarr('err', (A, N), unit=unit_atom('mJy')),
                          '_wav': symarr('wav', (N,), unit=unit_atom('micron')), '_nu': None})
    std = ctx.fn(repo.func('sed.sed', 'SED.scale_to_distance'))
    I = Interp(repo, SedHooks())
    me = mk()
    out = I.call(std, [scalar(sym('D'), num(1))], selfv=me)
    cm = sym('unit:cm')
    fac = (sym('dold') / (sym('D') * cm)).pow(2)
    if isinstance(out, Obj):
        compare(ctx, 'ALG-16', 'scale_to_distance flux', loc(std), out.attrs.get('_flux'), sym('flux', A, N) * fac, (A, N), vocab={'flux', 'err', 'dold', 'D'}, findings=I.findings, detail_ok='flux * (d_old / (D cm))^2')
        compare(ctx, 'ALG-16', 'scale_to_distance error', loc(std), out.attrs.get('_error'), sym('err', A, N) * fac, (A, N), vocab={'flux', 'err', 'dold', 'D'}, detail_ok='error * (d_old / (D cm))^2')
        compare(ctx, 'ALG-16', 'scale_to_distance distance', loc(std), out.attrs.get('distance'), sym('D') * cm, (), vocab={'D'}, detail_ok='distance = D cm')
        same = isinstance(me.attrs.get('_flux'), Arr) and me.attrs['_flux'].poly == sym('flux', A, N)
        ctx.expect(same and out is not me, 'ALG-16', 'scale_to_distance works on a copy', loc(std), 'the original SED is unchanged', 'the original SED is modified in place', 'copy')
    else:
        ctx.undecided('ALG-16', 'scale_to_distance', loc(std), 'not modelled: %r' % (out,))
    sta = ctx.fn(repo.func('sed.sed', 'SED.scale_to_av'))
    I = Interp(repo, SedHooks())
    law = lambda x: Arr(x.dims, mk_fn('LAW', P(x.poly)), unit=num(1)) if isinstance(x, Arr) else Unk('law arg')
    out = I.call(sta, [scalar(sym('av'), num(1)), law], selfv=mk())
    red = mk_fn('exp10', P(sym('av') * mk_fn('LAW', P(sym('wav', N)))))
    if isinstance(out, Obj):
        compare(ctx, 'ALG-16', 'scale_to_av flux', loc(sta), out.attrs.get('_flux'), sym('flux', A, N) * red, (A, N), vocab={'flux', 'err', 'av', 'wav'}, fns={'LAW'}, findings=I.findings, detail_ok='flux * 10**(av * law(wav))')
        compare(ctx, 'ALG-16', 'scale_to_av error', loc(sta), out.attrs.get('_error'), sym('err', A, N) * red, (A, N), vocab={'flux', 'err', 'av', 'wav'}, fns={'LAW'}, detail_ok='error * 10**(av * law(wav))')
    else:
        ctx.undecided('ALG-16', 'scale_to_av', loc(sta), 'not modelled: %r' % (out,))



def plot_rules(ctx):
    repo = ctx.repo
    plot = ctx.fn(repo.func('plot', 'plot'))
    pm = repo.module('plot')
    # ---- the fit loop
    loops = [n for n in walk_local(plot.node) if isinstance(n, ast.For) and isinstance(n.target, ast.Name) and isinstance(n.iter, ast.Call) and chain(n.iter.func) == 'range'
             and 'n_fits' in up(n.iter)]
    if len(loops) != 1:
        raise AnalysisError('plot(): fit loop not found')
    lp = loops[0]
    i = lp.target.id
    m_ = re.search(r'(\w+)\.n_fits', up(lp.iter))
    rec = m_.group(1) if m_ else 'info'
    apn = [t.id for t, v, st in stores(plot.node) if isinstance(t, ast.Name) and 'aperture_arcsec' in up(v)]
    if not apn:
        raise AnalysisError('plot(): aperture list not found')
    apn = apn[0]
    uqn = [t.id for t, v, st in stores(plot.node) if isinstance(t, ast.Name) and isinstance(v, ast.Call) and (chain(v.func) or '').endswith('unique') and up(v.args[0]) == apn]
    uqn = uqn[0] if uqn else 'unique_ap'
    ra = [up(a).replace(' ', '') for a in lp.iter.args]
    ctx.expect(ra == ['%s.n_fits-1' % rec, '-1', '-1'], 'CFG-13', 'fit loop runs from the worst selected fit to the best', where(plot, lp), 'range(n_fits - 1, -1, -1): the best fit is appended last',
               'loop is range(%s)' % ', '.join(ra), 'loop-order')
    per_fit = ('model_name', 'sc', 'av', 'chi2', 'model_fluxes')
    bad, n = [], 0
    for s in walk_local(lp):
        if isinstance(s, ast.Subscript) and up(s.value) in ['%s.%s' % (rec, a) for a in per_fit]:
            n += 1
            ix = s.slice.elts[0] if isinstance(s.slice, ast.Tuple) else s.slice
            if up(ix) != i:
                bad.append(up(s))
    ctx.expect(not bad and n >= 4, 'PERM-8', 'per-fit arrays indexed by the fit loop variable', where(plot, lp), '%d subscripts of model_name/sc/av/model_fluxes, all at [%s]' % (n, i),
               'the SED, its scale and its reddening come from different fits: %s' % bad, 'row-index')
    # locals assigned once in plot() stand for their definition (a value hoisted out of the loop or given a name is the same value)
    single = {}
    for t_, v_, st_ in stores(plot.node):
        if isinstance(t_, ast.Name):
            single[t_.id] = None if t_.id in single else v_
    single = {k_: v_ for k_, v_ in single.items() if v_ is not None and k_ != i}

    def xup(e_, depth=0):
        class _Sub(ast.NodeTransformer):
            def visit_Name(self, n_):
                if isinstance(n_.ctx, ast.Load) and n_.id in single and depth < 3:
                    return ast.parse(xup(single[n_.id], depth + 1), mode='eval').body
                return n_
        import copy as _copy
        return up(_Sub().visit(_copy.deepcopy(e_)))
    sd = [c for c in calls(lp) if isinstance(c.func, ast.Attribute) and c.func.attr == 'scale_to_distance']
    sa = [c for c in calls(lp) if isinstance(c.func, ast.Attribute) and c.func.attr == 'scale_to_av']
    gs = [c for c in calls(lp) if isinstance(c.func, ast.Attribute) and c.func.attr == 'get_sed']
    rd = [c for c in calls(lp) if (chain(c.func) or '').endswith('SED.read')]
    law_forms = ('%s.meta.extinction_law.get_av' % rec, '%s.meta.extinction_law.get_av' % (up(lp.iter.args[0]).split('.n_fits')[0] if False else rec))
    ok = len(sd) == 1 and len(sa) == 1 and len(sa[0].args) == 2 and xup(sa[0].args[0]) == '%s.av[%s]' % (rec, i) and xup(sa[0].args[1]).replace('fin.meta', rec + '.meta') in law_forms
    ctx.expect(ok, 'PERM-8', 'reddening uses the fit\'s A_V and the stored law', where(plot, sa[0] if sa else lp), 's.scale_to_av(info.av[%s], info.meta.extinction_law.get_av)' % i,
               'scale_to_av called as %s' % [up(c) for c in sa], 'reddening-wiring')
    ok = bool(gs) and all(xup(c.args[0]) == '%s.model_name[%s]' % (rec, i) for c in gs) and bool(rd) and all(('%s.model_name[%s]' % (rec, i)) in xup(c) for c in rd)
    ctx.expect(ok, 'PERM-8', 'the SED fetched is the fitted model', where(plot, gs[0] if gs else lp), 'SED of info.model_name[%s] (file or cube)' % i, 'SED fetched as %s' % [up(c)[:80] for c in gs + rd], 'sed-fetch')
    # ---- ALG-16 distance argument
    I = Interp(repo)
    env = {'__module__': pm, rec: Obj(repo.cls('fit_info', 'FitInfo'), {'sc': symarr('sc', ('r',), unit=num(1)), 'av': symarr('av', ('r',), unit=num(1))}), i: Pinned('r')}
    if sd:
        darg = I.expr(sd[0].args[0], dict(env), pm)
        kpc = pm.globals.get('KPC')
        kv = const(kpc) if kpc is not None else None
        if kv is None:
            ctx.undecided('ALG-16', 'distance passed to scale_to_distance', where(plot, sd[0]), 'KPC constant not found')
        else:
            compare(ctx, 'ALG-16', 'distance passed to scale_to_distance', where(plot, sd[0]), darg, mk_fn('exp10', P(sym('sc', 'r'))) * Poly.const(kv), (), vocab={'sc'}, detail_ok='10**sc * KPC (cm)')
    # ---- display modes
    mode_if = None
    for n_ in walk_local(lp):
        if isinstance(n_, ast.If) and up(n_.test).replace(' ', '') == "sed_type=='interp'":
            mode_if = n_
    if mode_if is None:
        raise AnalysisError('plot(): display-mode dispatch not found')
    branches = {}
    cur = mode_if
    while True:
        t = cur.test
        key = const(t.comparators[0]) if isinstance(t, ast.Compare) else None
        branches[key] = cur.body
        if len(cur.orelse) == 1 and isinstance(cur.orelse[0], ast.If):
            cur = cur.orelse[0]
        else:
            break
    want_sel = {'interp': (apn, 'interpolate_variable', 1), 'largest': ('np.array([%s.max()])' % apn, 'interpolate', 2),
                'largest+smallest': ('np.array([%s.min(), %s.max()])' % (apn, apn), 'interpolate', 2), 'all': (uqn, 'interpolate', 2)}
    curves = {'interp': '1', 'largest': '1', 'largest+smallest': '2', 'all': 'len(%s)' % uqn}
    ranks = {}
    flux_names = set()
    for mode in MODES:
        body = branches.get(mode)
        inst = 'display mode %r' % mode
        if body is None:
            ctx.violation('FLAG', inst, where(plot, mode_if), 'documented display mode is not handled', 'mode-missing')
            continue
        fl = [(t, v) for st in body for t, v, s2 in stores(st) if isinstance(t, ast.Name) and isinstance(v, ast.Call) and isinstance(v.func, ast.Attribute) and v.func.attr.startswith('interpolate')]
        apname = up(fl[0][1].args[-1]) if fl and fl[0][1].args else None
        apdef = [(t, v) for st in body for t, v, s2 in stores(st) if isinstance(t, ast.Name) and t.id == apname]
        if fl:
            flux_names.add(fl[0][0].id)
        ok = False
        detail = ''
        if apdef and fl:
            v = apdef[0][1]
            sel, meth, rank = want_sel[mode]
            shape_ok = isinstance(v, ast.BinOp) and isinstance(v.op, ast.Mult) and const(v.right) == 1000.0 and isinstance(v.left, ast.BinOp) and isinstance(v.left.op, ast.Mult) \
                and up(v.left.right).replace(' ', '') == '10.0**%s.sc[%s]' % (rec, i) and up(v.left.left) == sel
            call = fl[0][1]
            meth_ok = isinstance(call, ast.Call) and isinstance(call.func, ast.Attribute) and call.func.attr == meth and up(call.args[-1]) == apname
            ok = shape_ok and meth_ok
            detail = 'apertures = %s ; flux = %s' % (up(v), up(call))
            ranks[mode] = rank if meth_ok else None
        ctx.expect(ok, 'ALG-16', inst + ': requested aperture', where(plot, apdef[0][1] if apdef else mode_if), '%s * 10**sc * 1000 AU, %d curve(s) per fit: %s' % (want_sel[mode][0], 0, curves[mode]) if False else
                   '%s * 10**sc * 1000 AU -> %s(); curves per fit: %s' % (want_sel[mode][0], want_sel[mode][1], curves[mode]), detail or 'mode body not recognised', 'mode-aperture')
    # colour kinds from the module-level table
    kinds = {}
    for st in pm.tree.body:
        if isinstance(st, ast.Assign) and isinstance(st.targets[0], ast.Subscript) and up(st.targets[0].value) == 'color':
            k = const(st.targets[0].slice)
            kinds[k] = 'list' if isinstance(st.value, ast.List) else 'rgb'
    # colour type per (mode, best?) and what is appended per flux rank
    ct_if = None
    for n_ in walk_local(lp):
        if isinstance(n_, ast.If) and any(isinstance(t, ast.Name) and const(v) in ('black', 'gray', 'full', 'faded') for s_ in n_.body + n_.orelse for t, v, s3 in stores(s_)):
            ct_name = [t.id for s_ in n_.body + n_.orelse for t, v, s3 in stores(s_) if isinstance(t, ast.Name) and const(v) in ('black', 'gray', 'full', 'faded')][0]
            ct_if = n_
            break
    rank_if = None
    for n_ in walk_local(lp):
        if isinstance(n_, ast.If) and re.match(r'^(\w+)\.ndim(>1|==2|>=2)$', up(n_.test).replace(' ', '')) and re.match(r'^(\w+)\.', up(n_.test)).group(1) in (flux_names or {'flux'}):
            rank_if = n_
    if ct_if is None or rank_if is None:
        raise AnalysisError('plot(): colour selection not found')
    appends = [c for c in calls(rank_if) if isinstance(c.func, ast.Attribute) and c.func.attr == 'append' and isinstance(c.func.value, ast.Name)]
    colors_name = ([c.func.value.id for c in appends if 'color' in up(c.args[0])] or ['colors'])[0]
    lines_name = ([c.func.value.id for c in appends if 'column_stack' in up(c.args[0])] or ['lines'])[0]
    for mode in MODES:
        for best in (True, False):
            inst = 'display mode %r, %s fit: colour entry matches the flux rank' % (mode, 'best' if best else 'other')
            I = Interp(repo)
            info = Obj(repo.cls('fit_info', 'FitInfo'), {'chi2': symarr('chi2', ('r',))})
            info.attrs['n_fits'] = 3
            env = {'__module__': pm, 'plot_mode': 'A', 'sed_type': mode, i: 0 if best else 1, rec: info}
            I.stmt(ct_if, env, pm)
            ct = env.get(ct_name)
            rank = ranks.get(mode)
            if not isinstance(ct, str) or rank is None:
                ctx.undecided('FLAG', inst, where(plot, ct_if), 'colour type %r, rank %r' % (ct, rank))
                continue
            kind = kinds.get(ct)
            # which append executes for this rank, and does it index the colour entry?
            body = rank_if.body if rank > 1 else rank_if.orelse
            env2 = {'__module__': pm, ct_name: ct, colors_name: [], lines_name: [], 'color': {k: ('RGB',) if v == 'rgb' else GenList(None, ('RGB',)) for k, v in kinds.items()},
                    's': Obj(None, {'wav': symarr('wav', (N,))})}
            for fn_ in (flux_names or {'flux'}):
                env2[fn_] = symarr('fl', (N, 'd') if rank > 1 else (N,))
            I2 = Interp(repo)
            I2.block(body, env2, pm)
            cols = env2.get(colors_name)
            good = isinstance(cols, list) and len(cols) >= 1 and all(c == ('RGB',) for c in cols)
            ctx.expect(good, 'FLAG', inst, where(plot, rank_if), 'colour type %r (%s) with a %d-D flux appends one RGB per curve' % (ct, kind, rank),
                       'colour type %r is a %s but the %d-D branch appends %r (a single RGB indexed per aperture, or a list used as one colour)' % (ct, kind, rank, cols), 'colour-kind')
    ctx.exhaustive = True
    # ---- returned line collection
    lc = [c for c in calls(plot.node) if (chain(c.func) or '') == 'LineCollection']
    fig_store = [(t, st) for t, v, st in stores(plot.node) if isinstance(t, ast.Subscript) and ('LineCollection(%s' % lines_name) in up(v)]
    fig_name = up(fig_store[0][0].value) if fig_store else 'figures'
    fig_store = [st for t, st in fig_store]
    rets = [n_ for n_ in walk_local(plot.node) if isinstance(n_, ast.Return) and up(n_.value) == fig_name]
    ctx.expect(bool(fig_store) and bool(rets) and all(up(c.args[0]) == lines_name for c in lc), 'CFG-13', 'the lines drawn are what is returned', where(plot, fig_store[0] if fig_store else None),
               "figures[name]['lines'] = LineCollection(lines, colors=colors); return figures", 'the returned figures do not carry the LineCollection of the plotted lines', 'returned-lines')
    app = [c for c in calls(lp) if up(c.func) == '%s.append' % lines_name]
    ctx.expect(len(app) >= 2 and all('.wav' in up(c) and any(f_ in up(c) for f_ in (flux_names or {'flux'})) for c in app), 'CFG-13', 'each curve is (wavelength, interpolated flux) of the scaled SED', where(plot, app[0] if app else lp),
               '%d append sites: column_stack([s.wav, flux...])' % len(app), 'lines appended: %s' % [up(c)[:70] for c in app], 'line-content')


PL = 'sedfitter/plot.py'
SE = 'sedfitter/sed/sed.py'
MUST_FIRE = [
    ('10**sc -> sc', [(PL, "s = s.scale_to_distance(10. ** info.sc[i] * KPC)", "s = s.scale_to_distance(info.sc[i] * KPC)")]),
    ('KPC dropped', [(PL, "s = s.scale_to_distance(10. ** info.sc[i] * KPC)", "s = s.scale_to_distance(10. ** info.sc[i])")]),
    ('av sign', [(SE, "sed.flux = sed.flux * 10. ** (av * law(sed.wav))", "sed.flux = sed.flux * 10. ** (-av * law(sed.wav))")]),
    ('1000 -> 100', [(PL, "apertures = ap * 10. ** info.sc[i] * 1000.", "apertures = ap * 10. ** info.sc[i] * 100.")]),
    ('loop ascending', [(PL, "for i in range(info.n_fits - 1, -1, -1):", "for i in range(info.n_fits):")]),
    ('model_name[0]', [(PL, "s = sed_cube.get_sed(info.model_name[i])", "s = sed_cube.get_sed(info.model_name[0])")]),
    ('law replaced', [(PL, "s = s.scale_to_av(info.av[i], info.meta.extinction_law.get_av)", "s = s.scale_to_av(info.av[i], lambda w: -0.4 * np.ones(len(w)))")]),
    ('colour indexing reverted (D18)', [(PL, "                    if color_type in ('full', 'faded'):\n                        colors.append(color[color_type][j])\n                    else:\n                        colors.append(color[color_type])", "                    colors.append(color[color_type][j])")]),
    ('distance not squared', [(SE, "sed.flux = sed.flux * (self.distance.to(u.cm) / sed.distance) ** 2", "sed.flux = sed.flux * (self.distance.to(u.cm) / sed.distance)")]),
    ('error not rescaled', [(SE, "        sed.error = sed.error * (self.distance.to(u.cm) / sed.distance) ** 2\n", "")]),
    ('av of the best fit for every curve', [(PL, "s = s.scale_to_av(info.av[i], info.meta.extinction_law.get_av)", "s = s.scale_to_av(info.av[0], info.meta.extinction_law.get_av)")]),
    ('largest mode uses the smallest aperture', [(PL, "apertures = np.array([ap.max()]) * 10. ** info.sc[i] * 1000.", "apertures = np.array([ap.min()]) * 10. ** info.sc[i] * 1000.")]),
    ('KPC in metres', [(PL, "KPC = 3.086e21", "KPC = 3.086e19")]),
    ('scale_to_distance in place', [(SE, "        sed = self.copy()\n        sed.distance = distance * u.cm", "        sed = self\n        sed.distance = distance * u.cm")]),
    ('all mode interpolates variable', [(PL, "                apertures = unique_ap * 10. ** info.sc[i] * 1000.\n                flux = s.interpolate(apertures)", "                apertures = unique_ap * 10. ** info.sc[i] * 1000.\n                flux = s.interpolate_variable(wav, apertures)")]),
    ('returned collection built from another list', [(PL, "'lines': LineCollection(lines, colors=colors)}", "'lines': LineCollection(lines[:1], colors=colors)}")]),
]
MUST_SILENT = [
    ('filters\' apertures read before their wavelengths', [(PL, "    wav = np.array([f['wav'].to(u.micron).value for f in fin.meta.filters])\n    ap = np.array([f['aperture_arcsec'] for f in fin.meta.filters])\n", "    ap = np.array([f['aperture_arcsec'] for f in fin.meta.filters])\n    wav = np.array([f['wav'].to(u.micron).value for f in fin.meta.filters])\n")]),
    ('curves of one fit built in a helper and appended with extend', [(PL, "                lines.append(np.column_stack([_to_value(s.wav), _to_value(flux)]))\n                colors.append(color[color_type])\n", "                one_line, one_color = [np.column_stack([_to_value(s.wav), _to_value(flux)])], [color[color_type]]\n                lines.extend(one_line)\n                colors.extend(one_color)\n")]),
    ('reddening factor via a temporary', [(SE, "        sed.flux = sed.flux * 10. ** (av * law(sed.wav))\n        sed.error = sed.error * 10. ** (av * law(sed.wav))", "        factor = 10. ** (law(sed.wav) * av)\n        sed.flux = factor * sed.flux\n        sed.error = factor * sed.error")]),
    ('distance ratio squared as product', [(SE, "sed.error = sed.error * (self.distance.to(u.cm) / sed.distance) ** 2", "ratio = self.distance.to(u.cm) / sed.distance\n        sed.error = sed.error * ratio * ratio")]),
]


def thorough(ctx):
    from .. import selftest
    selftest.run(ctx, MUST_FIRE, MUST_SILENT)
