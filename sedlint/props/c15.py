"""C15 Flux unit conversions are mutually consistent and invertible."""
import ast
import itertools

from .. import alg
from ..alg import Poly, P, B, C, sym, mk_fn
from ..interp import Interp, Hooks, Arr, Obj, Unk, symarr, scalar, num, unit_atom
from ..fitmodel import loc, compare
from ..rules import where
from ..astutil import up, walk_local, stores, chain, const, calls, kw
from ..loader import AnalysisError
from . import common

A_, N_ = 'a', 'n'
EXPLANATION = (
    "Finite-domain specialisation of convert_flux over the unit families {luminosity (erg/s), F_nu (Jy, mJy), flux (erg/cm^2/s, W/m^2), other} for both the "
    "stored and the requested unit (exhaustive, 5 x 5 units): (ALG-15) the physical value returned is X * s1[A] * s2[B] with s1 = {L: 1/d^2, F_nu: nu, F: 1} and "
    "s2 = {L: d^2, F_nu: 1/nu, F: 1}, an unsupported unit on either side raises, and the result is tagged with the requested unit; hence F = nu*F_nu, L = F*d^2, "
    "A->B->A is the identity and A->B->C equals A->C (checked as substitution identities on the code's own terms). SED.read converts flux and error with the "
    "same call, passing the file's own frequency column and the SED's distance, before any reversal. (API-2) unit strings are parsed by a call the installed "
    "astropy accepts; (ALG-15m) the legacy unit-string map sends each name to a unit of the right dimension and scale.")
NOT_DECIDED = ["astropy's is_equivalent / .to arithmetic (library)"]
ASSUMPTIONS = ["a Quantity is modelled as its physical value (value x unit atoms); .to(unit) does not change the physical value"]
TRUSTED = ["python ast", "sedlint E4/E5", "dimension table of the 20 unit names the repo uses"]
MIN = {'ALG-15': 30, 'ALG-15r': 42, 'API-2': 1, 'ALG-15m': 4}
TECHNIQUE = 'static analysis: finite-domain specialisation (unit families) of AST value numbering; substitution identities; literal-domain check of a library keyword'


def units():
    e, s, cm, m, W, Jy, mJy, Hz = (sym('unit:' + x) for x in ('erg', 's', 'cm', 'm', 'W', 'Jy', 'mJy', 'Hz'))
    return {'erg/s': ('L', e / s), 'Jy': ('Fnu', Jy), 'mJy': ('Fnu', mJy), 'erg/cm^2/s': ('F', e / cm.pow(2) / s), 'W/m^2': ('F', W / m.pow(2)), 'Hz': ('other', Hz)}


def run(ctx):
    check_conversions(ctx)
    repo = ctx.repo
    _run_rest(ctx)


def check_conversions(ctx):
    """(ALG-15) convert_flux between every pair of unit families, round trips and transitivity"""
    repo = ctx.repo
    cf = ctx.fn(repo.func('sed.helpers', 'convert_flux'))
    # a conversion returns the converted values and leaves what it was given as it was: a store into an argument changes the caller's array - which keeps the
    # element type the file was read with, and is converted a second time by the next call (effects.py: every store followed to its root)
    from ..effects import Effects
    try:
        summ = Effects(repo, {}).summary(cf)
        sites = [(p_, txt_) for p_, v_ in summ.mutates.items() for _, txt_ in v_]
        ctx.expect(not sites, 'EFF-1', 'convert_flux does not modify its arguments', loc(cf), '%d stores classified, none into a parameter' % len(summ.stores),
                   'writes into its argument%s %s: %s' % ('s' if len({p_ for p_, _ in sites}) > 1 else '', sorted({p_ for p_, _ in sites}), '; '.join(t_ for _, t_ in sites[:2])), 'mutates-argument')
    except AnalysisError as ex:
        ctx.undecided('EFF-1', 'convert_flux does not modify its arguments', loc(cf), 'effects not summarised: %s' % ex)
    U = units()
    X, nu, d = sym('X', A_, N_), sym('nu', N_), sym('dist')
    s1 = {'L': d.pow(-2), 'Fnu': nu, 'F': Poly.const(1)}
    s2 = {'L': d.pow(2), 'Fnu': nu.pow(-1), 'F': Poly.const(1)}
    results = {}
    for (an, (af, au)), (bn, (bf, bu)) in itertools.product(U.items(), U.items()):
        I = Interp(repo)
        out = I.call(cf, [symarr('nu', (N_,), unit=sym('unit:Hz')), symarr('X', (A_, N_), unit=au), Arr((), bu, unit=bu)], {'distance': scalar(d, sym('unit:Udist'))})
        inst = '%s -> %s' % (an, bn)
        if af == 'other' or bf == 'other':
            if isinstance(out, Unk) and 'raises' not in out.why:
                ctx.undecided('ALG-15', inst + ' refused', loc(cf), 'the call was not followed to its end: %s' % out.why)
                continue
            ctx.expect(isinstance(out, Unk) and 'raises' in out.why, 'ALG-15', inst + ' refused', loc(cf), 'unsupported unit raises', 'unsupported unit accepted: %r' % (out,), 'refusal')
            continue
        if isinstance(out, Unk) and 'raises' in out.why:
            ctx.violation('ALG-15', inst, loc(cf), 'a supported conversion is refused: %s' % out.why, 'supported-refused')
            continue
        okk = compare(ctx, 'ALG-15', inst, loc(cf), out, X * s1[af] * s2[bf], (A_, N_), vocab={'X', 'nu', 'dist'}, findings=I.findings,
                      detail_ok='value == X * %s * %s' % (alg.show(s1[af]), alg.show(s2[bf])))
        if okk:
            results[(an, bn)] = out
            ctx.expect(out.unit is not None and out.unit == bu, 'ALG-15', inst + ' result unit', loc(cf), 'result expressed in the requested unit',
                       'result tagged with %s' % (alg.show(out.unit) if out.unit is not None else None), 'result-unit')
    names = [n for n, (f, u) in U.items() if f != 'other']
    n_rt = n_tr = 0
    bad = []
    for a in names:
        for b in names:
            if (a, b) in results and (b, a) in results:
                back = alg.subst_sym(results[(b, a)].poly, {'X': lambda labs, p=results[(a, b)].poly: p})
                n_rt += 1
                if not alg.is_zero(back - X)[0]:
                    bad.append('%s->%s->%s' % (a, b, a))
            for c in names:
                if (a, b) in results and (b, c) in results and (a, c) in results:
                    via = alg.subst_sym(results[(b, c)].poly, {'X': lambda labs, p=results[(a, b)].poly: p})
                    n_tr += 1
                    if not alg.is_zero(via - results[(a, c)].poly)[0]:
                        bad.append('%s->%s->%s' % (a, b, c))
    if n_rt:
        ctx.expect(not bad, 'ALG-15', 'round trips and transitivity', loc(cf), '%d round trips A->B->A == identity, %d triples A->B->C == A->C' % (n_rt, n_tr),
                   'inconsistent conversions: %s' % bad[:5], 'consistency')
    ctx.exhaustive = True


def _run_rest(ctx):
    repo = ctx.repo
    # ---- SED.read wiring: decided on the file round trip (roundtrip.py): reading with a converted flux unit multiplies every cell by the frequency of the
    # *same* cell, whatever order the reader reverses and converts in; the syntactic wiring rule is the fall-back and may only say "undecided"
    from .. import roundtrip
    if not roundtrip.check_sed(ctx, 'ALG-15r', 'ALG-15r'):
        try:
            syntactic_read_wiring(roundtrip.SuspectCtx(ctx, 'the round trip was not decided by interpretation and the syntactic rule, which knows one spelling only, reports'))
        except AnalysisError as e:
            ctx.undecided('ALG-15r', 'SED.read wiring', loc(repo.func('sed.sed', 'SED.read')), 'structure not recognised: %s' % e)

    check_unit_strings(ctx)


def check_unit_strings(ctx):
    """parse_unit_safe interpreted on the legacy strings old files carry and on strings astropy reads itself"""
    repo = ctx.repo
    # ---- unit string parsing: parse_unit_safe interpreted on the legacy strings old files carry
    common.api_literal_rule(ctx, ['sed.helpers'], min_sites=1)
    from ..fitsem import FitsHooks
    pus = ctx.fn(repo.func('sed.helpers', 'parse_unit_safe'))
    expect = {'MICRONS': sym('unit:micron'), 'HZ': sym('unit:Hz'), 'MJY': sym('unit:mJy'), 'ergs/cm^2/s': sym('unit:erg') / sym('unit:cm').pow(2) / sym('unit:s')}
    for k, want_u in expect.items():
        I = Interp(repo, FitsHooks())
        v = I.call(pus, [k])
        if not isinstance(v, (Arr, Unk)):
            v = I._as_arr(v)
        compare(ctx, 'ALG-15m', 'parse_unit_safe(%r)' % k, loc(pus), v if isinstance(v, (Arr, Unk)) else Unk('parse_unit_safe(%r) gives %r' % (k, v)), want_u, (), vocab=set(),
                detail_ok='%s -> %s' % (k, alg.show(want_u)))


    # ... and on strings astropy reads itself, which keep their meaning (case matters: 'MJy' is megajansky, 'mJy' millijansky)
    plain = {'MJy': sym('unit:MJy'), 'mJy': sym('unit:mJy'), 'Jy': sym('unit:Jy'), 'Hz': sym('unit:Hz'), 'micron': sym('unit:micron'), 'um': sym('unit:micron'),
             'cm': sym('unit:cm'), 'au': sym('unit:au'), 'pc': sym('unit:pc')}
    for k, want_u in plain.items():
        I = Interp(repo, FitsHooks())
        v = I.call(pus, [k])
        if not isinstance(v, (Arr, Unk)):
            v = I._as_arr(v)
        compare(ctx, 'ALG-15m', 'parse_unit_safe(%r)' % k, loc(pus), v if isinstance(v, (Arr, Unk)) else Unk('parse_unit_safe(%r) gives %r' % (k, v)), want_u, (), vocab=set(),
                detail_ok='%s is the unit astropy reads from that string' % k)


def syntactic_read_wiring(ctx):
    repo = ctx.repo
    rd = ctx.fn(repo.func('sed.sed', 'SED.read'))
    cols = {}
    for t, v, st in stores(rd.node):
        if isinstance(t, ast.Name):
            fld = [const(c.args[0]) for c in calls(v) if up(c.func).endswith('.field') and c.args]
            if fld:
                cols[t.id] = fld[0]
    objs = [t.id for t, v, st in stores(rd.node) if isinstance(t, ast.Name) and isinstance(v, ast.Call) and chain(v.func) == rd.params[0] and not v.args]
    obj = objs[0] if objs else 'sed'
    ccalls = [(t, v, st) for t, v, st in stores(rd.node) if isinstance(v, ast.Call) and (chain(v.func) or '').endswith('convert_flux')]
    targets = {}
    for t, v, st in ccalls:
        if isinstance(t, ast.Attribute):
            targets[t.attr] = (v, st)
    rev = [st.lineno for t, v, st in stores(rd.node) if isinstance(v, ast.Subscript) and '::-1' in up(v)]
    first_rev = min(rev) if rev else 10 ** 9
    if not cols or 'FREQUENCY' not in cols.values():
        raise AnalysisError('SED.read: column locals not found')
    for attr, colname in (('flux', 'TOTAL_FLUX'), ('error', 'TOTAL_FLUX_ERR')):
        inst = 'SED.read converts %s' % attr
        if attr not in targets:
            ctx.violation('ALG-15r', inst, where(rd), '%s.%s is not produced by convert_flux' % (obj, attr), 'not-converted')
            continue
        v, st = targets[attr]
        a = v.args
        dist = kw(v, 'distance') if kw(v, 'distance') is not None else (a[3] if len(a) > 3 else None)
        tgt = kw(v, 'target_unit') if kw(v, 'target_unit') is not None else (a[2] if len(a) > 2 else None)
        nu_ok = len(a) >= 1 and ((isinstance(a[0], ast.Name) and cols.get(a[0].id) == 'FREQUENCY') or up(a[0]) == '%s.nu' % obj)
        fl_ok = len(a) >= 2 and isinstance(a[1], ast.Name) and cols.get(a[1].id) == colname
        okk = nu_ok and fl_ok and tgt is not None and up(tgt) == 'unit_flux' and dist is not None and up(dist) == '%s.distance' % obj and st.lineno < first_rev
        ctx.expect(okk, 'ALG-15r', inst, where(rd, v), 'convert_flux(<FREQUENCY column>, <%s column>, unit_flux, distance=%s.distance) before the reversal' % (colname, obj),
                   'called as %s (line %d, first reversal at %d; locals %s)' % (up(v), st.lineno, first_rev, cols), 'read-wiring')
    ctx.ok('ALG-15r', 'SED.read locals come from the matching columns', where(rd), '%s' % cols)



HE = 'sedfitter/sed/helpers.py'
SE = 'sedfitter/sed/sed.py'
MUST_FIRE = [
    ('L->F multiplies', [(HE, "flux = flux / distance ** 2", "flux = flux * distance ** 2")]),
    ('F_nu->F divides', [(HE, "        flux = flux * nu\n", "        flux = flux / nu\n")]),
    ('second stage removed for F_nu', [(HE, "    elif target_unit.is_equivalent(u.Jy):\n        flux = flux / nu\n", "    elif target_unit.is_equivalent(u.Jy):\n        pass\n")]),
    ('distance not squared', [(HE, "flux = flux * distance ** 2", "flux = flux * distance")]),
    ('error not converted', [(SE, "sed.error = convert_flux(nu, error, unit_flux, distance=sed.distance)", "sed.error = error")]),
    ('refusal branch removed', [(HE, "    elif not curr_unit.is_equivalent(u.erg / u.cm ** 2 / u.s):\n        raise Exception(\"Don't know how to convert {0} to ergs/cm^2/s\" % (flux.unit))\n", "")]),
    ('error converted from flux', [(SE, "sed.error = convert_flux(nu, error, unit_flux, distance=sed.distance)", "sed.error = convert_flux(nu, flux, unit_flux, distance=sed.distance)")]),
    ('families confused: Jy test uses erg/s', [(HE, "    elif curr_unit.is_equivalent(u.Jy):", "    elif curr_unit.is_equivalent(u.erg):")]),
    ('parse_strict=False (D2 reverted)', [(HE, "parse_strict='silent'", "parse_strict=False")]),
    ('MJY mapped to Jy', [(HE, "UNIT_MAPPING['MJY'] = u.mJy", "UNIT_MAPPING['MJY'] = u.Jy")]),
    ('result not converted to the target', [(HE, "    return flux.to(target_unit)", "    return flux")]),
    ('conversion after reversal with reversed nu', [(SE, "        sed.flux = convert_flux(nu, flux, unit_flux, distance=sed.distance)\n", "        sed.flux = convert_flux(nu[::-1], flux, unit_flux, distance=sed.distance)\n")]),
    ('fixed distance', [(SE, "sed.flux = convert_flux(nu, flux, unit_flux, distance=sed.distance)", "sed.flux = convert_flux(nu, flux, unit_flux, distance=1. * u.kpc)")]),
]
MUST_SILENT = [
    ('division spelled as power', [(HE, "flux = flux / distance ** 2", "flux = flux * distance ** -2")]),
    ('stage written with temporaries', [(HE, "        flux = flux * nu\n", "        scaled = nu * flux\n        flux = scaled\n")]),
]


def thorough(ctx):
    from .. import selftest
    selftest.run(ctx, MUST_FIRE, MUST_SILENT)
