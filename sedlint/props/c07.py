"""C07 Convolved-flux files keep model identity, identically in both package formats."""
import ast

from .. import alg, convmodel, fitsmodel, readers
from ..alg import Poly, P, B, C, sym, sum_over, mk_fn
from ..interp import Interp, Hooks, Arr, Obj, Unk, GenList, Pinned, symarr, scalar, num, unit_atom
from ..fitmodel import loc, compare
from ..astutil import up, walk_local, stores, chain, calls
from ..rules import where
from ..axes import declared_axes
from ..loader import AnalysisError
from . import c12

M, A = 'm', 'a'
EXPLANATION = (
    "(PERM-8) In both convolution drivers, value-numbered for a generic model/filter/aperture: row m of model_names is the name of the SED read in iteration m "
    "(per-file) or the cube's names (cube), and row m of flux and error is computed from that same SED's flux and error (cube: val and unc at the same aperture index); "
    "central_wavelength is the filter's and apertures the SED's/cube's. (CFG-5) per-file format: sort_to_match(parameter-table names) is applied to every ConvolvedFluxes "
    "before it is written; cube format: names are compared with the parameter table and a mismatch raises before anything is stored. (PERM-3/CFG-6) sort_to_match applies one "
    "index order = order_to_match(names, stripped requested names) to model_names, flux and error on the model axis, raises when names[order] differs from the request, and "
    "order_to_match(a, ref) == argsort(a)[argsort(argsort(ref))]. (AGREE-3) ConvolvedFluxes.write/read agree on HDUs, columns, units and FILTWAV. (AGREE-6/7) both drivers "
    "satisfy the same flux/error formulas, hence produce the same numbers from the same SEDs. (AXIS) cube/SED readers reverse on the spectral axis so both drivers convolve in "
    "increasing frequency. Models readers take names from the convolved file, stripped.")
NOT_DECIDED = ["memory-mapped (float32 buffer) vs in-memory (float64) fits agreeing - a numerical tolerance question",
               "directory listing order (covered only through sorted(glob) + sort_to_match)"]
ASSUMPTIONS = ["one generic model / filter / aperture stands for every iteration", "np.argsort returns a permutation"]
TRUSTED = ["python ast", "sedlint E4/E5"]
MIN = {'EFF-6': 2, 'PERM-8': 10, 'CFG-5': 2, 'PERM-3': 4, 'CFG-6': 1, 'AGREE-3': 10, 'AXIS': 60}
TECHNIQUE = 'static analysis: AST value numbering of both convolution drivers and of sort_to_match; writer/reader agreement tables; ordering rules on recorded call sequences'

VOCAB = {'sflux', 'serr', 'cubeval', 'cubeunc', 'R', 'sname', 'cnames', 'fcw', 'sap', 'cap', 'names', 'req', 'flux', 'err', 'pnames'}
FNS = {'argsort', 'at', 'strip', 'all'}


def check_drivers(ctx):
    repo = ctx.repo
    for v, single in ((1, False), (1, True), (2, False), (1, 'one')):
        fi, I, h, fh = convmodel.run_driver(repo, v, single)
        ctx.fn(fi)
        tag = 'driver %d%s' % (v, ' (package tabulated at one aperture)' if single == 'one' else ' (single aperture)' if single else '')
        where_ = loc(fi)
        fl = fh.get('fluxes')
        if I.findings:
            compare(ctx, 'PERM-8', tag, where_, Unk('x'), Poly(), findings=I.findings)
            continue
        if isinstance(fl, GenList) and getattr(fl, 'shared', False):
            ctx.violation('EFF-6', '%s: one table per filter' % tag, where_, 'the list of per-filter tables is one object repeated ([table] * n): every entry is the same table, so what is stored for one '
                          'filter is stored for all and every file holds the last filter\'s fluxes', 'one-object-repeated')
            continue
        if not isinstance(fl, GenList) or not isinstance(fl.elem, Obj):
            ctx.undecided('PERM-8', tag, where_, 'list of convolved fluxes not modelled')
            continue
        ref = convmodel.reference(v, single)
        e = fl.elem
        if single == 'one':
            # exactly one tabulated aperture: it is carried over like any other table of apertures (only an aperture-independent package has none);
            # names, fluxes and errors of this branch are the obligations of the single-aperture configuration above
            ap_ = e.attrs.get('_apertures')
            if ap_ is None:
                ctx.violation('PERM-8', tag + ': apertures', where_, 'a package tabulated at exactly one aperture gets convolved files without apertures (the cube format keeps them)', 'one-aperture-dropped')
            else:
                compare(ctx, 'PERM-8', tag + ': apertures', where_, ap_, sym('sap', A), (A,), vocab=VOCAB, fns=FNS, detail_ok='the single tabulated aperture is carried over')
            continue
        dims = (M, None) if single else (M, A)
        compare(ctx, 'PERM-8', tag + ': row m name', where_, e.attrs.get('_model_names'), ref['names'], (M,), vocab=VOCAB, fns=FNS,
                detail_ok='model_names[m] is the name of SED m' if v == 1 else 'model_names == the cube\'s names')
        compare(ctx, 'PERM-8', tag + ': row m flux', where_, e.attrs.get('_flux'), ref['flux'], dims, vocab=VOCAB, fns=FNS, detail_ok='flux[m, a] computed from the flux of SED m at aperture a')
        compare(ctx, 'PERM-8', tag + ': row m error', where_, e.attrs.get('_error'), ref['error'], dims, vocab=VOCAB, fns=FNS, detail_ok='error[m, a] computed from the error of SED m at aperture a')
        compare(ctx, 'PERM-8', tag + ': central wavelength', where_, e.attrs.get('_wavelength'), ref['cw'], (), vocab=VOCAB, fns=FNS, detail_ok='the filter\'s central wavelength')
        if not single:
            compare(ctx, 'PERM-8', tag + ': apertures', where_, e.attrs.get('_apertures'), sym('sap' if v == 1 else 'cap', A), (A,), vocab=VOCAB, fns=FNS, detail_ok='the SED / cube apertures')
        seq = [(c[0], c[1], c[2]) for c in h.calls if c[0] in ('sort_to_match', 'write')]
        # every filter's table reaches a file of its own under <package>/convolved/: the table handed to write() is the one filled above
        writes_ = [s_ for s_ in seq if s_[0] == 'write']
        if writes_ and any(s_[1] is e for s_ in writes_):
            ctx.ok('CFG-5', tag + ': each table is written', where_, 'write() is called on the table of each filter')
        elif I.lost:
            ctx.undecided('CFG-5', tag + ': each table is written', where_, 'no write of the filled table was met, but a call was not followed: %s' % (I.lost[0],))
        else:
            ctx.violation('CFG-5', tag + ': each table is written', where_, 'the table filled for a filter is never handed to write(): no convolved/<filter>.fits comes out', 'never-written')
        if v == 1 and not single:
            ok = len(seq) >= 2 and seq[0][0] == 'sort_to_match' and seq[1][0] == 'write' and seq[0][1] is seq[1][1] \
                and isinstance(seq[0][2][0], Arr) and seq[0][2][0].poly == sym('pnames', M)
            ctx.expect(ok, 'CFG-5', 'per-file format: sort_to_match before write', where_, 'sort_to_match(par_table[\'MODEL_NAME\']) then write, on the same object',
                       'call sequence on the convolved fluxes: %s' % [(s[0], [alg.show(a.poly, 40) if isinstance(a, Arr) else a for a in s[2]]) for s in seq], 'sort-before-write')
        if v == 2:
            # a guard whose precondition is "the parameter-table names equal the cube names, element by element", passed before the first write
            # (order of events in the interpretation, not line numbers: the writing may live in a helper defined anywhere)
            want = mk_fn('all', B(M, alg.eq(sym('pnames', M), sym('cnames', M))))
            pos = None
            for k_, g in enumerate(I.assumed):
                if g[4] == 'raise-guard' and len(g) > 5 and isinstance(g[5], Arr) and g[5].ndim == 0:
                    pre = g[5].poly if g[3] else alg.b_not(g[5].poly)
                    if alg.is_zero(pre - want)[0]:
                        pos = k_
                        break
            first_write = min([c[4] for c in h.calls if c[0] == 'write'] or [10 ** 9])
            ctx.expect(pos is not None and pos < first_write, 'CFG-5', 'cube format: names compared with the parameter table first', where_,
                       'raises when par_table names differ from the cube names, before any file is written', 'no names check before writing', 'names-check')


class SortHooks(Hooks):
    def opaque(self, interp, fi, args, kwargs, node):
        if fi.name in ('validate_array', 'validate_scalar'):
            return args[1] if len(args) > 1 else kwargs.get('value')
        return NotImplemented


def check_sort_to_match(ctx):
    repo = ctx.repo
    st = ctx.fn(repo.func('convolved_fluxes.convolved_fluxes', 'ConvolvedFluxes.sort_to_match'))
    otm = ctx.fn(repo.func('utils.misc', 'order_to_match'))
    I = Interp(repo)
    out = I.call(otm, [symarr('names', (M,)), symarr('req', (M,))])
    a_ = alg.array_fn('argsort', M, sym('names', M))
    rr = alg.array_fn('argsort', M, alg.array_fn('argsort', M, sym('req', M)))
    compare(ctx, 'PERM-3', 'order_to_match', loc(otm), out, mk_fn('at', B(M, a_), P(rr)), (M,), vocab=VOCAB, fns=FNS, findings=I.findings,
            detail_ok='argsort(array)[argsort(argsort(reference))]')
    I = Interp(repo, SortHooks())
    me = Obj(repo.cls('convolved_fluxes.convolved_fluxes', 'ConvolvedFluxes'), {'_model_names': symarr('names', (M,)), '_flux': symarr('flux', (M, A), unit=unit_atom('mJy')),
                                                                               '_error': symarr('err', (M, A), unit=unit_atom('mJy')), '_apertures': symarr('cap', (A,), unit=unit_atom('au'))})
    I.call(st, [symarr('req', (M,))], selfv=me)
    req = mk_fn('strip', P(sym('req', M)))
    order = mk_fn('at', B(M, a_), P(alg.array_fn('argsort', M, alg.array_fn('argsort', M, req))))
    for attr, base, dims in (('_model_names', sym('names', M), (M,)), ('_flux', sym('flux', M, A), (M, A)), ('_error', sym('err', M, A), (M, A))):
        compare(ctx, 'PERM-3', 'sort_to_match: %s' % attr.lstrip('_'), loc(st), me.attrs.get(attr), mk_fn('at', B(M, base), P(order)), dims, vocab=VOCAB, fns=FNS, findings=I.findings,
                detail_ok='%s[order] on the model axis, order = order_to_match(names, strip(requested))' % attr.lstrip('_'))
    from ..fitmodel import guard_requires
    sorted_names = mk_fn('at', B(M, sym('names', M)), P(order))
    okg, seen = guard_requires(I, [mk_fn('all', B(M, alg.eq(sorted_names, r_))) for r_ in (req, sym('req', M))])
    ctx.expect(okg, 'CFG-6', 'sort_to_match post-check', loc(st), 'raises unless names[order] equal the requested names, element by element', 'no raising check that the re-ordered names match the request (guards: %s)' % seen, 'post-check')


def check_shared_buffers(ctx):
    """(EFF-6) The per-filter tables are separate records: an array handed to every ConvolvedFluxes(...) of a driver (the setters keep the reference) is shared by
    all of them, so no method the driver calls on one table may rewrite that array's contents in place - the second table would be re-ordered by the first one's sort."""
    from ..effects import Effects
    from ..interp import setter_private_attr
    repo = ctx.repo
    ci = repo.cls('convolved_fluxes.convolved_fluxes', 'ConvolvedFluxes')
    init = repo.find_member(ci, '__init__')[1]
    eff = Effects(repo)
    # constructor parameter -> private field it ends up in
    field_of = {}
    for t, v, st in stores(init.node):
        if isinstance(t, ast.Attribute) and isinstance(t.value, ast.Name) and t.value.id == init.params[0] and isinstance(v, ast.Name) and v.id in init.params:
            setter = repo.find_setter(ci, t.attr)
            field_of.setdefault(v.id, set()).add((setter_private_attr(setter) if setter is not None else None) or t.attr)
    for q in ('_convolve_model_dir_1', '_convolve_model_dir_2'):
        fi = ctx.fn(repo.func('convolve.convolve', q))
        shared = {}          # private field -> source text
        nctor = 0
        for n in walk_local(fi.node):
            if not isinstance(n, (ast.ListComp, ast.For)):
                continue
            inner_names = {x.id for g in (n.generators if isinstance(n, ast.ListComp) else [n]) for x in ast.walk(g.target) if isinstance(x, ast.Name)}
            for c in ast.walk(n):
                if isinstance(c, ast.Call) and (chain(c.func) or '').split('.')[-1] == ci.name:
                    nctor += 1
                    bound = dict(zip(init.params[1:], c.args))
                    bound.update({k.arg: k.value for k in c.keywords if k.arg})
                    for pn, e in bound.items():
                        if isinstance(e, (ast.Name, ast.Attribute)) and not ({x.id for x in ast.walk(e) if isinstance(x, ast.Name)} & inner_names):
                            for f in field_of.get(pn, ()):
                                shared[f] = up(e)
        if not nctor:
            ctx.undecided('EFF-6', '%s: per-filter tables' % q, loc(fi), 'construction of the per-filter ConvolvedFluxes not found')
            continue
        bad = []
        called = set()
        for c in calls(fi.node):
            if isinstance(c.func, ast.Attribute):
                m = repo.find_member(ci, c.func.attr)
                if m is not None and m[0] == 'method' and c.func.attr not in called:
                    called.add(c.func.attr)
                    sm = eff.summary(m[1])
                    for f, sites in sm.deep.get(m[1].params[0], {}).items():
                        if f in shared or f == '*':
                            bad.append('%s() rewrites %s in place (%s), and every table of this driver holds the same array %s' % (c.func.attr, f, sites[0][1], shared.get(f, '')))
        ctx.expect(not bad, 'EFF-6', '%s: arrays shared by the per-filter tables are not rewritten in place' % q, loc(fi),
                   'shared %s; methods called %s rewrite none of them in place' % (sorted(shared), sorted(called)), '; '.join(bad[:2]), 'shared-buffer')


def run(ctx):
    repo = ctx.repo
    check_drivers(ctx)
    check_sort_to_match(ctx)
    check_shared_buffers(ctx)
    # files: written and read back unchanged, spectral arrays reversed together (decided by interpreting writer and reader, roundtrip.py);
    # the syntactic tables are a fall-back that may only say "undecided"
    from .. import roundtrip
    d_conv = roundtrip.check_conv(ctx, 'AGREE-3')
    d_sed = roundtrip.check_sed(ctx, 'AXIS', 'AXIS')
    d_cube = roundtrip.check_cube(ctx, 'AXIS', 'AXIS')
    if not (d_conv and d_sed and d_cube):
        sus = roundtrip.SuspectCtx(ctx, 'the round trip was not decided by interpretation and the syntactic rule, which knows one spelling only, reports')
        try:
            if not d_conv:
                fw, fr = repo.func('convolved_fluxes.convolved_fluxes', 'ConvolvedFluxes.write'), repo.func('convolved_fluxes.convolved_fluxes', 'ConvolvedFluxes.read')
                fitsmodel.check_pair(sus, 'AGREE-3', fw, fr, {k: k for k in ('central_wavelength', 'apertures', 'model_names', 'flux', 'error')}, where, [('central_wavelength', 'FILTWAV')])
            sed_axes, _ = declared_axes(repo, repo.cls('sed.sed', 'SED'))
            cube_axes, _ = declared_axes(repo, repo.cls('sed.cube', 'SEDCube'))
            sr, cr = repo.func('sed.sed', 'SED.read'), repo.func('sed.cube', 'BaseCube.read')
            if not d_sed:
                c12.check_reversal(sus, 'AXIS', ctx.fn(sr), fitsmodel.Reader(sr).obj, sed_axes, ['wav', 'nu', 'flux', 'error'])
            if not d_cube:
                c12.check_reversal(sus, 'AXIS', ctx.fn(cr), fitsmodel.Reader(cr).obj, cube_axes, ['wav', 'val', 'unc'])
        except AnalysisError as e:
            ctx.undecided('AXIS', 'syntactic fall-back', 'sedfitter/sed', 'structure not recognised: %s' % e)
    # names threaded into Models
    for version in (1, 2):
        fi, I, h, m = readers.run_reader(repo, version)
        ctx.fn(fi)
        compare(ctx, 'PERM-8', 'Models (reader v%d) names' % version, loc(fi), m.attrs.get('names') if isinstance(m, Obj) else Unk('reader'), mk_fn('strip', P(sym('cnames', M))), (M,),
                vocab=VOCAB | {'cnames'}, fns=FNS, detail_ok='Models.names == strip(model names of the convolved file), same row order as the fluxes')


CV = 'sedfitter/convolve/convolve.py'
CF = 'sedfitter/convolved_fluxes/convolved_fluxes.py'
MI = 'sedfitter/utils/misc.py'
CU = 'sedfitter/sed/cube.py'
MUST_FIRE = [
    ('a package tabulated at exactly one aperture loses it (apertures kept only when there are several)', [('sedfitter/convolve/convolve.py', "    apertures = first_sed.apertures\n", "    apertures = first_sed.apertures if n_ap > 1 else None\n")]),
    ('one name array shared by all filters and sorted in place', [(CV, "    fluxes = [ConvolvedFluxes(model_names=np.zeros(len(sed_files), dtype='U30'), apertures=apertures, initialize_arrays=True) for i in range(len(filters))]", "    model_names = np.zeros(len(sed_files), dtype='U30')\n    fluxes = [ConvolvedFluxes(model_names=model_names, apertures=apertures, initialize_arrays=True) for i in range(len(filters))]"), ('sedfitter/convolved_fluxes/convolved_fluxes.py', "        self.model_names = self.model_names[order]\n        self.flux = self.flux[order, :]\n        self.error = self.error[order, :]", "        self.model_names[:] = self.model_names[order]\n        self.flux[:] = self.flux[order, :]\n        self.error[:] = self.error[order, :]")]),
    ('D20 reverted: cube flux multiplied by the unit factor and converted again on assignment', [(CV, "np.sum(sed_val * response, axis=1).to(u.mJy)", "np.sum(sed_val * response, axis=1) * sed_cube.val.unit.to(u.mJy)")]),
    ('cube error multiplied by the unit factor and converted again', [(CV, "np.sqrt(np.sum((sed_unc * response) ** 2, axis=1)).to(u.mJy)", "np.sqrt(np.sum((sed_unc * response) ** 2, axis=1)) * sed_cube.unc.unit.to(u.mJy)")]),
    ('model_names[0] = s.name', [(CV, "fluxes[i].model_names[im] = s.name", "fluxes[i].model_names[0] = s.name")]),
    ('sort_to_match removed', [(CV, "        fluxes[i].sort_to_match(par_table['MODEL_NAME'])\n", "")]),
    ('order applied to flux only', [(CF, "        self.error = self.error[order, :]\n", "")]),
    ('names check removed in the cube driver', [(CV, "    if not np.all(par_table['MODEL_NAME'] == sed_cube.names):\n        raise ValueError(\"Model names in SED cube and parameter file do not match\")\n", "")]),
    ('error from val', [(CV, "sed_unc = sed_cube.unc[:, i_ap, :]", "sed_unc = sed_cube.val[:, i_ap, :]")]),
    ('FILTWAV in nm', [(CF, "hdu0.header['FILTWAV'] = self.central_wavelength.to(u.micron).value", "hdu0.header['FILTWAV'] = self.central_wavelength.to(u.nm).value")]),
    ('reader takes TOTAL_FLUX for the error', [(CF, "conv.error = tc['TOTAL_FLUX_ERR'].data * tc['TOTAL_FLUX_ERR'].unit", "conv.error = tc['TOTAL_FLUX'].data * tc['TOTAL_FLUX_ERR'].unit")]),
    ('i_ap used on the model axis', [(CV, "sed_val = sed_cube.val[:, i_ap, :]", "sed_val = sed_cube.val[i_ap, :, :]")]),
    ('order_to_match forgets the inner argsort', [(MI, "return np.argsort(array)[np.argsort(np.argsort(reference))]", "return np.argsort(array)[np.argsort(reference)]")]),
    ('sort written after write', [(CV, "        fluxes[i].sort_to_match(par_table['MODEL_NAME'])\n        fluxes[i].write(model_dir + '/convolved/' + f.name + '.fits',\n                        overwrite=overwrite)\n",
                                       "        fluxes[i].write(model_dir + '/convolved/' + f.name + '.fits',\n                        overwrite=overwrite)\n        fluxes[i].sort_to_match(par_table['MODEL_NAME'])\n")]),
    ('post-check removed', [(CF, "        if not np.all(self.model_names[order] == requested_model_names):\n            raise Exception(\"Sorting failed\")\n", "")]),
    ('flux permuted by a different order', [(CF, "self.flux = self.flux[order, :]", "self.flux = self.flux[np.argsort(order), :]")]),
    ('sorted by the directory names', [(CV, "fluxes[i].sort_to_match(par_table['MODEL_NAME'])", "fluxes[i].sort_to_match(fluxes[i].model_names)")]),
    ('cube error unit factor from val', [(CV, "fluxes[i].error[:, i_ap] = np.sqrt(np.sum((sed_unc * response) ** 2, axis=1)).to(u.mJy)", "fluxes[i].error[:, i_ap] = np.sqrt(np.sum((sed_unc * response), axis=1)).to(u.mJy)")]),
    ('cube reversal on the aperture axis', [(CU, "cube.val = cube.val[:, :, ::-1]", "cube.val = cube.val[:, ::-1, :]")]),
    ('central wavelength of the first filter', [(CV, "            fluxes[i].central_wavelength = f.central_wavelength\n            fluxes[i].apertures = apertures", "            fluxes[i].central_wavelength = filters[0].central_wavelength\n            fluxes[i].apertures = apertures")]),
]
MUST_SILENT = [
    ('one name array shared by all filters, sort rebinding', [(CV, "    fluxes = [ConvolvedFluxes(model_names=np.zeros(len(sed_files), dtype='U30'), apertures=apertures, initialize_arrays=True) for i in range(len(filters))]", "    model_names = np.zeros(len(sed_files), dtype='U30')\n    fluxes = [ConvolvedFluxes(model_names=model_names, apertures=apertures, initialize_arrays=True) for i in range(len(filters))]")]),
    ('sort in place, arrays separate per filter', [('sedfitter/convolved_fluxes/convolved_fluxes.py', "        self.model_names = self.model_names[order]\n        self.flux = self.flux[order, :]\n        self.error = self.error[order, :]", "        self.model_names[:] = self.model_names[order]\n        self.flux[:] = self.flux[order, :]\n        self.error[:] = self.error[order, :]")]),
    ('cube flux converted by the assignment into the mJy array', [(CV, "np.sum(sed_val * response, axis=1).to(u.mJy)", "np.sum(sed_val * response, axis=1)")]),
    ('cube flux as bare values times the factor, unit re-attached', [(CV, "np.sum(sed_val * response, axis=1).to(u.mJy)", "np.sum(sed_val.value * response, axis=1) * sed_cube.val.unit.to(u.mJy) * u.mJy")]),
    ('order via a temporary', [(CF, "self.flux = self.flux[order, :]", "new_flux = self.flux[order, :]\n        self.flux = new_flux")]),
    ('flux without trailing slice', [(CF, "self.error = self.error[order, :]", "self.error = self.error[order]")]),
]


def thorough(ctx):
    from .. import selftest
    selftest.run(ctx, MUST_FIRE, MUST_SILENT)
