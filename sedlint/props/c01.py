"""C01 Best-fit A_V and scale are the constrained least-squares optimum."""
from fractions import Fraction

from .. import alg, fitmodel as fm
from ..alg import Poly, P, B, sym, sum_over, lt, mk_fn, Facts
from ..interp import Interp, Hooks, Arr, Obj, Unk, symarr, scalar, num, unit_atom, init_obj
from ..fitmodel import W, M, D, loc, compare
from ..loader import AnalysisError
from ..astutil import up

EXPLANATION = (
    "Formula identities decided for all inputs by value numbering to a polynomial normal form (no execution): "
    "(ALG-1) linear_regression returns (x1,x2) of shape (models,) satisfying both weighted normal equations with every "
    "reduction over the filter axis; (ALG-3) optimal_scaling == sum(d*p*w)/sum(p*p*w) over the last axis for 2-D and 3-D data; "
    "(ALG-4) chi_squared's contribution of a fitted point (flags 1,4) is (data-model)^2*weight; (ALG-6) in Models.fit (2-D branch) "
    "the residual handed to the kernels is log_flux - log_model_flux on flags 1-4, av = clamp(LR_av(R)), sc = LR_sc(R) re-solved by "
    "optimal_scaling(R - av*A; S) exactly where av was clamped, chi2 = CHI(valid, R, err, wt, av*A + sc*S), predicted = that model + "
    "log model flux, with the argument order at all three kernel call sites; (ALG-8) sc_law == -2 on every filter, av_law == "
    "extinction_law.get_av(models.wavelengths), Fitter.fit passes (av_law, sc_law, av_range[0], av_range[1]); log_fluxes_mJy == "
    "log10(F/mJy) where F != 0; (ALG-5) weights of flags 1 and 4 are 1/log_error^2. With weights >= 0 and a non-singular Gram matrix "
    "the normal equations characterise the unconstrained optimum and clamp + re-solve the box-constrained one (convex quadratic).")
NOT_DECIDED = ["floating-point conditioning of 1/det and the singular case", "np.sum is a mathematical sum; astropy Quantity arithmetic is transparent (library contracts)",
               "the convexity lemmas connecting normal equations / clamp+re-solve to optimality are stated, not machine-checked"]
ASSUMPTIONS = ["lo <= hi (A_V range)", "<= and < identified for real comparisons (no exact ties)", "remove_resolved off (extended == [])",
               "model fluxes non-zero (strictly positive grid)"]
TRUSTED = ["python ast", "sedlint E4 normal form (ring axioms, ln of monomials, Iverson idempotence, Shannon expansion)"]
MIN = {'ALG-1': 2, 'ALG-3': 2, 'ALG-4': 2, 'ALG-6': 8, 'ALG-8': 5, 'ALG-5': 2, 'ALG-9': 6, 'EFF-4': 1}
TECHNIQUE = 'static analysis: AST value numbering of array expressions to a polynomial normal form, compared with the statement\'s formulas'

VOCAB = {'R', 'wt', 'A', 'S', 'F', 'L', 'err', 'valid', 'lo', 'hi', 'names', 'logd', 'data', 'model', 'conf', 'Fs', 'Es'}


def check_kernels(ctx):
    repo = ctx.repo
    k = fm.kernel_funcs(repo)
    lr, osf, chi = ctx.fn(k['linear_regression']), ctx.fn(k['optimal_scaling']), ctx.fn(k['chi_squared'])
    R, wt, A, S = sym('R', M, W), sym('wt', W), sym('A', W), sym('S', W)
    I, out = fm.run_kernel(repo, 'linear_regression', [symarr('R', (M, W)), symarr('wt', (W,)), symarr('A', (W,)), symarr('S', (W,))])
    if not (isinstance(out, tuple) and len(out) == 2 and all(isinstance(x, Arr) for x in out)):
        if I.findings:
            compare(ctx, 'ALG-1', 'normal equations', loc(lr), Unk('x'), Poly(), findings=I.findings)
        else:
            ctx.undecided('ALG-1', 'normal equations', loc(lr), 'result not modelled: %r' % (out,))
    else:
        x1, x2 = out
        for nm, lhs, rhs in (('normal equation for pattern1', sum_over(A * A * wt, W) * x1.poly + sum_over(A * S * wt, W) * x2.poly, sum_over(R * A * wt, W)),
                             ('normal equation for pattern2', sum_over(A * S * wt, W) * x1.poly + sum_over(S * S * wt, W) * x2.poly, sum_over(R * S * wt, W))):
            if x1.dims != (M,) or x2.dims != (M,):
                ctx.violation('ALG-1', nm, loc(lr), 'coefficients are indexed by %s/%s, expected one per model' % (x1.dims, x2.dims), 'axes')
                continue
            compare(ctx, 'ALG-1', nm, loc(lr), Arr((M,), lhs), rhs, (M,), vocab=VOCAB, findings=I.findings,
                    detail_ok='sum_w(p_i p_1 w) x1 + sum_w(p_i p_2 w) x2 == sum_w(data p_i w) as a rational identity')
    for dd in ((M, W), (M, D, W)):
        Rn = sym('R', *dd)
        I, out = fm.run_kernel(repo, 'optimal_scaling', [symarr('R', dd), symarr('wt', (W,)), symarr('A', (W,))])
        compare(ctx, 'ALG-3', 'optimal_scaling %d-D' % len(dd), loc(osf), out, sum_over(Rn * A * wt, W) / sum_over(A * A * wt, W), dd[:-1],
                vocab=VOCAB, findings=I.findings)
    for dd in ((M, W), (M, D, W)):
        data, model = sym('data', *dd), sym('model', *dd)
        for kflag in (1, 4):
            I, out = fm.run_kernel(repo, 'chi_squared', [Arr((W,), num(kflag)), symarr('data', dd), symarr('conf', (W,)), symarr('wt', (W,)), symarr('model', dd)])
            ref = sum_over(fm.inf_to((data - model).pow(2) * wt), W)
            compare(ctx, 'ALG-4', 'fitted point flag %d, %d-D' % (kflag, len(dd)), loc(chi), out, ref, dd[:-1], vocab=VOCAB, findings=I.findings,
                    detail_ok='contribution == (data-model)^2*weight (infinities mapped to 1e30), summed over filters')


def check_fit_2d(ctx):
    repo = ctx.repo
    fit = ctx.fn(repo.func('models', 'Models.fit'))
    I, h, info = fm.interpret_models_fit(repo, 2)
    facts = fm.clamp_facts()
    where = loc(fit)
    if I.findings:
        compare(ctx, 'ALG-6', 'Models.fit 2-D', where, Unk('x'), Poly(), findings=I.findings)
        return
    if h.presort is None:
        ctx.undecided('ALG-6', 'Models.fit 2-D sinks', where, 'FitInfo.sort() is not reached with the fit results (%r)' % (info,))
        return
    ctx.ok('CFG-sort', 'sort() reached on the return path', where, 'info.sort() called before the result is returned', nontrivial=False)
    calls = {c.name: c for c in h.kcalls}
    lrc = [c for c in h.kcalls if c.name == 'linear_regression']
    if len(lrc) != 1:
        ctx.undecided('ALG-6', 'linear_regression call site', where, '%d calls found' % len(lrc))
        return
    Rv = lrc[0].args['data']
    R = Rv.poly
    wt, A, S, F, L = sym('wt', W), sym('A', W), sym('S', W), sym('F', M, W), sym('L', W)
    # residual: log_flux - log model flux on every flag that can reach the fit or the penalties
    for k in (1, 2, 3, 4):
        compare(ctx, 'ALG-6', 'residual on flag %d' % k, loc(fit, lrc[0].where), Arr(Rv.dims, fm.specialise_flag(R, k)), L - F, (M, W), vocab=VOCAB,
                detail_ok='residual == log_flux - log_model_flux')
    ok = True
    for nm, want in (('weights', wt), ('pattern1', A), ('pattern2', S)):
        ok &= compare(ctx, 'ALG-6', 'linear_regression argument %s' % nm, loc(fit, lrc[0].where), lrc[0].args[nm], want, (W,), vocab=VOCAB,
                      detail_ok='%s is %s' % (nm, alg.show(want)))
    a0 = fm.kernel_atom_LR(R, wt, A, S)
    s0 = fm.kernel_atom_LR(R, wt, S, A)
    a = fm.clamp(a0)
    reset = lt(a0, sym('lo')) + lt(sym('hi'), a0)
    s = s0 + reset * (fm.kernel_atom_OS(R - a * A, wt, S) - s0)
    model = a * A + s * S
    ps = h.presort
    compare(ctx, 'ALG-6', 'info.av', where, ps.get('av'), a, (M,), facts, VOCAB, detail_ok='av == clamp(LR_av(R; wt; A, S), lo, hi)')
    compare(ctx, 'ALG-6', 'info.sc', where, ps.get('sc'), s, (M,), facts, VOCAB, detail_ok='sc == LR_sc(R) , re-solved as OS(R - av*A; wt; S) exactly where av was clamped')
    compare(ctx, 'ALG-6', 'info.chi2', where, ps.get('chi2'), fm.kernel_atom_CHI(sym('valid', W), R, sym('err', W), wt, model), (M,), facts, VOCAB,
            detail_ok='chi2 == CHI(valid, R, log_error, weight, av*A + sc*S) at the reported (av, sc)')
    compare(ctx, 'ALG-6', 'info.model_fluxes', where, ps.get('model_fluxes'), model + F, (M, W), facts, VOCAB, detail_ok='predicted == log model flux + av*A + sc*S')


class FitterHooks(Hooks):
    def __init__(self):
        self.fit_args = None

    def opaque(self, interp, fi, args, kwargs, node):
        q = fi.qual
        if fi.name in ('validate_array', 'validate_scalar'):
            return args[1] if len(args) > 1 else kwargs.get('value')
        if q.endswith(':Models.read'):
            return Obj(interp.repo.cls('models', 'Models'), {'_wavelengths': symarr('lam', (W,), unit=unit_atom('micron'))})
        if q.endswith(':Extinction.get_av'):
            x = args[1]
            if isinstance(x, Arr):
                return Arr(x.dims, mk_fn('get_av', P(x.poly)), unit=num(1))
            return Unk('get_av argument', node)
        if q.endswith(':Models.fit'):
            self.fit_args = (args, kwargs, fi)
            return Obj(interp.repo.cls('fit_info', 'FitInfo'), {'meta': Obj(None, {})})
        return NotImplemented


def check_fitter(ctx):
    repo = ctx.repo
    init = ctx.fn(repo.func('fit', 'Fitter.__init__'))
    fitm = ctx.fn(repo.func('fit', 'Fitter.fit'))
    h = FitterHooks()
    I = Interp(repo, h)
    me = Obj(repo.cls('fit', 'Fitter'))
    ext = Obj(repo.cls('extinction.extinction', 'Extinction'))
    I.call(init, [['f1'], symarr('theta', (W,), unit=unit_atom('arcsec')), 'dir'],
           {'extinction_law': ext, 'av_range': (scalar(sym('lo')), scalar(sym('hi'))), 'distance_range': symarr('drange', ('two',), unit=unit_atom('kpc'))}, selfv=me)
    lam = sym('lam', W)
    compare(ctx, 'ALG-8', 'av_law', loc(init), me.attrs.get('av_law'), mk_fn('get_av', P(lam)), (W,), vocab={'lam'}, fns={'get_av'},
            findings=I.findings, detail_ok='av_law == extinction_law.get_av(models.wavelengths)')
    compare(ctx, 'ALG-8', 'sc_law', loc(init), me.attrs.get('sc_law'), Poly.const(-2), (W,), vocab={'lam'}, fns={'get_av'},
            detail_ok='sc_law == -2 on every filter (flux ~ d^-2: one dex of scale is -2 dex of flux)')
    # the A_V range the fitter keeps is the range it was given (both bounds as numbers: 0 is a bound like any other)
    got_range = me.attrs.get('av_range')
    if isinstance(got_range, (tuple, list)) and len(got_range) == 2:
        for k_, nm_ in enumerate(('lo', 'hi')):
            compare(ctx, 'ALG-8', 'Fitter keeps the A_V range it is given: %s bound' % ('lower' if k_ == 0 else 'upper'), loc(init), I._as_arr(got_range[k_]), sym(nm_), (), vocab={'lo', 'hi'},
                    detail_ok='av_range[%d] as given' % k_)
    else:
        ctx.undecided('ALG-8', 'Fitter keeps the A_V range it is given', loc(init), 'av_range after construction not modelled: %r' % (got_range,))
    # Fitter.fit argument order
    me2 = Obj(repo.cls('fit', 'Fitter'), {'models': Obj(repo.cls('models', 'Models')), 'av_law': symarr('A', (W,)), 'sc_law': symarr('S', (W,)),
                                         'av_range': (scalar(sym('lo')), scalar(sym('hi'))), 'model_dir': 'dir', 'filters': [], 'extinction_law': ext})
    src = Obj(repo.cls('source.source', 'Source'))
    I2 = Interp(repo, h)
    I2.call(fitm, [src], selfv=me2)
    if h.fit_args is None:
        ctx.undecided('ALG-8', 'Fitter.fit -> Models.fit arguments', loc(fitm), 'call to Models.fit not found')
    else:
        args, kwargs, mf = h.fit_args
        bound = dict(zip(mf.params, args))
        bound.update(kwargs)
        want = {'av_law': sym('A', W), 'sc_law': sym('S', W), 'av_min': sym('lo'), 'av_max': sym('hi')}
        bad = []
        for k, v in want.items():
            got = bound.get(k)
            if not isinstance(got, Arr) or not (got.poly == v):
                bad.append('%s receives %s' % (k, alg.show(got.poly) if isinstance(got, Arr) else got))
        if bound.get('source') is not src:
            bad.append('source is not the argument of fit')
        ctx.expect(not bad, 'ALG-8', 'Fitter.fit -> Models.fit arguments', loc(fitm), 'Models.fit(source, av_law, sc_law, av_range[0], av_range[1])',
                   '; '.join(bad), 'argument-order')


class FilterDictHooks(FitterHooks):
    def __init__(self):
        FitterHooks.__init__(self)
        self.read_filters = None

    def opaque(self, interp, fi, args, kwargs, node):
        if fi.qual.endswith(':Models.read'):
            bound = dict(zip(fi.params, args))
            bound.update(kwargs)
            self.read_filters = bound.get('filters')
        return FitterHooks.opaque(self, interp, fi, args, kwargs, node)


def check_filter_dicts(ctx):
    """Fitter.__init__ -> the filter dictionaries handed to the readers: the aperture of filter w, whatever angular unit the caller used,
    is stored as a number of arcseconds (the readers multiply it by the distance in pc to get AU), next to the name / wavelength of the same filter."""
    from ..interp import GenList
    repo = ctx.repo
    init = ctx.fn(repo.func('fit', 'Fitter.__init__'))
    ext = Obj(repo.cls('extinction.extinction', 'Extinction'))
    for tag, names in (('named filters', GenList(W, 'FNAME')), ('wavelengths in place of names', GenList(W, Arr((), sym('fwav', W), unit=unit_atom('micron'))))):
        h = FilterDictHooks()
        I = Interp(repo, h)
        me = Obj(repo.cls('fit', 'Fitter'))
        I.call(init, [names, symarr('theta', (W,), unit=unit_atom('Uang')), 'dir'],
               {'extinction_law': ext, 'av_range': (scalar(sym('lo')), scalar(sym('hi'))), 'distance_range': symarr('drange', ('two',), unit=unit_atom('kpc'))}, selfv=me)
        fl = h.read_filters
        inst = 'filter dictionaries (%s)' % tag
        if isinstance(fl, GenList) and isinstance(fl.elem, dict):
            d = fl.elem
        elif isinstance(fl, list) and len(fl) == 1 and isinstance(fl[0], dict):
            d = fl[0]
        else:
            ctx.undecided('ALG-8', inst, loc(init), 'filters passed to Models.read not modelled: %r' % (fl,))
            continue
        compare(ctx, 'ALG-8', inst + ': aperture in arcsec', loc(init), d.get('aperture_arcsec'), sym('theta', W) * unit_atom('arcsec').pow(-1), (), vocab={'theta'}, findings=I.findings,
                detail_ok="filt['aperture_arcsec'] == aperture[w] / arcsec for an aperture given in any angular unit")
        if tag == 'named filters':
            ctx.expect(d.get('name') == 'FNAME', 'ALG-8', inst + ': name of the same filter', loc(init), "filt['name'] == filter_names[w]",
                       "filter dictionary holds name=%r wav=%r" % (d.get('name'), d.get('wav')), 'filter-name')
        else:
            compare(ctx, 'ALG-8', inst + ': wavelength of the same filter', loc(init), d.get('wav'), sym('fwav', W), (), vocab={'fwav'}, detail_ok="filt['wav'] == filter_names[w]")


class LogFluxHooks(Hooks):
    pass


def check_log_fluxes(ctx):
    repo = ctx.repo
    g = ctx.fn(repo.func('models', 'Models.log_fluxes_mJy@getter'))
    for dd in ((M, W), (M, D, W)):
        I = Interp(repo)
        # (the grid may be held in any flux unit the setter accepts: a symbolic one, so that the conversion to mJy is seen)
        me = init_obj(repo, repo.cls('models', 'Models'), {'_fluxes': symarr('Fm', dd, unit=unit_atom('Ugrid'))})
        out = I.call(g, [], selfv=me)
        Fm = sym('Fm', *dd)
        facts = Facts().assume_false(alg.eq(Fm, 0))
        compare(ctx, 'ALG-8', 'log_fluxes_mJy %d-D' % len(dd), loc(g), out, alg.log10(Fm / sym('unit:mJy')), dd, facts, {'Fm'}, findings=I.findings,
                detail_ok='log model flux == log10(flux / mJy) wherever the flux is non-zero')
        # a model that emits nothing in a band has no logarithm there: it is marked -infinity (its chi^2 is then infinite or undefined and it ranks last), never a finite number
        if isinstance(out, Arr) and out.mask is None:
            zero = Facts().assume_true(alg.eq(Fm, 0)).simplify(out.poly)
            natural = alg.log10(Fm / sym('unit:mJy'))          # the logarithm itself, left to IEEE arithmetic: log10(0) is -infinity
            if tuple(out.dims) == tuple(dd) and zero == natural:
                ctx.ok('ALG-8', 'log_fluxes_mJy %d-D where the model flux is zero' % len(dd), loc(g), 'the logarithm of the zero flux itself: -infinity in IEEE arithmetic')
            else:
                compare(ctx, 'ALG-8', 'log_fluxes_mJy %d-D where the model flux is zero' % len(dd), loc(g), Arr(out.dims, zero, None, out.unit), Poly() - sym('INF'), dd, None, {'Fm', 'INF'},
                        findings=I.findings, detail_ok='-infinity where the flux is zero')


def check_flag_weights(ctx):
    repo = ctx.repo
    glf, nd, rows = fm.flag_rows(repo)
    ctx.fn(glf)
    for k in (1, 4):
        out, n, fnd = rows[k]
        ref = fm.reference_flag_row(k)
        if not (isinstance(out, tuple) and len(out) == 3):
            ctx.undecided('ALG-5', 'flag %d weight' % k, loc(glf), 'get_log_fluxes result not modelled')
            continue
        compare(ctx, 'ALG-5', 'flag %d weight' % k, loc(glf), out[0], ref[0], (W,), vocab=VOCAB, findings=fnd, detail_ok='weight == 1/log_error^2')


def run(ctx):
    check_kernels(ctx)
    check_fit_2d(ctx)
    check_fitter(ctx)
    check_filter_dicts(ctx)
    check_log_fluxes(ctx)
    check_flag_weights(ctx)
    from . import c14
    c14.check_get_av(ctx)        # 'k is the extinction law normalised to -0.4 at V' (ALG-9, EFF-4)
    from . import c02
    c02.check_readers(ctx)       # 'log10 model flux': what the fit is given as model fluxes is the convolved flux in mJy, filter by filter (ALG-10)
    from . import c03
    c03.check_chi(ctx, c03.check_transform(ctx))          # 'plus the limit penalties evaluated at the same (A_V, scale)': chi_squared per flag, limits included
    c02.check_readers_two_filters(ctx)
    c02.check_readers_distance_independent(ctx)          # ... and for the packages the 2-parameter fit is made for: the flux as stored, no distance grid


# ---------------------------------------------------------------- self-validation corpus (thorough tier)
FR = 'sedfitter/fitting_routines.py'
MO = 'sedfitter/models.py'
FT = 'sedfitter/fit.py'
SO = 'sedfitter/source/source.py'

MUST_FIRE = [
    ('Fitter: aperture kept in the unit the caller used', [(FT, "filt = {'aperture_arcsec': apertures[i].to(u.arcsec).value}", "filt = {'aperture_arcsec': apertures[i].value}")]),
    ('Fitter: aperture stored in arcmin', [(FT, "filt = {'aperture_arcsec': apertures[i].to(u.arcsec).value}", "filt = {'aperture_arcsec': apertures[i].to(u.arcmin).value}")]),
    ('Fitter: every filter gets the first aperture', [(FT, "filt = {'aperture_arcsec': apertures[i].to(u.arcsec).value}", "filt = {'aperture_arcsec': apertures[0].to(u.arcsec).value}")]),
    ('log-flux buffer inherits the caller dtype', [(SO, "log_flux = np.zeros(self.flux.shape, dtype=np.float64)", "log_flux = np.zeros_like(self.flux)")]),
    ('weight buffer created as integers', [(SO, "weight = np.zeros(self.valid.shape, dtype=np.float64)", "weight = np.zeros(self.valid.shape, dtype=int)")]),
    ('LR: sign of m12*c2', [(FR, 'p1 = (m22 * c1 - m12 * c2) * inv_det', 'p1 = (m22 * c1 + m12 * c2) * inv_det')]),
    ('LR: det with + m12^2', [(FR, 'inv_det = 1. / (m11 * m22 - m12 * m12)', 'inv_det = 1. / (m11 * m22 + m12 * m12)')]),
    ('LR: c2 built from pattern1', [(FR, 'c2 = np.sum(data * pattern2 * weights, axis=1)', 'c2 = np.sum(data * pattern1 * weights, axis=1)')]),
    ('LR: axis=1 -> 0', [(FR, 'c1 = np.sum(data * pattern1 * weights, axis=1)', 'c1 = np.sum(data * pattern1 * weights, axis=0)')]),
    ('LR: weights dropped from m12', [(FR, 'm12 = np.sum(pattern1 * pattern2 * weights)', 'm12 = np.sum(pattern1 * pattern2)')]),
    ('LR: outputs swapped', [(FR, 'return p1, p2', 'return p2, p1')]),
    ('OS: weights dropped in denominator', [(FR, 'np.sum(pattern1 * pattern1 * weights)\n\n\ndef chi_squared', 'np.sum(pattern1 * pattern1)\n\n\ndef chi_squared')]),
    ('OS: axis 0', [(FR, 'axis=data.ndim - 1) /', 'axis=0) /')]),
    ('chi2: weight squared', [(FR, 'chi2_array = (data - model) ** 2 * weight', 'chi2_array = (data - model) ** 2 * weight ** 2')]),
    ('chi2: abs instead of square', [(FR, 'chi2_array = (data - model) ** 2 * weight', 'chi2_array = np.abs(data - model) * weight')]),
    ('fit: residual sign', [(MO, 'residual = log_flux - model_fluxes\n            av_best, sc_best', 'residual = model_fluxes - log_flux\n            av_best, sc_best')]),
    ('fit: kernel patterns swapped, outputs not', [(MO, 'f.linear_regression(residual, weight, av_law, sc_law)', 'f.linear_regression(residual, weight, sc_law, av_law)')]),
    ('fit: clamp low to av_max', [(MO, 'av_best[reset1] = av_min', 'av_best[reset1] = av_max')]),
    ('fit: reset = reset1 only', [(MO, 'reset = reset1 | reset2', 'reset = reset1')]),
    ('fit: re-solve with av_law', [(MO, 'av_law[np.newaxis, :], weight, sc_law)', 'av_law[np.newaxis, :], weight, av_law)')]),
    ('fit: re-solve does not subtract av*A', [(MO, 'f.optimal_scaling(residual[reset] - av_best[reset][:, np.newaxis] * av_law[np.newaxis, :], weight, sc_law)', 'f.optimal_scaling(residual[reset], weight, sc_law)')]),
    ('fit: chi2 of the wrong model', [(MO, 'ch_best = f.chi_squared(source.valid, residual, log_error, weight, model)\n\n            # Extract convolved model fluxes for best-fit\n            model_fluxes = model + model_fluxes',
                                       'ch_best = f.chi_squared(source.valid, residual, log_error, weight, model_fluxes)\n\n            # Extract convolved model fluxes for best-fit\n            model_fluxes = model + model_fluxes')]),
    ('fit: model without scale term', [(MO, 'model = av_best[:, np.newaxis] * av_law[np.newaxis, :] + sc_best[:, np.newaxis] * sc_law[np.newaxis,:]', 'model = av_best[:, np.newaxis] * av_law[np.newaxis, :]')]),
    ('fit: chi2 weights replaced by errors', [(MO, 'ch_best = f.chi_squared(source.valid, residual, log_error, weight, model)\n\n            # Extract convolved model fluxes for best-fit\n            model_fluxes = model + model_fluxes',
                                               'ch_best = f.chi_squared(source.valid, residual, weight, log_error, model)\n\n            # Extract convolved model fluxes for best-fit\n            model_fluxes = model + model_fluxes')]),
    ('Fitter: sc_law = +2', [(FT, 'self.sc_law = -2. * np.ones(self.av_law.shape)', 'self.sc_law = 2. * np.ones(self.av_law.shape)')]),
    ('Fitter: av_range swapped', [(FT, 'self.av_range[0], self.av_range[1])', 'self.av_range[1], self.av_range[0])')]),
    ('Fitter: laws swapped', [(FT, 'info = self.models.fit(source, self.av_law, self.sc_law,', 'info = self.models.fit(source, self.sc_law, self.av_law,')]),
    ('Source: weight 1/log_error', [(SO, 'weight[r] = 1. / log_error[r] ** 2.\n\n        # Lower', 'weight[r] = 1. / log_error[r]\n\n        # Lower')]),
    ('Models: log10 of flux in Jy', [(MO, 'np.log10(self.fluxes[self.valid].to(u.mJy).value)', 'np.log10(self.fluxes[self.valid].to(u.Jy).value)')]),
    ('Models: natural log', [(MO, 'values[self.valid] = np.log10(', 'values[self.valid] = np.log(')]),
]

MUST_SILENT = [
    ('Fitter: apertures converted once before the loop', [(FT, "        for i in range(len(apertures)):\n            filt = {'aperture_arcsec': apertures[i].to(u.arcsec).value}",
                                                           "        apertures_arcsec = apertures.to(u.arcsec).value\n        for i in range(len(apertures)):\n            filt = {'aperture_arcsec': apertures_arcsec[i]}")]),
    ('Fitter: loop over zip(names, apertures)', [(FT, "        for i in range(len(apertures)):\n            filt = {'aperture_arcsec': apertures[i].to(u.arcsec).value}\n            if isinstance(filter_names[i], str):\n                filt['name'] = filter_names[i]\n            elif isinstance(filter_names[i], u.Quantity):\n                filt['wav'] = filter_names[i]",
                                                  "        for fname, ap in zip(filter_names, apertures.to(u.arcsec).value):\n            filt = {'aperture_arcsec': float(ap)}\n            if isinstance(fname, str):\n                filt['name'] = fname\n            elif isinstance(fname, u.Quantity):\n                filt['wav'] = fname")]),
    ('buffers created with zeros_like and an explicit float dtype', [(SO, "log_flux = np.zeros(self.flux.shape, dtype=np.float64)", "log_flux = np.zeros_like(self.flux, dtype=float)")]),
    ('buffers created with the default dtype', [(SO, "log_error = np.zeros(self.error.shape, dtype=np.float64)", "log_error = np.zeros(self.error.shape)")]),
    ('LR: commuted products', [(FR, 'c1 = np.sum(data * pattern1 * weights, axis=1)', 'c1 = np.sum(weights * pattern1 * data, axis=1)')]),
    ('LR: explicit division', [(FR, 'p1 = (m22 * c1 - m12 * c2) * inv_det', 'p1 = (m22 * c1 - m12 * c2) / (m11 * m22 - m12 * m12)')]),
    ('LR: method-form sum', [(FR, 'm11 = np.sum(pattern1 * pattern1 * weights)', 'm11 = (pattern1 ** 2 * weights).sum()')]),
    ('LR: temporaries', [(FR, 'p2 = (m11 * c2 - m12 * c1) * inv_det', 'num2 = m11 * c2 - c1 * m12\n    p2 = inv_det * num2')]),
    ('OS: axis=-1', [(FR, 'axis=data.ndim - 1) /', 'axis=-1) /')]),
    ('chi2: product form', [(FR, 'chi2_array = (data - model) ** 2 * weight', 'chi2_array = weight * (data - model) * (data - model)')]),
    ('fit: np.clip style clamp (masks then stores reordered)', [(MO, '            av_best[reset1] = av_min\n            av_best[reset2] = av_max\n', '            av_best[reset2] = av_max\n            av_best[reset1] = av_min\n')]),
    ('fit: renamed locals', [(MO, 'reset = reset1 | reset2\n            sc_best[reset]', 'outside = reset2 | reset1\n            reset = outside\n            sc_best[reset]')]),
    ('fit: model terms commuted', [(MO, 'model = av_best[:, np.newaxis] * av_law[np.newaxis, :] + sc_best[:, np.newaxis] * sc_law[np.newaxis,:]', 'model = sc_law[np.newaxis,:] * sc_best[:, np.newaxis] + av_law[np.newaxis, :] * av_best[:, np.newaxis]')]),
    ('Fitter: sc_law via zeros', [(FT, 'self.sc_law = -2. * np.ones(self.av_law.shape)', 'self.sc_law = np.zeros(self.av_law.shape) - 2.')]),
    ('Fitter: keyword arguments', [(FT, 'self.av_range[0], self.av_range[1])', 'av_max=self.av_range[1], av_min=self.av_range[0])')]),
    ('Models: log via ln/ln10', [(MO, 'np.log10(self.fluxes[self.valid].to(u.mJy).value)', 'np.log(self.fluxes[self.valid].to(u.mJy).value) / np.log(10.)')]),
]


def thorough(ctx):
    from .. import selftest
    selftest.run(ctx, MUST_FIRE, MUST_SILENT)
