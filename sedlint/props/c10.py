"""C10 fit() writes one faithful record per eligible source and reads back unchanged."""
import ast
import re

from ..astutil import up, chain, calls, is_call_to, walk_local, paths, root_name, stores, const
from ..rules import where, path_actions, pickle_state_agreement
from ..loader import AnalysisError
from ..staterules import state_roundtrip
from . import common
from .. import alg
from ..alg import Poly, sym, lt
from ..interp import Interp, Hooks, Foreign, Obj, Arr, Unk, PyRaise, symarr, scalar, num

EXPLANATION = (
    "Decides on every control-flow path: (CFG-1) in fit() each loop iteration reads one line, builds one Source, and "
    "writes exactly one record when s.n_data >= n_data_min and none otherwise, with keep(output_format) before the write, "
    "predicted fluxes dropped exactly when not requested, no other modification of the result, EOF the only loop exit and "
    "the writer closed; (CFG-2/AGREE-2) FitInfoFile.write dumps the three metadata items exactly once and the reader loads "
    "the same three items in the same order into the same fields, re-attaching them to every record; (AGREE-1) the explicit "
    "pickling state of Source, FitInfo and Extinction saves and restores every data attribute; (CFG-10) every accepted "
    "constructor input assigns each attribute before it is read; (EFF-2) no post-processing function applies a FitInfo "
    "mutator to an object the caller owns (in-memory results are yielded as copies with metadata re-attached, and FitInfo "
    "mutators only rebind attributes so a shallow copy suffices).")
NOT_DECIDED = ["pickle fidelity of numpy/astropy objects (library)", "the zero-byte file case (excluded by the property)",
               "numerical equality of a record with the object-interface result (follows from 'same object, same calls')"]
ASSUMPTIONS = ["a loop body is analysed for one generic iteration", "copy.copy of a FitInfo goes through __getstate__/__setstate__ (python copy protocol)"]
TRUSTED = ["python ast", "pickle / copy protocols"]
MIN = {'CFG-1': 6, 'CFG-2': 2, 'AGREE-2': 2, 'AGREE-1': 15, 'CFG-10': 3, 'EFF-2': 8}


def _elig(test, nmin):
    """Return ('ge', flipped) style decision for a test comparing X.n_data with n_data_min:
    'exact-true' if test True <=> n_data >= n_data_min, 'exact-false' if test True <=> n_data < n_data_min,
    'off-by-one' for > / <=, None if the test is not about eligibility."""
    neg = False
    while isinstance(test, ast.UnaryOp) and isinstance(test.op, ast.Not):
        test, neg = test.operand, not neg
    if not (isinstance(test, ast.Compare) and len(test.ops) == 1):
        return None
    l, r, op = test.left, test.comparators[0], type(test.ops[0])
    def is_nd(x): return isinstance(x, ast.Attribute) and x.attr == 'n_data'
    def is_min(x): return isinstance(x, ast.Name) and x.id == nmin
    if is_nd(l) and is_min(r):
        pass
    elif is_min(l) and is_nd(r):
        op = {ast.Lt: ast.Gt, ast.Gt: ast.Lt, ast.LtE: ast.GtE, ast.GtE: ast.LtE}.get(op, op)
    else:
        return None
    res = {ast.GtE: 'exact-true', ast.Lt: 'exact-false', ast.Gt: 'off-by-one', ast.LtE: 'off-by-one'}.get(op, 'unknown')
    if neg and res.startswith('exact'):
        res = 'exact-false' if res == 'exact-true' else 'exact-true'
    return res


def check_fit_loop(ctx):
    repo = ctx.repo
    fit = ctx.fn(repo.func('fit', 'fit'))
    pars = fit.params
    for need in ('n_data_min', 'output_format', 'output_convolved', 'output'):
        if need not in pars:
            raise AnalysisError('fit() lost its %s parameter' % need)
    loops = [n for n in walk_local(fit.node) if isinstance(n, (ast.While, ast.For))
             and any(is_call_to(c, 'from_ascii') for c in calls(n))]
    if len(loops) != 1:
        raise AnalysisError('fit(): expected one source loop, found %d' % len(loops))
    loop = loops[0]
    # writer object
    writers = [t.id for t, v, st in stores(fit.node) if isinstance(t, ast.Name) and isinstance(v, ast.Call)
               and is_call_to(v, 'FitInfoFile') and len(v.args) > 1 and const(v.args[1]) == 'w']
    if len(writers) != 1:
        raise AnalysisError('fit(): expected one FitInfoFile(..., \'w\') writer, found %d' % len(writers))
    fout = writers[0]
    wcall = [v for t, v, st in stores(fit.node) if isinstance(t, ast.Name) and t.id == fout][0]
    ctx.expect(isinstance(wcall.args[0], ast.Name) and wcall.args[0].id == 'output', 'CFG-1', 'writer target', where(fit, wcall),
               'records go to FitInfoFile(output, \'w\')', 'writer opened on %s, not the requested output' % up(wcall.args[0]), 'writer-target')
    bps = paths(loop.body)
    ctx.analysed['paths'] += len(bps)
    n = 0
    n_write_paths = 0
    for p in bps:
        n += 1
        acts = path_actions(p)
        inst = 'loop path #%d' % n
        desc = p.describe()[:260]
        exc = [a for a in acts if a[0] == 'except']
        writes = [a for a in acts if a[0] == 'call' and chain(a[1].func) == fout + '.write']
        if p.exit in ('break', 'return'):
            ok = bool(exc) and all(a[1].type is not None and 'EOFError' in up(a[1].type) for a in exc) and not writes
            ctx.expect(ok, 'CFG-1', inst + ' (loop exit)', where(fit, p.exit_node),
                       'the loop is left only from the EOFError handler', 'loop exit that is not the end of input: {%s}' % desc, 'loop-exit')
            continue
        if p.exit == 'raise':
            continue
        if exc:
            ctx.violation('CFG-1', inst, where(fit), 'an exception handler lets the loop continue (an input line is silently skipped): {%s}' % desc, 'handler-continues')
            continue
        reads = [a for a in acts if a[0] == 'call' and (chain(a[1].func) or '').endswith('.readline')]
        srcs = [a for a in acts if a[0] == 'call' and is_call_to(a[1], 'from_ascii')]
        if len(reads) != 1 or len(srcs) != 1:
            ctx.violation('CFG-1', inst, where(fit), 'one iteration performs %d readline and %d from_ascii calls (must be 1 and 1): {%s}' % (len(reads), len(srcs), desc), 'line-per-iteration')
            continue
        elig = None
        for a in acts:
            if a[0] == 'test':
                e = _elig(a[1], 'n_data_min')
                if e == 'off-by-one' or e == 'unknown':
                    ctx.violation('CFG-1', inst + ' (eligibility operator)', where(fit, a[1]),
                                  'eligibility test %s is not "n_data >= n_data_min"' % up(a[1]), 'eligibility-operator')
                    elig = 'bad'
                elif e is not None:
                    val = (e == 'exact-true') == bool(a[2])
                    elig = val if elig is None else (elig and val)
        if elig == 'bad':
            continue
        if elig is None:
            if writes:
                ctx.violation('CFG-1', inst, where(fit), 'a record is written on a path that never compares n_data with n_data_min: {%s}' % desc, 'no-eligibility-test')
            else:
                ctx.violation('CFG-1', inst, where(fit), 'a path through the loop body never tests eligibility and writes nothing: {%s}' % desc, 'no-eligibility-test')
            continue
        want = 1 if elig else 0
        if len(writes) != want:
            ctx.violation('CFG-1', inst, where(fit), 'eligible=%s but %d records written: {%s}' % (elig, len(writes), desc), 'write-count')
            continue
        if not elig:
            ctx.ok('CFG-1', inst, where(fit), 'ineligible source: no record written {%s}' % desc)
            continue
        n_write_paths += 1
        # ---- the written object: info = fitter.fit(s) ; keep(output_format) ; write(info)
        w = writes[0][1]
        wi = acts.index(writes[0])
        problems = []
        if not (len(w.args) == 1 and isinstance(w.args[0], ast.Name)):
            problems.append('write argument %s is not the fit result' % up(w))
            nm = None
        else:
            nm = w.args[0].id
        if nm:
            bind = [(i, a) for i, a in enumerate(acts[:wi]) if a[0] == 'store' and isinstance(a[1], ast.Name) and a[1].id == nm]
            if not bind or not (isinstance(bind[-1][1][2], ast.Call) and (chain(bind[-1][1][2].func) or '').endswith('.fit')):
                problems.append('%s is not bound by fitter.fit(...) on this path' % nm)
            else:
                bi, b = bind[-1]
                fcall = b[2]
                sname = srcs[0][2][1] if False else None
                # the source passed to fit is the one parsed in this iteration
                sbind = [a for a in acts[:bi] if a[0] == 'store' and isinstance(a[2], ast.Call) and is_call_to(a[2], 'from_ascii')]
                if not (sbind and fcall.args and isinstance(fcall.args[0], ast.Name) and isinstance(sbind[-1][1], ast.Name)
                        and fcall.args[0].id == sbind[-1][1].id):
                    problems.append('fitter.fit is not applied to the source parsed in this iteration')
                between = acts[bi + 1:wi]
                keeps = [a for a in between if a[0] == 'call' and chain(a[1].func) == nm + '.keep']
                if not keeps:
                    late = [a for a in acts[wi:] if a[0] == 'call' and chain(a[1].func) == nm + '.keep']
                    problems.append('keep(output_format) is %s' % ('applied after the record is written' if late else 'never applied'))
                else:
                    for k in keeps:
                        if not (len(k[1].args) == 1 and isinstance(k[1].args[0], ast.Name) and k[1].args[0].id == 'output_format'):
                            problems.append('keep called with %s, not the output selector' % up(k[1]))
                mf_none = False
                for a in between:
                    if a[0] == 'store' and root_name(a[1]) == nm:
                        if isinstance(a[1], ast.Attribute) and a[1].attr == 'model_fluxes' and const(a[2]) is None and isinstance(a[2], ast.Constant):
                            mf_none = True
                        else:
                            problems.append('result modified before writing: %s' % up(a[3]))
                    if a[0] == 'call' and (chain(a[1].func) or '').startswith(nm + '.') and chain(a[1].func) != nm + '.keep':
                        problems.append('result method called before writing: %s' % up(a[1]))
                oc = None
                for a in acts:
                    if a[0] == 'test':
                        t, truth = a[1], a[2]
                        neg = False
                        while isinstance(t, ast.UnaryOp) and isinstance(t.op, ast.Not):
                            t, neg = t.operand, not neg
                        if isinstance(t, ast.Name) and t.id == 'output_convolved':
                            oc = (truth != neg)
                if oc is None and mf_none:
                    problems.append('predicted fluxes dropped unconditionally')
                elif oc is not None and mf_none != (not oc):
                    problems.append('predicted fluxes %s although output_convolved is %s' % ('dropped' if mf_none else 'kept', oc))
        if problems:
            ctx.violation('CFG-1', inst, where(fit, w), '; '.join(problems) + ' {%s}' % desc, 'record-faithfulness:' + problems[0].split(':')[0][:60])
        else:
            ctx.ok('CFG-1', inst, where(fit, w), 'eligible: fit -> keep(output_format) -> one write {%s}' % desc)
    if n_write_paths < 1:
        raise AnalysisError('fit(): no path writes a record')
    # close after the loop on the normal exit
    closes = [c for c in calls(fit.node) if chain(c.func) == fout + '.close']
    after = [c for c in closes if c.lineno > loop.end_lineno]
    ctx.expect(bool(after), 'CFG-1', 'writer closed', where(fit, after[0] if after else loop),
               '%s.close() after the loop' % fout, 'the writer is never closed after the loop', 'no-close')


# ---------------------------------------------------------------- the driver, interpreted

class _Stand(Foreign):
    """stand-ins for the objects fit() drives: the Fitter, the output FitInfoFile, the timer and the open data file"""
    def __init__(self, hooks, kind):
        self.hooks, self.kind = hooks, kind

    def sl_getattr(self, interp, name, node):
        if self.kind == 'fitter' and name == 'filters':
            return []
        return NotImplemented

    def sl_setattr(self, interp, name, val, node):
        self.hooks.events.append(('setattr', self.kind, name, val, interp.path_cond()))

    def sl_method(self, interp, name, args, kw, node):
        h = self.hooks
        if self.kind == 'fitter' and name == 'fit' and args:
            k = len(h.fitted) + 1
            info = Obj(interp.repo.cls('fit_info', 'FitInfo'), {'source': args[0], 'model_fluxes': symarr('mf%d' % k, ('r', 'w')), 'chi2': symarr('chi2_%d' % k, ('r',)),
                                                                'av': symarr('av_%d' % k, ('r',)), 'sc': symarr('sc_%d' % k, ('r',)), 'model_name': symarr('mn_%d' % k, ('r',)),
                                                                'model_id': symarr('id_%d' % k, ('r',))})
            info.attrs['__tag__'] = k
            h.fitted.append((args[0], info, dict(info.attrs)))
            return info
        if self.kind == 'out' and name == 'write' and args:
            info = args[0]
            h.events.append(('write', info, interp.path_cond(), dict(info.attrs) if isinstance(info, Obj) else None))
            return None
        if self.kind == 'out' and name == 'close':
            h.events.append(('close', interp.path_cond()))
            return None
        if self.kind == 'timer':
            return None
        if self.kind == 'data' and name == 'readline':
            h.nread += 1
            return 'LINE%d' % h.nread if h.nread <= h.nlines else ''
        if self.kind == 'data' and name == 'close':
            return None
        return NotImplemented


class DriverHooks(Hooks):
    def __init__(self, repo, nlines=2):
        self.repo, self.nlines = repo, nlines
        self.events, self.fitted, self.nread, self.sources = [], [], 0, []

    def construct(self, interp, ci, args, kwargs, node):
        if ci.name == 'Fitter':
            return _Stand(self, 'fitter')
        if ci.name == 'FitInfoFile':
            self.events.append(('open', list(args), dict(kwargs)))
            return _Stand(self, 'out')
        if ci.name == 'Timer':
            return _Stand(self, 'timer')
        return NotImplemented

    def opaque(self, interp, fi, args, kwargs, node):
        q = fi.qual
        if q.endswith(':Source.from_ascii'):
            line = args[-1] if args else kwargs.get('line')
            if line == '':
                raise PyRaise('EOFError', 'end of the data file')
            if isinstance(line, str) and line.startswith('LINE'):
                k = int(line[4:])
                s = Obj(self.repo.cls('source.source', 'Source'), {'_valid': symarr('valid%d' % k, ('w',), unit=num(1)), '_name': 'S%d' % k})
                self.sources.append((k, s))
                return s
            return Unk('from_ascii(%r)' % (line,))
        if q.endswith(':FitInfo.keep'):
            self.events.append(('keep', args[0] if args else None, list(args[1:]), interp.path_cond()))
            return None
        if q.endswith(':delete_file') or fi.name in ('display',):
            return None
        return NotImplemented


def check_fit_driver_semantic(ctx):
    """(CFG-1) fit() interpreted on a data file of two lines followed by the end of input, with symbolic flags for each source and a symbolic n_data_min: the
    records handed to the writer, each under the condition it is written under, must be - for every source, in input order - exactly one record under
    n_data >= n_data_min: the fit of that same source, after keep(output_format), with the predicted fluxes dropped exactly when output_convolved is off.
    Returns False when the interpretation has no verdict."""
    repo = ctx.repo
    fit = ctx.fn(repo.func('fit', 'fit'))
    where_ = where(fit)
    decided = True
    FMT = ('N', 5)
    for oc in (True, False):
        tag = 'output_convolved=%s' % oc
        h = DriverHooks(repo)
        I = Interp(repo, h)
        I.exact_le = True
        try:
            r = I.call(fit, [_Stand(h, 'data'), ['F1'], symarr('ap', ('f',), unit=sym('unit:arcsec')), 'MODELS', 'OUT'],
                       {'n_data_min': scalar(sym('nmin'), num(1)), 'output_format': FMT, 'output_convolved': oc, 'extinction_law': None, 'av_range': (0., 1.),
                        'distance_range': symarr('dr', ('two',), unit=sym('unit:kpc'))})
        except (AnalysisError, RecursionError) as ex:
            r = Unk(str(ex)[:100])
        lost = [str(x)[:80] for x in getattr(I, 'lost', [])]
        if not lost and (getattr(I, '_unknown_conds', 0) or I.flow_taint):
            lost = ['a condition or an exit on the way was not decided']          # what was (not) written past it proves nothing
        if isinstance(r, Unk) or getattr(I, 'uncaught', None) or lost:
            if getattr(I, 'uncaught', None):
                ctx.violation('CFG-1', 'driver (%s): runs to the end of the input' % tag, where_, 'fit() stops with %s on a data file of two sources' % I.uncaught, 'driver-raises')
            else:
                ctx.undecided('CFG-1', 'driver (%s)' % tag, where_, 'not modelled: %s' % (r if isinstance(r, Unk) else lost[0]))
                decided = False
            continue
        opens = [e for e in h.events if e[0] == 'open']
        ctx.expect(len(opens) == 1 and opens[0][1][:2] == ['OUT', 'w'], 'CFG-1', 'driver (%s): writer target' % tag, where_, 'records go to FitInfoFile(output, \'w\')',
                   'writer opened as %r' % (opens[0][1] if opens else None,), 'writer-target')
        ctx.expect(h.nread == h.nlines + 1 and [k for k, _ in h.sources] == list(range(1, h.nlines + 1)), 'CFG-1', 'driver (%s): one line per source, to the end of input' % tag, where_,
                   'each iteration reads one line and parses it; the loop ends at the end of input', '%d lines read for %d sources parsed from a file of %d lines' % (h.nread, len(h.sources), h.nlines), 'line-per-iteration')
        writes = [e for e in h.events if e[0] == 'write']
        order = []
        for k, s in h.sources:
            inst = 'driver (%s): source %d' % (tag, k)
            V = sym('valid%d' % k, 'w')
            nd = alg.sum_over(alg.eq(V, 1), 'w') + alg.sum_over(alg.eq(V, 4), 'w')
            want = alg.b_not(lt(nd, sym('nmin')))
            # objects are told apart by what they hold, not by identity: the branches of a data-dependent if work on copies
            name_of = lambda o_: o_.attrs.get('_name') if isinstance(o_, Obj) else None
            mine = [e for e in writes if isinstance(e[1], Obj) and name_of(e[1].attrs.get('source')) == 'S%d' % k]
            fits = [f for f in h.fitted if name_of(f[0]) == 'S%d' % k]
            total = Poly()
            for e in mine:
                total = total + e[2]
            if alg.is_zero(total - want)[0] and len(mine) == 1:
                ctx.ok('CFG-1', inst + ': written iff eligible', where_, 'exactly one record, under n_data >= n_data_min')
            else:
                syms, fns = alg.leaf_syms(total - want)
                if syms <= {'valid%d' % j for j in range(1, h.nlines + 1)} | {'nmin'} and not any(s_.startswith('undecided') for s_ in syms):
                    ctx.violation('CFG-1', inst + ': written iff eligible', where_, '%d record(s) written for this source, under %s; expected one under n_data >= n_data_min = %s'
                                  % (len(mine), alg.show(total, 120), alg.show(want, 120)), 'eligibility')
                else:
                    ctx.undecided('CFG-1', inst + ': written iff eligible', where_, 'condition %s not decided' % alg.show(total, 120)); decided = False
                continue
            e = mine[0]
            info, snap = e[1], e[3]
            order.append(h.events.index(e))
            problems = []
            if len(fits) != 1 or fits[0][1].attrs.get('__tag__') != info.attrs.get('__tag__'):
                problems.append('the record written is not the result of fitter.fit for this source (fit called %d time(s) on it)' % len(fits))
            else:
                orig = fits[0][2]
                keeps = [x for x in h.events if x[0] == 'keep' and isinstance(x[1], Obj) and x[1].attrs.get('__tag__') == info.attrs.get('__tag__')]
                before = [x for x in keeps if h.events.index(x) < h.events.index(e)]
                if not before:
                    problems.append('keep(output_format) is %s' % ('applied after the record is written' if keeps else 'never applied'))
                elif any(x[2] != [FMT] for x in before):
                    problems.append('keep called with %r, not the output selector' % (before[0][2],))
                elif any(not alg.is_zero(x[3] - e[2])[0] for x in before):
                    problems.append('keep applied under another condition than the write')
                mf = snap.get('model_fluxes')
                same_ = lambda a_, b_: a_ is b_ or (isinstance(a_, Arr) and isinstance(b_, Arr) and a_.dims == b_.dims and a_.poly == b_.poly and a_.mask == b_.mask) or \
                    (isinstance(a_, Obj) and isinstance(b_, Obj) and a_.cls is b_.cls and set(a_.attrs) == set(b_.attrs) and all(same_(a_.attrs[k_], b_.attrs[k_]) for k_ in a_.attrs))
                if oc and not same_(mf, orig['model_fluxes']):
                    problems.append('predicted fluxes %s although output_convolved is on' % ('dropped' if mf is None else 'replaced'))
                if not oc and mf is not None:
                    problems.append('predicted fluxes kept although output_convolved is off')
                for a_ in orig:
                    if a_ != 'model_fluxes' and not same_(snap.get(a_), orig[a_]):
                        problems.append('result modified before writing: %s' % a_)
            if problems:
                ctx.violation('CFG-1', inst + ': the record is the selected fit of this source', where_, '; '.join(problems), 'record-faithfulness:' + problems[0][:50])
            else:
                ctx.ok('CFG-1', inst + ': the record is the selected fit of this source', where_, 'fit(source) -> keep(output_format) -> write, predicted fluxes %s' % ('kept' if oc else 'dropped'))
        ctx.expect(order == sorted(order), 'CFG-1', 'driver (%s): records in input order' % tag, where_, 'records are written in the order of the data file', 'records written out of input order', 'order')
        closes = [e for e in h.events if e[0] == 'close']
        ok_close = bool(closes) and all(h.events.index(c) > max(order or [0]) for c in closes[-1:]) and closes[-1][1] == Poly.const(1)
        ctx.expect(ok_close, 'CFG-1', 'driver (%s): writer closed' % tag, where_, 'the writer is closed after the last record', 'the writer is not closed after the loop', 'no-close')
    return decided


def check_fit_driver(ctx):
    from ..roundtrip import SuspectCtx
    if not check_fit_driver_semantic(ctx):
        try:
            check_fit_loop(SuspectCtx(ctx, 'the driver was not decided by interpretation and the path rule, which knows one layout only, reports'))
        except AnalysisError as e:
            ctx.undecided('CFG-1', 'path rule (fall-back)', 'sedfitter/fit.py', 'structure not recognised: %s' % e)



def check_write_meta(ctx):
    repo = ctx.repo
    write = ctx.fn(repo.func('fit_info', 'FitInfoFile.write'))
    init = ctx.fn(repo.func('fit_info', 'FitInfoFile.__init__'))
    it = ctx.fn(repo.func('fit_info', 'FitInfoFile.__iter__'))
    rec = write.params[1]
    order_w = None
    n = 0
    for p in paths(write.node.body):
        if p.exit == 'raise':
            continue
        n += 1
        acts = path_actions(p)
        first = None
        for a in acts:
            t = up(a[1]).replace(' ', '') if a[0] == 'test' else ''
            m = re.match(r'^self\.(_\w*meta\w*)is(not)?None$', t)
            if m:
                first = a[2] if not m.group(2) else not a[2]
        metas = [up(a[1].args[0]) for a in acts if a[0] == 'call' and (chain(a[1].func) or '').endswith('.dump') and a[1].args
                 and '.meta.' in up(a[1].args[0])]
        sets = [a for a in acts if a[0] == 'store' and re.match(r'^self\._\w*meta\w*$', up(a[1]))]
        inst = 'write path #%d' % n
        if first is None and not metas:
            ctx.undecided('CFG-2', inst, where(write), 'the test that tells the first record from later ones was not recognised')
        elif first is None:
            ctx.violation('CFG-2', inst, where(write), 'metadata is dumped on a path that does not test whether it was already written', 'no-first-test')
        elif first:
            fields = [m.split('.meta.')[-1] for m in metas]
            good = len(metas) == 3 and bool(sets) and up(sets[-1][2]) == rec + '.meta'
            ctx.expect(good, 'CFG-2', inst, where(write), 'first record: metadata %s dumped once and remembered' % fields,
                       'first record: metadata dumps %s, remembered=%s' % (fields, bool(sets)), 'first-meta')
            order_w = fields
        else:
            ctx.expect(not metas and not sets, 'CFG-2', inst, where(write), 'later records: no metadata dumped',
                       'metadata dumped again for later records: %s' % metas, 'meta-again')
    # reader
    order_r = []
    for t, v, st in stores(init.node):
        if isinstance(v, ast.Call) and (chain(v.func) or '').endswith('.load') and isinstance(t, ast.Attribute) and re.match(r'^self\._\w*meta\w*$', up(t.value)):
            order_r.append((st.lineno, t.attr))
    order_r = [a for _, a in sorted(order_r)]
    ctx.expect(order_w is not None and order_w == order_r, 'AGREE-2', 'metadata sequence', where(init),
               'writer dumps %s, reader loads %s' % (order_w, order_r), 'writer dumps %s but reader loads %s' % (order_w, order_r), 'meta-sequence')
    reattach = [st for t, v, st in stores(it.node) if isinstance(t, ast.Attribute) and t.attr == 'meta' and re.match(r'^self\._\w*meta\w*$', up(v))]
    ctx.expect(bool(reattach), 'AGREE-2', 'metadata re-attached', where(it, reattach[0] if reattach else None),
               'every record read gets .meta = self._first_meta', 'records read from a file do not get the stored metadata', 'no-reattach')


def memory_attr(repo):
    """the attribute of FitInfoFile that holds in-memory results: what __iter__ loops over"""
    it = repo.func('fit_info', 'FitInfoFile.__iter__')
    for n in walk_local(it.node):
        if isinstance(n, ast.For) and isinstance(n.iter, ast.Attribute) and isinstance(n.iter.value, ast.Name) and n.iter.value.id == it.params[0]:
            return n.iter.attr
    raise AnalysisError('FitInfoFile.__iter__: loop over the in-memory results not found')


def check_ctor(ctx):
    repo = ctx.repo
    init = ctx.fn(repo.func('fit_info', 'FitInfoFile.__init__'))
    me = init.params[0]
    mem = memory_attr(repo)
    n = 0
    for p in paths(init.node.body):
        if p.exit == 'raise':
            continue
        n += 1
        acts = path_actions(p)
        assigned = set()
        problems = []
        for e in p.events:
            node = e[1] if e[0] in ('stmt', 'test') else (e[1].iter if e[0] == 'iter' else None)
            if node is None:
                continue
            tgt = set()
            if e[0] == 'stmt' and isinstance(node, ast.Assign):
                for t in node.targets:
                    if isinstance(t, ast.Attribute) and isinstance(t.value, ast.Name) and t.value.id == me:
                        tgt.add(t.attr)
            for m in walk_local(node):
                if isinstance(m, ast.Attribute) and isinstance(m.value, ast.Name) and m.value.id == me and isinstance(m.ctx, ast.Load):
                    if m.attr not in assigned and m.attr.startswith('_'):
                        problems.append('self.%s read at line %d before it is assigned' % (m.attr, m.lineno))
            assigned |= tgt
        kind = [up(a[1])[:60] for a in acts if a[0] == 'test' and a[2] and 'isinstance' in up(a[1])]
        inst = 'constructor path #%d %s' % (n, kind[0] if kind else '')
        if mem not in assigned:
            problems.append('self.%s is not assigned' % mem)
        if problems:
            ctx.violation('CFG-10', inst, where(init), '; '.join(sorted(set(problems))), 'definite-assignment')
        else:
            ctx.ok('CFG-10', inst, where(init), 'assigns %s before any read' % sorted(assigned))


def check_file_protocol(ctx):
    """CFG-2 / AGREE-2 decided by interpreting FitInfoFile on a stream of pickles (recfile.py); the path rules are the fall-back and may only say undecided"""
    from .. import recfile, roundtrip
    if not recfile.check_write_read(ctx, 'CFG-2', 'AGREE-2'):
        try:
            check_write_meta(roundtrip.SuspectCtx(ctx, 'the file protocol was not decided by interpretation and the path rule, which knows one spelling only, reports'))
        except AnalysisError as e:
            ctx.undecided('CFG-2', 'syntactic fall-back', 'sedfitter/fit_info.py', 'structure not recognised: %s' % e)


def check_inputs(ctx):
    """CFG-10: results as file name / single object / list / tuple, decided by interpretation; definite-assignment path rule as fall-back"""
    from .. import recfile, roundtrip
    if not recfile.check_inputs(ctx, 'CFG-10'):
        try:
            check_ctor(roundtrip.SuspectCtx(ctx, 'the constructor was not decided by interpretation and the path rule, which knows one spelling only, reports'))
        except AnalysisError as e:
            ctx.undecided('CFG-10', 'syntactic fall-back', 'sedfitter/fit_info.py', 'structure not recognised: %s' % e)


def run(ctx):
    check_fit_driver(ctx)
    check_file_protocol(ctx)
    repo = ctx.repo
    state_roundtrip(ctx, repo.cls('source.source', 'Source'))
    state_roundtrip(ctx, repo.cls('fit_info', 'FitInfo'), exclude=('meta',))
    state_roundtrip(ctx, repo.cls('extinction.extinction', 'Extinction'))
    check_inputs(ctx)
    common.check_ownership(ctx)
    # 'each record equals what the object interface returns ... including metadata': a result's metadata is its own (no object shared by every result through the class)
    common.check_shared_class_state(ctx, [('fit_info', 'FitInfo'), ('fit_info', 'FitInfoMeta'), ('fit', 'Fitter')])


FT = 'sedfitter/fit.py'
PL = 'sedfitter/plot.py'
FI = 'sedfitter/fit_info.py'
SO = 'sedfitter/source/source.py'
WP = 'sedfitter/write_parameters.py'
EXF = 'sedfitter/extinction/extinction.py'
MUST_FIRE = [
    ('plot converts the stored predicted fluxes in place', [(PL, "                conv.append(10. ** (info.model_fluxes[i, :] - 26. + np.log10(3.e8 / (wav * 1.e-6))))\n", "                mf = info.model_fluxes[i, :]\n                mf += np.log10(3.e8 / (wav * 1.e-6)) - 26.\n                conv.append(10. ** mf)\n")]),
    ('extinction state as bare numbers, default units re-attached without conversion', [(EXF, "            'wav': self.wav,\n            'chi': self.chi,\n", "            'wav': self.wav.value,\n            'chi': self.chi.value,\n"), (EXF, "        self.wav = d['wav']\n        self.chi = d['chi']", "        self.wav = d['wav'] * u.micron\n        self.chi = d['chi'] * u.cm ** 2 / u.g")]),
    ('>= -> >', [(FT, "if s.n_data >= n_data_min:", "if s.n_data > n_data_min:")]),
    ('write before keep', [(FT, "            info.keep(output_format)\n\n            fout.write(info)\n", "            fout.write(info)\n\n            info.keep(output_format)\n")]),
    ('metadata dumped every time', [(FI, "            self._first_meta = info.meta\n        else:", "        else:")]),
    ('reader loads two header items', [(FI, "                self._first_meta.extinction_law = pickle.load(self._handle)\n", "")]),
    ('__getstate__ loses sc', [(FI, "            'sc': self.sc,\n", "")]),
    ('model_fluxes dropped when requested', [(FT, "            if not output_convolved:\n                info.model_fluxes = None", "            if output_convolved:\n                info.model_fluxes = None")]),
    ('copy removed from __iter__ (D4 reverted)', [(FI, "                info_copy = copy(info)\n                info_copy.meta = info.meta\n                yield info_copy", "                yield info")]),
    ('second readline', [(FT, "s = Source.from_ascii(data_file.readline())", "data_file.readline()\n            s = Source.from_ascii(data_file.readline())")]),
    ('copy without metadata', [(FI, "                info_copy.meta = info.meta\n", "")]),
    ('eligibility on n_wav', [(FT, "if s.n_data >= n_data_min:", "if s.n_wav >= n_data_min:")]),
    ('keep with a fixed selector', [(FT, "info.keep(output_format)", "info.keep(('N', 1))")]),
    ('record sorted again before writing', [(FT, "            info.keep(output_format)\n", "            info.keep(output_format)\n            info.chi2 = info.chi2[::-1]\n")]),
    ('writer never closed', [(FT, "    t.display(force=True)\n\n    fout.close()\n", "    t.display(force=True)\n")]),
    ('list branch broken (D3 reverted)', [(FI, "            self._fits = fits\n\n            for info in self._fits[1:]:\n                if info.meta != self._fits[0].meta:\n                    raise ValueError(\"The meta property of all FitInfo instances should match\")\n",
                                          "            for info in self._fits[1:]:\n                if info.meta != self._fits[0].meta:\n                    raise ValueError(\"The meta property of all FitInfo instances should match\")\n\n            self._fits = fits\n")]),
    ('Source state cross-wired', [(SO, "        self.flux = d['flux']\n        self.error = d['error']", "        self.flux = d['error']\n        self.error = d['flux']")]),
    ('metadata order differs between writer and reader', [(FI, "            pickle.dump(info.meta.model_dir, self._handle, 2)\n            pickle.dump(info.meta.filters, self._handle, 2)", "            pickle.dump(info.meta.filters, self._handle, 2)\n            pickle.dump(info.meta.model_dir, self._handle, 2)")]),
    ('keep mutates arrays in place', [(FI, "        self.chi2 = self.chi2[:n_fits]\n", "        self.chi2 = self.chi2[:n_fits]\n        self.chi2[n_fits:] = 0.\n")]),
    ('post-processing sorts the caller record', [(WP, "        info.keep(select_format)\n", "        info.keep(select_format)\n        info.source.flux = info.source.flux * 1.\n")]) if False else
    ('loop ends at the first ineligible source', [(FT, "            fout.write(info)\n\n            t.display()\n", "            fout.write(info)\n\n            t.display()\n\n        else:\n            break\n")]),
]
MUST_SILENT = [
    ('plot converts a fresh copy of the predicted fluxes in place', [(PL, "                conv.append(10. ** (info.model_fluxes[i, :] - 26. + np.log10(3.e8 / (wav * 1.e-6))))\n", "                mf = info.model_fluxes[i, :] - 26.\n                mf += np.log10(3.e8 / (wav * 1.e-6))\n                conv.append(10. ** mf)\n")]),
    ('a handler for malformed lines (the property is about files of well-formed sources: every one of them still gets its record)', [(FT, "        except EOFError:\n            break\n", "        except EOFError:\n            break\n        except ValueError:\n            continue\n")]),
    ('extinction state as bare numbers in fixed units, converted when saved', [(EXF, "            'wav': self.wav,\n            'chi': self.chi,\n", "            'wav': self.wav.to(u.micron).value,\n            'chi': self.chi.to(u.cm ** 2 / u.g).value,\n"), (EXF, "        self.wav = d['wav']\n        self.chi = d['chi']", "        self.wav = d['wav'] * u.micron\n        self.chi = d['chi'] * u.cm ** 2 / u.g")]),
    ('eligibility written the other way round', [(FT, "if s.n_data >= n_data_min:", "if n_data_min <= s.n_data:")]),
    ('early continue for ineligible sources', [(FT, "        if s.n_data >= n_data_min:\n\n            info = fitter.fit(s)\n\n            if not output_convolved:\n                info.model_fluxes = None\n\n            info.keep(output_format)\n\n            fout.write(info)\n\n            t.display()\n",
                                                "        if s.n_data < n_data_min:\n            continue\n\n        info = fitter.fit(s)\n\n        if not output_convolved:\n            info.model_fluxes = None\n\n        info.keep(output_format)\n\n        fout.write(info)\n\n        t.display()\n")]),
    ('deepcopy instead of copy', [(FI, "                info_copy = copy(info)\n", "                from copy import deepcopy\n                info_copy = deepcopy(info)\n")]),
]


def thorough(ctx):
    from .. import selftest
    selftest.run(ctx, MUST_FIRE, MUST_SILENT)
