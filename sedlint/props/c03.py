"""C03 Data flags mean what the data-format page says."""
import ast
from fractions import Fraction

from .. import alg, fitmodel as fm
from ..alg import Poly, P, B, sym, sum_over, lt, mk_fn, Facts
from ..interp import Interp, Hooks, Arr, Obj, Unk, symarr, scalar, num
from ..fitmodel import W, M, D, FLAGS, loc, compare
from ..astutil import up, walk_local, chain
from ..loader import AnalysisError

EXPLANATION = (
    "Finite-domain specialisation of the flag of a generic point (all six flags, both fitting modes; exhaustive): "
    "(ALG-5) the (log_flux, log_error, weight) row of Source.get_log_fluxes for each flag equals the data-format page; weight != 0 exactly "
    "for flags {1,4}; a flag-4 point carrying a flag-1 point's transformed values reproduces the flag-1 row (substitution identity); "
    "(ALG-4) the chi^2 contribution of each flag in chi_squared is 0 / base / base replaced by -2 ln(1-confidence) exactly on the forbidden "
    "side, with infinities mapped to 1e30 after the penalties (so confidence 1 gives >= 1e30 and confidence 0 adds nothing); "
    "(FLAG-1a) every reduction inside linear_regression / optimal_scaling carries the weight as a factor, so a zero-weight point "
    "(flags 0,2,3,9) never enters a least-squares solution; (FLAG-1) every flag predicate downstream of the transform has the same truth "
    "value for 1 and 4; (ALG-12) n_data counts flags 1 and 4 only; (FLAG-3) for flags 0 and 9 the residual and weights handed to the "
    "kernels contain no term derived from the point's carried flux/error (0*NaN is NaN in IEEE arithmetic).")
NOT_DECIDED = ["numerical behaviour of log/log10 (library)"]
ASSUMPTIONS = ["a point is generic: rows are decided for one filter position with the flag fixed, which is sound because the transform and the chi^2 term are element-wise in the filter axis",
               "<= and < identified for real comparisons"]
TRUSTED = ["python ast", "sedlint E4/E5"]
MIN = {'ALG-5': 18, 'ALG-4': 12, 'FLAG-1': 0, 'FLAG-1a': 3, 'ALG-12': 6, 'FLAG-3': 4}          # (FLAG-1 counts spellings of flag tests: what they decide is compared by value under ALG-4 / ALG-5, so no floor on their number)
TECHNIQUE = 'static analysis: finite-domain specialisation of AST value numbering (per-flag normal forms) compared with the data-format table'

VOCAB = {'Fs', 'Es', 'data', 'model', 'conf', 'wt', 'F', 'A', 'S', 'lo', 'hi', 'valid', 'L', 'err'}


def check_transform(ctx):
    repo = ctx.repo
    glf, nd, rows = fm.flag_rows(repo)
    ctx.fn(glf); ctx.fn(nd)
    names = ('weight', 'log_flux', 'log_error')
    good = {}
    for k in FLAGS:
        out, n, fnd = rows[k]
        ref = fm.reference_flag_row(k)
        if not (isinstance(out, tuple) and len(out) == 3):
            ctx.undecided('ALG-5', 'flag %d row' % k, loc(glf), 'get_log_fluxes result not modelled: %r' % (out,))
            continue
        good[k] = out
        for nm, got, want in zip(names, out, ref):
            inst = 'flag %d %s' % (k, nm)
            if want is None:
                if isinstance(got, Arr):
                    ctx.ok('ALG-5', inst, loc(glf), 'unconstrained for a plot-only point (value: %s)' % alg.show(got.poly, 80), nontrivial=False)
                else:
                    ctx.undecided('ALG-5', inst, loc(glf), 'not modelled')
                continue
            compare(ctx, 'ALG-5', inst, loc(glf), got, want, (W,), vocab=VOCAB, findings=fnd,
                    detail_ok='%s == %s' % (nm, alg.show(want, 120)))
        # n_data
        if isinstance(n, Arr):
            want_n = alg.count(W) if k in (1, 4) else Poly()
            compare(ctx, 'ALG-12', 'n_data contribution of flag %d' % k, loc(nd), n, want_n, (), vocab=VOCAB,
                    detail_ok='a flag-%d point counts %s' % (k, '1' if k in (1, 4) else '0'))
        else:
            ctx.undecided('ALG-12', 'n_data contribution of flag %d' % k, loc(nd), 'not modelled')
    # IEEE arithmetic on the flags themselves: the transform run once more with symbolic flags; a truth value of the flags used as a 0/1 factor (or numerator)
    # of something that is infinite or undefined for the values an unused point may carry gives NaN there, not 0
    from ..interp import Interp as _I, Obj as _O, symarr as _sa, num as _num
    Is = _I(repo)
    src_ = _O(repo.cls('source.source', 'Source'), {'_valid': None, '_flux': _sa('Fs', (W,), unit=_num(1)), '_error': _sa('Es', (W,), unit=_num(1))})
    Is.call(repo.func('source.source', 'Source.valid@setter'), [_sa('valid', (W,), unit=_num(1))], selfv=src_)
    Is.call(glf, [], selfv=src_)
    ieee = [f for f in Is.findings if f.kind == 'zero-times-inf']
    ctx.expect(not ieee, 'ALG-5', 'flags used as 0/1 factors (IEEE arithmetic)', loc(glf, ieee[0].line if ieee else None), 'no truth value of the flags multiplies or is divided by a term that can be infinite or 0/0',
               ieee[0].msg if ieee else '', 'zero-times-inf')
    # flag 4 carrying flag 1's transformed values reproduces flag 1
    if 1 in good and 4 in good:
        r1, r4 = good[1], good[4]
        if all(isinstance(x, Arr) for x in r1 + r4):
            mapping = {'Fs': lambda labs: r1[1].poly, 'Es': lambda labs: r1[2].poly}
            for nm, a4, a1 in zip(names, r4, r1):
                sub = Arr(a4.dims, alg.subst_sym(a4.poly, mapping))
                compare(ctx, 'ALG-5', 'flag-4 point carrying flag-1 transform: %s' % nm, loc(glf), sub, a1.poly, (W,), vocab=VOCAB,
                        detail_ok='identical %s, hence identical fits' % nm)
    return good


def chi_reference(k, dd):
    data, model, wt, conf = sym('data', *dd), sym('model', *dd), sym('wt', W), sym('conf', W)
    base = (data - model).pow(2) * wt
    pen = -2 * alg.ln(1 - conf)
    if k == 0:
        term = Poly()
    elif k == 2:
        c = lt(model, data)
        term = base + c * (pen - base)
    elif k == 3:
        c = lt(data, model)
        term = base + c * (pen - base)
    else:
        term = base
    return sum_over(fm.inf_to(term), W)


class ConfidenceDomain:
    """the documented domain of a limit's confidence, 0 <= confidence <= 1 (data-format page; the quantifier of C03): the comparisons `confidence < 0` and
    `1 - confidence < 0` are false.  Nothing is said about equality with 0 or 1 - those ends are inside the domain and are decided separately."""
    def __init__(self):
        self.val = {}
        conf = sym('conf', W)
        for q in (alg.mk_ind('<0', 1 - conf), alg.mk_ind('<0', conf)):
            if q.is_monomial():
                (m, c), = q.t.items()
                if c == 1 and len(m) == 1 and m[0][1] == 1 and m[0][0][0] == 'ind':
                    self.val[m[0][0]] = 0

    def simplify(self, p):
        return alg.rebuild(p, lambda a: Poly.const(self.val[a]) if a in self.val else None)


def check_chi(ctx, rows):
    repo = ctx.repo
    chi = ctx.fn(repo.func('fitting_routines', 'chi_squared'))
    for dd in ((M, W), (M, D, W)):
        for k in FLAGS:
            I, out = fm.run_kernel(repo, 'chi_squared', [Arr((W,), num(k)), symarr('data', dd), symarr('conf', (W,)), symarr('wt', (W,)), symarr('model', dd)])
            inst = 'chi^2 contribution of flag %d, %d-D' % (k, len(dd))
            ref = chi_reference(k, dd)
            zero_w = k in (0, 2, 3, 9)
            wrow = rows.get(k)
            if zero_w and not (wrow and isinstance(wrow[0], Arr) and wrow[0].poly.is_zero()):
                zero_w = False      # the transform does not give this flag a zero weight (reported by ALG-5): compare uncomposed
            if isinstance(out, Arr) and zero_w:
                # composed with the transform: this flag's weight is identically zero
                out = out.with_(poly=alg.subst_sym(out.poly, {'wt': lambda labs: Poly()}))
                ref = alg.subst_sym(ref, {'wt': lambda labs: Poly()})
            okk = compare(ctx, 'ALG-4', inst, loc(chi), out, ref, dd[:-1], facts=ConfidenceDomain(), vocab=VOCAB, findings=I.findings,
                          detail_ok={0: 'no contribution', 2: 'zero weight: contributes -2ln(1-conf) exactly where model < data, nothing elsewhere; inf -> 1e30 afterwards',
                                     3: 'zero weight: contributes -2ln(1-conf) exactly where model > data, nothing elsewhere; inf -> 1e30 afterwards',
                                     9: 'zero weight: no contribution'}.get(k, '(data-model)^2*w; inf -> 1e30'))
            if okk and k in (2, 3) and len(dd) == 2 and zero_w:
                composed = out.poly
                data, model = sym('data', *dd), sym('model', *dd)
                c = lt(model, data) if k == 2 else lt(data, model)
                one = alg.subst_sym(composed, {'conf': lambda labs: Poly.const(1)})
                compare(ctx, 'ALG-4', 'flag %d, confidence 1' % k, loc(chi), Arr(dd[:-1], one), sum_over(c * Poly.const(10 ** 30), W), dd[:-1],
                        vocab=VOCAB, detail_ok='a violating model gets exactly 1e30 from this point, a conforming one 0')
                zero = alg.subst_sym(composed, {'conf': lambda labs: Poly()})
                compare(ctx, 'ALG-4', 'flag %d, confidence 0' % k, loc(chi), Arr(dd[:-1], zero), Poly(), dd[:-1],
                        vocab=VOCAB, detail_ok='confidence 0 adds nothing: equivalent to flag 0')
            if okk and k not in (2, 3):
                syms, _ = alg.leaf_syms(out.poly)
                ctx.expect('conf' not in syms, 'ALG-4', 'flag %d does not read the confidence column, %d-D' % (k, len(dd)), loc(chi),
                           'the error/confidence value of the point is not used', 'contribution depends on the error column', 'reads-conf')


def check_weighted_sums(ctx):
    """FLAG-1a: every reduction over the filter axis inside the least-squares kernels has the weight as a factor."""
    repo = ctx.repo
    for name, args in (('linear_regression', [symarr('R', (M, W)), symarr('wt', (W,)), symarr('A', (W,)), symarr('S', (W,))]),
                       ('optimal_scaling', [symarr('R', (M, W)), symarr('wt', (W,)), symarr('A', (W,))]),
                       ('optimal_scaling', [symarr('R', (M, D, W)), symarr('wt', (W,)), symarr('A', (W,))])):
        fi = ctx.fn(repo.func('fitting_routines', name))
        I, out = fm.run_kernel(repo, name, args)
        vals = out if isinstance(out, tuple) else (out,)
        inst = '%s %d-D reductions carry the weight' % (name, args[0].ndim)
        if not all(isinstance(v, Arr) for v in vals):
            ctx.undecided('FLAG-1a', inst, loc(fi), 'kernel not modelled')
            continue
        bad = []
        n = 0
        for v in vals:
            for a in alg.contains_atom(v.poly, lambda a: a[0] == 'sum' and a[1] == W):
                n += 1
                mono = Poly.from_key(a[2])
                ok = all(any(at[0] == 'sym' and at[1] == 'wt' and e > 0 for at, e in m) for m in mono.t)
                if not ok:
                    bad.append(alg.show_atom(a))
        if n == 0:
            ctx.violation('FLAG-1a', inst, loc(fi), 'no reduction over the filter axis found in the result', 'no-sums')
        else:
            ctx.expect(not bad, 'FLAG-1a', inst, loc(fi), '%d reductions, each weighted: a zero-weight point (limits, unused, plot-only) contributes nothing' % n,
                       'unweighted reductions let zero-weight points into the solution: %s' % bad[:3], 'unweighted-sum')


def check_predicates(ctx):
    """FLAG-1: flag predicates outside the transform treat 1 and 4 alike."""
    repo = ctx.repo
    funcs = [repo.func('fitting_routines', 'chi_squared'), repo.func('models', 'Models.fit'), repo.func('source.source', 'Source.n_data@getter'),
             repo.func('fitting_routines', 'linear_regression'), repo.func('fitting_routines', 'optimal_scaling')]
    n = 0
    for fi in funcs:
        ctx.fn(fi)
        for c in walk_local(fi.node):
            if isinstance(c, ast.Compare) and len(c.ops) == 1:
                l, r = c.left, c.comparators[0]
                def is_valid(x):
                    ch = chain(x) or ''
                    return ch == 'valid' or ch.endswith('.valid')
                if is_valid(l) and isinstance(r, ast.Constant) and isinstance(r.value, (int, float)):
                    v, side = r.value, 'l'
                elif is_valid(r) and isinstance(l, ast.Constant) and isinstance(l.value, (int, float)):
                    v, side = l.value, 'r'
                else:
                    continue
                n += 1
                import operator
                opf = {ast.Eq: operator.eq, ast.NotEq: operator.ne, ast.Lt: operator.lt, ast.Gt: operator.gt, ast.LtE: operator.le, ast.GtE: operator.ge}.get(type(c.ops[0]))
                inst = '%s: %s' % (fi.name, up(c))
                if opf is None:
                    ctx.undecided('FLAG-1', inst, loc(fi, c.lineno), 'operator not modelled')
                    continue
                t1 = opf(1, v) if side == 'l' else opf(v, 1)
                t4 = opf(4, v) if side == 'l' else opf(v, 4)
                if fi.name == 'n_data':
                    continue
                ctx.expect(t1 == t4, 'FLAG-1', inst, loc(fi, c.lineno), 'same truth value for flag 1 and flag 4 (%s)' % t1,
                           'flag 1 gives %s but flag 4 gives %s: a log10 flux point is treated differently from a flux point' % (t1, t4), 'flag1-vs-flag4')
    ctx.analysed['call_sites'] += n


def check_ignored_points(ctx):
    """FLAG-3: ignored points reach the kernels with clean (carried-value-free) data and weights."""
    repo = ctx.repo
    fit = ctx.fn(repo.func('models', 'Models.fit'))
    for nd in (2, 3):
        for k in (0, 9):
            I, h, info = fm.interpret_models_fit(repo, nd, valid=Arr((W,), num(k), unit=num(1)), inline_source=True,
                                                 source_attrs={'_flux': symarr('Fs', (W,), unit=num(1)), '_error': symarr('Es', (W,), unit=num(1))})
            inst = 'flag %d point, %d-D fit: kernel inputs' % (k, nd)
            if not h.kcalls:
                ctx.undecided('FLAG-3', inst, loc(fit), 'no kernel call captured')
                continue
            dirty = []
            for kc in h.kcalls:
                for an in ('data', 'weights', 'weight', 'model'):
                    v = kc.args.get(an)
                    if isinstance(v, Arr):
                        syms, fns = alg.leaf_syms(v.poly)
                        if syms & {'Fs', 'Es'}:
                            dirty.append('%s(%s=%s)' % (kc.name, an, alg.show(v.poly, 90)))
            ctx.expect(not dirty, 'FLAG-3', inst, loc(fit), 'residual, weights and model passed to %d kernel calls do not depend on the point\'s flux/error'
                       % len(h.kcalls), 'an ignored point\'s carried values reach the arithmetic (0*NaN = NaN): %s' % dirty[:2], 'ignored-point-data')


def run(ctx):
    rows = check_transform(ctx)
    check_chi(ctx, rows)
    check_weighted_sums(ctx)
    check_predicates(ctx)
    check_ignored_points(ctx)
    # the flags a data line carries are the flags the fit sees: the reader of the data file hands them over as given (C20's line scenarios)
    from . import c20
    repo = ctx.repo
    c20.from_ascii_scenarios(ctx, repo, repo.cls('source.source', 'Source'), ctx.fn(repo.func('source.source', 'Source.from_ascii')))
    ctx.exhaustive = True


FR = 'sedfitter/fitting_routines.py'
MO = 'sedfitter/models.py'
SO = 'sedfitter/source/source.py'

MUST_FIRE = [
    ('round 13: 1 - confidence clamped at a positive number before the logarithm (confidence 1 no longer excludes a violating model)', [('sedfitter/fitting_routines.py', '            reset = model[:, j] < data[:, j]\n            chi2_array[:, j][reset] = -2. * np.log(1. - error[j])\n', '            reset = model[:, j] < data[:, j]\n            chi2_array[:, j][reset] = -2. * np.log(np.maximum(1. - error[j], 1e-300))\n'), ('sedfitter/fitting_routines.py', '            reset = model[:, :, j] < data[:, :, j]\n            chi2_array[:, :, j][reset] = -2. * np.log(1. - error[j])\n', '            reset = model[:, :, j] < data[:, :, j]\n            chi2_array[:, :, j][reset] = -2. * np.log(np.maximum(1. - error[j], 1e-300))\n'), ('sedfitter/fitting_routines.py', '            reset = model[:, j] > data[:, j]\n            chi2_array[:, j][reset] = -2. * np.log(1. - error[j])\n', '            reset = model[:, j] > data[:, j]\n            chi2_array[:, j][reset] = -2. * np.log(np.maximum(1. - error[j], 1e-300))\n'), ('sedfitter/fitting_routines.py', '            reset = model[:, :, j] > data[:, :, j]\n            chi2_array[:, :, j][reset] = -2. * np.log(1. - error[j])\n', '            reset = model[:, :, j] > data[:, :, j]\n            chi2_array[:, :, j][reset] = -2. * np.log(np.maximum(1. - error[j], 1e-300))\n')]),
    ('round 12 twin: np.select for the limits with default=0: the errors of the fluxes filled in before are wiped', [('sedfitter/source/source.py', "        r = (self.valid == 2) | (self.valid == 3)\n        log_flux[r] = np.log10(self.flux[r])\n        log_error[r] = self.error[r]\n", "        r = (self.valid == 2) | (self.valid == 3)\n        log_flux = np.select([r], [np.log10(self.flux)], default=log_flux)\n        log_error = np.select([r], [self.error], default=0.)\n")]),
    ('plot-only points converted with the fitted ones, their weight made zero by a truth value over the error: 0/0 is NaN for an error of zero', [(SO, "        r = self.valid == 1\n        log_flux[r] = np.log10(self.flux[r]) - 0.5 * (self.error[r] / self.flux[r]) ** 2. / np.log(10.)\n        log_error[r] = np.abs(self.error[r] / self.flux[r]) / np.log(10.)\n        weight[r] = 1. / log_error[r] ** 2.\n", "        r = (self.valid == 1) | (self.valid == 9)\n        log_flux[r] = np.log10(self.flux[r]) - 0.5 * (self.error[r] / self.flux[r]) ** 2. / np.log(10.)\n        log_error[r] = np.abs(self.error[r] / self.flux[r]) / np.log(10.)\n        weight[r] = (self.valid[r] == 1) / log_error[r] ** 2.\n")]),
    ('unused columns left out from the start, the error column not: limits read another filter\'s confidence', [(FR, "    # Calculate the 'default' chi^2 and handle special cases after\n", "    used = valid != 0\n    if not np.all(used):\n        valid, weight = valid[used], weight[used]\n        data, model = data[..., used], model[..., used]\n\n    # Calculate the 'default' chi^2 and handle special cases after\n")]),
    ('lower-limit penalty added as truth value x penalty (0 * inf is NaN at confidence 1)', [(FR, "        for j in np.where(valid == 2)[0]:\n            reset = model[:, j] < data[:, j]\n            chi2_array[:, j][reset] = -2. * np.log(1. - error[j])\n", "        for j in np.where(valid == 2)[0]:\n            reset = model[:, j] < data[:, j]\n            chi2_array[:, j] += reset * (-2. * np.log(1. - error[j]))\n")]),
    ('log-flux buffer inherits the caller dtype', [(SO, "log_flux = np.zeros(self.flux.shape, dtype=np.float64)", "log_flux = np.zeros_like(self.flux)")]),
    ('weight buffer created as integers', [(SO, "weight = np.zeros(self.valid.shape, dtype=np.float64)", "weight = np.zeros(self.valid.shape, dtype=int)")]),
    ('weight set for limits', [(SO, "        log_flux[r] = np.log10(self.flux[r])\n        log_error[r] = self.error[r]\n", "        log_flux[r] = np.log10(self.flux[r])\n        log_error[r] = self.error[r]\n        weight[r] = 1.\n")]),
    ('weight set for flag 9', [(SO, "        log_error[r] = np.abs(self.error[r] / self.flux[r]) / np.log(10.)\n\n        return", "        log_error[r] = np.abs(self.error[r] / self.flux[r]) / np.log(10.)\n        weight[r] = 1. / log_error[r] ** 2.\n\n        return")]),
    ('penalty sign', [(FR, "            reset = model[:, j] < data[:, j]\n            chi2_array[:, j][reset] = -2. * np.log(1. - error[j])", "            reset = model[:, j] < data[:, j]\n            chi2_array[:, j][reset] = 2. * np.log(1. - error[j])")]),
    ('lower limit penalised on the allowed side', [(FR, "reset = model[:, j] < data[:, j]", "reset = model[:, j] > data[:, j]")]),
    ('upper limit 3-D penalised on the allowed side', [(FR, "reset = model[:, :, j] > data[:, :, j]", "reset = model[:, :, j] < data[:, :, j]")]),
    ('1 - error -> error', [(FR, "            reset = model[:, j] > data[:, j]\n            chi2_array[:, j][reset] = -2. * np.log(1. - error[j])", "            reset = model[:, j] > data[:, j]\n            chi2_array[:, j][reset] = -2. * np.log(error[j])")]),
    ('inf -> 1e30 before the penalties', [(FR, "    # Reset lower limits where model < data\n", "    chi2_array[np.isinf(chi2_array)] = 1.e30\n    # Reset lower limits where model < data\n"),
                                           (FR, "    # Check that there are no infinities\n    chi2_array[np.isinf(chi2_array)] = 1.e30\n", "")]),
    ('n_data counts lower limits', [(SO, "return np.sum((self.valid == 1) | (self.valid == 4))", "return np.sum((self.valid == 1) | (self.valid == 4) | (self.valid == 2))")]),
    ('n_data counts flag 1 only', [(SO, "return np.sum((self.valid == 1) | (self.valid == 4))", "return np.sum(self.valid == 1)")]),
    ('flag-4 weight 1/sigma', [(SO, "        log_error[r] = self.error[r]\n        weight[r] = 1. / log_error[r] ** 2.", "        log_error[r] = self.error[r]\n        weight[r] = 1. / log_error[r]")]),
    ('flag 0 zeroing extended to flag 1', [(FR, "chi2_array[:, valid == 0] = 0.", "chi2_array[:, valid <= 1] = 0.")]),
    ('flag 0 zeroing removed in 3-D (weight still zero: benign) but lower-limit loop keyed on flag 1', [(FR, "        for j in np.where(valid == 2)[0]:\n            reset = model[:, :, j]", "        for j in np.where(valid == 1)[0]:\n            reset = model[:, :, j]")]),
    ('bias term sign', [(SO, "log_flux[r] = np.log10(self.flux[r]) - 0.5 * (self.error[r] / self.flux[r]) ** 2. / np.log(10.)\n        log_error[r] = np.abs(self.error[r] / self.flux[r]) / np.log(10.)\n        weight", "log_flux[r] = np.log10(self.flux[r]) + 0.5 * (self.error[r] / self.flux[r]) ** 2. / np.log(10.)\n        log_error[r] = np.abs(self.error[r] / self.flux[r]) / np.log(10.)\n        weight")]),
    ('limit flux not logged', [(SO, "        log_flux[r] = np.log10(self.flux[r])\n        log_error[r] = self.error[r]\n", "        log_flux[r] = self.flux[r]\n        log_error[r] = self.error[r]\n")]),
    ('flag-9 zeroing removed (D17 reverted)', [(MO, "        log_flux[(source.valid == 0) | (source.valid == 9)] = 0.\n", "")]),
    ('unweighted numerator in optimal_scaling', [(FR, "return np.sum(data * pattern1 * weights, axis=data.ndim - 1)", "return np.sum(data * pattern1, axis=data.ndim - 1)")]),
    ('upper limits treated like lower in chi2 mask', [(FR, "        for j in np.where(valid == 3)[0]:\n            reset = model[:, j] > data[:, j]", "        for j in np.where(valid >= 3)[0]:\n            reset = model[:, j] > data[:, j]")]),
]
MUST_SILENT = [
    ('round 13: 1 - confidence clamped at 0 before the logarithm (the same value for every confidence in [0, 1])', [('sedfitter/fitting_routines.py', '            reset = model[:, j] < data[:, j]\n            chi2_array[:, j][reset] = -2. * np.log(1. - error[j])\n', '            reset = model[:, j] < data[:, j]\n            chi2_array[:, j][reset] = -2. * np.log(np.maximum(1. - error[j], 0.))\n'), ('sedfitter/fitting_routines.py', '            reset = model[:, :, j] < data[:, :, j]\n            chi2_array[:, :, j][reset] = -2. * np.log(1. - error[j])\n', '            reset = model[:, :, j] < data[:, :, j]\n            chi2_array[:, :, j][reset] = -2. * np.log(np.maximum(1. - error[j], 0.))\n'), ('sedfitter/fitting_routines.py', '            reset = model[:, j] > data[:, j]\n            chi2_array[:, j][reset] = -2. * np.log(1. - error[j])\n', '            reset = model[:, j] > data[:, j]\n            chi2_array[:, j][reset] = -2. * np.log(np.maximum(1. - error[j], 0.))\n'), ('sedfitter/fitting_routines.py', '            reset = model[:, :, j] > data[:, :, j]\n            chi2_array[:, :, j][reset] = -2. * np.log(1. - error[j])\n', '            reset = model[:, :, j] > data[:, :, j]\n            chi2_array[:, :, j][reset] = -2. * np.log(np.maximum(1. - error[j], 0.))\n')]),
    ('round 12: the limits filled in with np.select, everything else kept through default=', [('sedfitter/source/source.py', "        r = (self.valid == 2) | (self.valid == 3)\n        log_flux[r] = np.log10(self.flux[r])\n        log_error[r] = self.error[r]\n", "        r = (self.valid == 2) | (self.valid == 3)\n        log_flux = np.select([r], [np.log10(self.flux)], default=log_flux)\n        log_error = np.select([r], [self.error], default=log_error)\n")]),
    ('unused columns left out from the start, in every per-filter array', [(FR, "    # Calculate the 'default' chi^2 and handle special cases after\n", "    used = valid != 0\n    if not np.all(used):\n        valid, weight = valid[used], weight[used]\n        data, model = data[..., used], model[..., used]\n        error = error[used]\n\n    # Calculate the 'default' chi^2 and handle special cases after\n")]),
    ('lower-limit penalty selected with np.where', [(FR, "        for j in np.where(valid == 2)[0]:\n            reset = model[:, j] < data[:, j]\n            chi2_array[:, j][reset] = -2. * np.log(1. - error[j])\n", "        for j in np.where(valid == 2)[0]:\n            reset = model[:, j] < data[:, j]\n            chi2_array[:, j] = np.where(reset, -2. * np.log(1. - error[j]), chi2_array[:, j])\n")]),
    ('buffers created with zeros_like and an explicit float dtype', [(SO, "log_flux = np.zeros(self.flux.shape, dtype=np.float64)", "log_flux = np.zeros_like(self.flux, dtype=float)")]),
    ('buffers created with the default dtype', [(SO, "log_error = np.zeros(self.error.shape, dtype=np.float64)", "log_error = np.zeros(self.error.shape)")]),
    ('redundant flag-0 zeroing removed', [(FR, "        chi2_array[:, valid == 0] = 0.\n", "        pass\n")]),
    ('mask spelled with np.isin-free or', [(SO, "r = (self.valid == 2) | (self.valid == 3)", "r = (self.valid == 3) | (self.valid == 2)")]),
    ('log via ln/ln10', [(SO, "        log_flux[r] = np.log10(self.flux[r])\n        log_error[r] = self.error[r]\n", "        log_flux[r] = np.log(self.flux[r]) / np.log(10.)\n        log_error[r] = self.error[r]\n")]),
    ('penalty written as ln((1-c)^-2)', [(FR, "            reset = model[:, j] < data[:, j]\n            chi2_array[:, j][reset] = -2. * np.log(1. - error[j])", "            reset = data[:, j] > model[:, j]\n            chi2_array[:, j][reset] = -np.log(1. - error[j]) * 2.")]),
    ('weight as power -2', [(SO, "        log_error[r] = self.error[r]\n        weight[r] = 1. / log_error[r] ** 2.", "        log_error[r] = self.error[r]\n        weight[r] = log_error[r] ** -2.")]),
]


def thorough(ctx):
    from .. import selftest
    selftest.run(ctx, MUST_FIRE, MUST_SILENT)
