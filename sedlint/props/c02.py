"""C02 Distance-dependent fits pick the grid optimum of correctly scaled model fluxes."""
from .. import alg, fitmodel as fm, readers
from ..alg import Poly, P, B, C, sym, sum_over, lt, mk_fn
from ..interp import Interp, Hooks, Arr, Obj, Unk, symarr, scalar, num
from ..fitmodel import W, M, D, loc, compare
from ..readers import A, N
from ..loader import AnalysisError

EXPLANATION = (
    "(ALG-10) In both package readers (_read_version_1, _read_version_2; named filters and, for cubes, wavelength 'filters') the sinks are, as term "
    "identities: n = int(ceil(1 + (log10 d1 - log10 d0)/logd_step)); distances = logspace(log10 d0, log10 d1, n) kpc with numpy's default endpoint/base; "
    "one distance when d0 == d1; the argument of ConvolvedFluxes.interpolate == aperture_arcsec * distance[pc] * au (1 arcsec at 1 pc = 1 au); "
    "model flux == interpolated flux * (kpc/distance)^2 on the distance axis; logd == log10(distance/kpc); column ifilt of the flux array receives the "
    "flux of the same ifilt; names stripped from the convolved file. Both sibling readers are compared with the same reference, hence with each other "
    "(AGREE-6). (ALG-7) In Models.fit (3-D branch): av = clamp(optimal_scaling(R; A)) per (model, distance), chi2 = CHI(valid, R, err, wt, av*A), "
    "best = argmin over the distance axis of that chi2, and av, chi2, scale = logd[best] and the predicted fluxes are all gathered with that index. "
    "(ALG-3) optimal_scaling reduces over the filter axis for 3-D data. 'Fewest points with spacing <= step' is the lemma n-1 >= L/step <=> n >= 1 + L/step.")
NOT_DECIDED = ["np.logspace end-point exactness and interp1d arithmetic (library)", "ConvolvedFluxes.interpolate internals are decided under C13",
               "the remove_resolved branch (outside the property)"]
ASSUMPTIONS = ["lo <= hi", "remove_resolved off", "one generic filter / iteration stands for every filter (loop body identical per iteration)"]
TRUSTED = ["python ast", "sedlint E4/E5", "numpy logspace(endpoint=True, base=10) defaults"]
MIN = {'ALG-10': 18, 'ALG-7': 5, 'ALG-3': 1}
TECHNIQUE = 'static analysis: AST value numbering of both package readers and the 3-D fit branch, compared with the statement\'s formulas; sibling agreement'

VOCAB = {'dr', 'step', 'theta', 'cflux', 'cerr', 'cap', 'cwav', 'cnames', 'cubewav', 'cubeval', 'cubeunc', 'fwav', 'R', 'wt', 'A', 'S', 'F', 'L', 'err', 'valid', 'lo', 'hi',
         'names', 'logd', 'idx:w'}
FNS = {'APINTERP', 'logspace', 'strip', 'ceil', 'int'}


def check_readers(ctx):
    repo = ctx.repo
    configs = [(1, True, False), (2, True, False), (2, False, False), (2, True, True)]
    for version, named, memmap in configs:
        for same in (False, True):
            if same and (not named or memmap):
                continue
            fi, I, h, m = readers.run_reader(repo, version, same_distance=same, named=named, use_memmap=memmap)
            ctx.fn(fi)
            tag = 'v%d %s%s%s' % (version, 'named filter' if named else 'wavelength filter', ', memmap' if memmap else '', ', d0 == d1' if same else '')
            where = loc(fi)
            if I.findings:
                compare(ctx, 'ALG-10', tag, where, Unk('x'), Poly(), findings=I.findings)
                continue
            if not isinstance(m, Obj):
                ctx.undecided('ALG-10', tag, where, 'reader result not modelled: %r' % (m,))
                continue
            ref = readers.reference(same, named)
            sinks = [('distances', m.attrs.get('_distances'), ref['distances'], None),
                     ('logd', m.attrs.get('logd'), ref['logd'], None),
                     ('fluxes', m.attrs.get('_fluxes'), ref['fluxes'], None),
                     ('wavelengths', m.attrs.get('_wavelengths'), ref['wavelengths'], (W,)),
                     ('names', m.attrs.get('names'), ref['names'], (M,))]
            if same and memmap is False and named:
                sinks = sinks[:3]
            for nm, got, want, dims in sinks:
                if nm == 'fluxes' and isinstance(got, Arr):
                    if len(got.dims) != 3 or got.dims[0] != M or got.dims[2] != W:
                        ctx.violation('ALG-10', '%s: %s' % (tag, nm), where, 'flux array axes are %s, expected (models, distances, filters)' % (got.dims,), 'axes')
                        continue
                compare(ctx, 'ALG-10', '%s: %s' % (tag, nm), where, got, want, dims, vocab=VOCAB, fns=FNS,
                        detail_ok={'distances': 'distances == logspace(log10 d0, log10 d1, int(ceil(1 + (log10 d1 - log10 d0)/step))) kpc' if not same else 'one distance d0',
                                   'logd': 'logd == log10(distances / kpc)',
                                   'fluxes': 'flux[m,d,w] == interpolate(theta_w * d[pc] * au)[m,d] * (kpc/d)^2 for the same filter w',
                                   'wavelengths': 'wavelengths[w] filled in the same loop index as flux[..., w]',
                                   'names': 'names == strip(model names of the convolved file)'}[nm])
            ext_ = m.attrs.get('extended')
            if isinstance(ext_, Arr):
                # read with remove_resolved off: no (model, distance, filter) cell is marked as resolved - the fit sets chi^2 to infinity wherever one is
                compare(ctx, 'ALG-10', '%s: no cell marked as resolved' % tag, where, ext_, Poly(), None, vocab=VOCAB, fns=FNS, detail_ok='the mask of resolved cells is all False')
            if h.interp_args:
                compare(ctx, 'ALG-10', '%s: interpolate argument' % tag, where, h.interp_args[-1], ref['apertures_au'], None, vocab=VOCAB, fns=FNS,
                        detail_ok='aperture radius == aperture_arcsec * distance[pc] * au')
            elif I.lost or getattr(I, '_unknown_conds', 0) or I.flow_taint or any(isinstance(got_, Unk) for _, got_, _, _ in sinks):
                # (that nothing was interpolated proves something only when all the reader does was followed)
                ctx.undecided('ALG-10', '%s: interpolate argument' % tag, where, 'no call of interpolate was met, but the reader was not followed to its end')
            else:
                ctx.violation('ALG-10', '%s: interpolate argument' % tag, where, 'convolved fluxes are never interpolated to the aperture radius', 'no-interpolate')


def check_readers_distance_independent(ctx):
    """a package whose models do not depend on the aperture: no distance grid, and the flux of model m through filter w is the convolved flux as stored
    (its single aperture) - what the 2-parameter fit of C01 is given"""
    repo = ctx.repo
    for version, named in ((1, True), (2, True), (2, False)):
        fi, I, h, m = readers.run_reader(repo, version, named=named, aperture_dependent=False)
        ctx.fn(fi)
        tag = 'v%d %s, models independent of the aperture' % (version, 'named filter' if named else 'wavelength filter')
        where = loc(fi)
        if I.findings:
            compare(ctx, 'ALG-10', tag, where, Unk('x'), Poly(), findings=I.findings)
            continue
        if not isinstance(m, Obj):
            ctx.undecided('ALG-10', tag, where, 'reader result not modelled: %r' % (m,))
            continue
        if named:
            tab, lam = sym('cflux', M, A, W), sym('cwav', W)
        else:
            idx = mk_fn('argmin', B(N, mk_fn('abs', P(sym('cubewav', N) - sym('fwav', W)))))
            tab, lam = mk_fn('at', B(N, sym('cubeval', M, A, N)), P(idx)), sym('fwav', W)
        flux = mk_fn('at', B(A, tab), P(Poly()))
        for nm, got, want, dims in (('fluxes', m.attrs.get('_fluxes'), flux, (M, W)), ('wavelengths', m.attrs.get('_wavelengths'), lam, (W,)),
                                    ('names', m.attrs.get('names'), mk_fn('strip', P(sym('cnames', M))), (M,))):
            compare(ctx, 'ALG-10', '%s: %s' % (tag, nm), where, got, want, dims, vocab=VOCAB, fns=FNS,
                    detail_ok={'fluxes': 'flux[m,w] == the convolved flux of model m through filter w, as stored', 'wavelengths': 'wavelengths[w] filled in the same loop index as flux[:, w]',
                               'names': 'names == strip(model names of the convolved file)'}[nm])
        dist = m.attrs.get('_distances')
        ctx.expect(dist is None, 'ALG-10', '%s: no distance grid' % tag, where, 'distances stay unset: the fit is the 2-parameter one', 'distances are %r' % (dist,), 'distances-set')


class _TwoFilters(readers.ReaderHooks):
    """the convolved file of each of two named filters holds its own symbols: what ends up in column k must come from file k"""
    def opaque(self, interp, fi, args, kwargs, node):
        if fi.qual.endswith(':ConvolvedFluxes.read'):
            fn = args[-1] if args else kwargs.get('filename')
            k = 0 if 'FILT0' in str(fn) else 1 if 'FILT1' in str(fn) else None
            if k is None:
                return Unk('ConvolvedFluxes.read(%r)' % (fn,))
            from ..interp import unit_atom
            return Obj(interp.repo.cls('convolved_fluxes.convolved_fluxes', 'ConvolvedFluxes'), {
                '_model_names': symarr('cnames', (M,)), '_apertures': symarr('cap', (A,), unit=unit_atom('au')),
                '_flux': symarr('cflux%d' % k, (M, A), unit=unit_atom('mJy')), '_error': symarr('cerr%d' % k, (M, A), unit=unit_atom('mJy')),
                '_wavelength': Arr((), sym('cwav%d' % k), unit=unit_atom('micron'))})
        return readers.ReaderHooks.opaque(self, interp, fi, args, kwargs, node)


def check_readers_two_filters(ctx):
    """the readers run over two concrete filters (the loop over the filters really iterates, so what one iteration leaves behind for the next is seen): column k
    of the model fluxes and element k of the wavelengths come from the convolved file of filter k, for both k"""
    from ..interp import ClassRef
    repo = ctx.repo
    for version in (1, 2):
        fi = ctx.fn(repo.func('models', 'Models._read_version_%d' % version))
        I = Interp(repo, _TwoFilters(False, False))
        filters = [{'aperture_arcsec': Arr((), sym('theta%d' % k), unit=num(1)), 'name': 'FILT%d' % k} for k in range(2)]
        kw = {'distance_range': None, 'remove_resolved': False}
        if version == 2:
            kw['use_memmap'] = False
        tag = 'v%d, two named filters, models independent of the aperture' % version
        try:
            m = I.call(fi, ['DIR', filters], kw, selfv=ClassRef(repo.cls('models', 'Models')))
        except Exception as ex:
            m = Unk('%s: %s' % (type(ex).__name__, str(ex)[:80]))
        fl, wv = (m.attrs.get('_fluxes'), m.attrs.get('_wavelengths')) if isinstance(m, Obj) else (m, m)
        for nm, got, base, ax in (('fluxes', fl, lambda k: mk_fn('at', B(A, sym('cflux%d' % k, M, A)), P(Poly())), 1), ('wavelengths', wv, lambda k: sym('cwav%d' % k), 0)):
            if not isinstance(got, Arr) or got.mask is not None or got.ndim != ax + 1 or I.axis_len.get(got.dims[ax]) != 2 or I.findings:
                compare(ctx, 'ALG-10', '%s: %s' % (tag, nm), loc(fi), got if isinstance(got, Unk) else Unk('%s not over the two filters: %r' % (nm, got)), Poly(), findings=I.findings)
                continue
            for k in range(2):
                col = Arr(got.dims[:ax], alg.index_at(got.poly, got.dims[ax], Poly.const(k)), None, got.unit)
                compare(ctx, 'ALG-10', '%s: %s of filter %d' % (tag, nm, k), loc(fi), col, base(k), (M,) if ax else (), vocab={'cflux0', 'cflux1', 'cerr0', 'cerr1', 'cwav0', 'cwav1', 'cnames', 'cap'}, fns=FNS,
                        detail_ok='from the convolved file of filter %d' % k)


def check_fit_3d(ctx):
    repo = ctx.repo
    fit = ctx.fn(repo.func('models', 'Models.fit'))
    osf = ctx.fn(repo.func('fitting_routines', 'optimal_scaling'))
    facts = fm.clamp_facts()
    wt, A = sym('wt', W), sym('A', W)
    I, out = fm.run_kernel(repo, 'optimal_scaling', [symarr('R', (M, D, W)), symarr('wt', (W,)), symarr('A', (W,))])
    compare(ctx, 'ALG-3', 'optimal_scaling 3-D', loc(osf), out, sum_over(sym('R', M, D, W) * A * wt, W) / sum_over(A * A * wt, W), (M, D), vocab=VOCAB, findings=I.findings)
    I, h, info = fm.interpret_models_fit(repo, 3)
    where = loc(fit)
    if I.findings:
        compare(ctx, 'ALG-7', 'Models.fit 3-D', where, Unk('x'), Poly(), findings=I.findings)
        return
    if h.presort is None:
        ctx.undecided('ALG-7', 'Models.fit 3-D', where, 'sort() not reached')
        return
    oc = [c for c in h.kcalls if c.name == 'optimal_scaling']
    cc = [c for c in h.kcalls if c.name == 'chi_squared']
    if len(oc) != 1 or len(cc) != 1:
        ctx.undecided('ALG-7', 'kernel calls 3-D', where, 'expected one optimal_scaling and one chi_squared call, found %d/%d' % (len(oc), len(cc)))
        return
    if tuple(oc[0].args['data'].dims) != (M, D, W) or tuple(cc[0].args['data'].dims) != (M, D, W):
        # the rule reads the values the kernels are called with; a fit organised otherwise (one distance at a time, ...) is not read by it
        ctx.undecided('ALG-7', 'kernel calls 3-D', where, 'the kernels are called on arrays over %s / %s, not on the whole (model, distance, filter) array this rule reads'
                      % (oc[0].args['data'].dims, cc[0].args['data'].dims))
        return
    R = oc[0].args['data'].poly
    F, L = sym('F', M, D, W), sym('L', W)
    for k in (1, 2, 3, 4):
        compare(ctx, 'ALG-7', 'residual on flag %d' % k, where, Arr(oc[0].args['data'].dims, fm.specialise_flag(R, k)), L - F, (M, D, W), vocab=VOCAB,
                detail_ok='residual == log_flux - log model flux at each distance')
    compare(ctx, 'ALG-7', 'optimal_scaling pattern', where, oc[0].args['pattern1'], A, (W,), vocab=VOCAB, detail_ok='A_V is fitted against the extinction pattern')
    a = fm.clamp(fm.kernel_atom_OS(R, wt, A))
    model = a * A
    ch = fm.kernel_atom_CHI(sym('valid', W), R, sym('err', W), wt, model)
    best = mk_fn('argmin', B(D, ch))
    ps = h.presort
    for nm, src, dims, txt in (('av', a, (M,), 'av == clamp(OS(R; wt; A), lo, hi)[best]'), ('chi2', ch, (M,), 'chi2 == min over the distance grid'),
                               ('sc', sym('logd', D), (M,), 'scale == logd[best]: log10(d/kpc) of a grid distance'),
                               ('model_fluxes', model + F, (M, W), 'predicted == (log model flux + av*k)[best]')):
        compare(ctx, 'ALG-7', 'info.%s' % nm, where, ps.get(nm), mk_fn('at', B(D, src), P(best)), dims, facts, VOCAB, detail_ok=txt)


def run(ctx):
    check_readers(ctx)
    check_fit_3d(ctx)
    from . import c01
    c01.check_filter_dicts(ctx)      # the angle the readers multiply by the distance
    from . import c13
    c13.check_cf_interpolate(ctx)    # 'linearly interpolated to the aperture radius, apertures beyond the largest use the largest'
    from . import c03
    c03.check_chi(ctx, c03.check_transform(ctx))      # 'the reported chi^2 is the minimum': chi_squared itself, per flag, for the 2-D and the 3-D array


MO = 'sedfitter/models.py'
FR = 'sedfitter/fitting_routines.py'
V1 = "n_distances = int(np.ceil(1 + (np.log10(distance_range_kpc[1]) - np.log10(distance_range_kpc[0])) / modpar['logd_step']))"


def _both(old, new):
    """edit applied to both sibling readers (the text occurs twice)"""
    return None


MUST_FIRE_RAW = [
    ('v1 ceil -> floor', 1, V1, V1.replace('np.ceil', 'np.floor')),
    ('v2 1 + dropped', 2, V1, V1.replace('np.ceil(1 + (', 'np.ceil(((').replace("modpar['logd_step']))", "modpar['logd_step'])))") if False else V1.replace('1 + (np.log10', '(np.log10')),
    ('v1 endpoint=False', 1, "np.logspace(np.log10(distance_range_kpc[0]), np.log10(distance_range_kpc[1]), n_distances) * u.kpc", "np.logspace(np.log10(distance_range_kpc[0]), np.log10(distance_range_kpc[1]), n_distances, endpoint=False) * u.kpc"),
    ('v2 aperture from kpc', 2, "apertures_au = filt['aperture_arcsec'] * m.distances.to(u.pc).value * u.au", "apertures_au = filt['aperture_arcsec'] * m.distances.to(u.kpc).value * u.au"),
    ('v1 inverse-linear scaling', 1, "conv.flux = conv.flux * (u.kpc / m.distances) ** 2", "conv.flux = conv.flux * (u.kpc / m.distances)"),
    ('v2 d/kpc', 2, "conv.flux = conv.flux * (u.kpc / m.distances) ** 2", "conv.flux = conv.flux * (m.distances / u.kpc) ** 2"),
    ('v1 logd in pc', 1, "m.logd = np.log10(m.distances.to(u.kpc).value)", "m.logd = np.log10(m.distances.to(u.pc).value)"),
    ('v2 step multiplies', 2, V1, V1.replace("/ modpar['logd_step']", "* modpar['logd_step']")),
    ('v1 flux not interpolated', 1, "                conv = conv.interpolate(apertures_au)\n", ""),
    ('v2 natural log spacing', 2, V1, V1.replace("np.log10(distance_range_kpc[1])", "np.log(distance_range_kpc[1])")),
    ('v1 distances start at d1', 1, "m.distances = np.logspace(np.log10(distance_range_kpc[0]), np.log10(distance_range_kpc[1]), n_distances) * u.kpc", "m.distances = np.logspace(np.log10(distance_range_kpc[1]), np.log10(distance_range_kpc[1]), n_distances) * u.kpc"),
    ('v2 single distance uses d1... (same value, but n=2)', 2, "                    n_distances = 1\n                    m.distances = np.array([distance_range_kpc[0]]) * u.kpc", "                    n_distances = 1\n                    m.distances = np.array([2 * distance_range_kpc[0]]) * u.kpc"),
    ('v1 flux column 0 always', 1, "                model_fluxes[:, :, ifilt] = conv.flux\n", "                model_fluxes[:, :, 0] = conv.flux\n"),
]


def _nth_replace(text, old, new, nth):
    parts = text.split(old)
    if len(parts) != 3:
        return None
    return old.join(parts[:nth]) + new + old.join(parts[nth:])


MUST_FIRE = [
    ('reported scale built from the nominal step instead of the grid', [(MO, "                m.logd = np.log10(m.distances.to(u.kpc).value)\n                if remove_resolved:\n                    extended[:, :, ifilt] = apertures_au[np.newaxis,:] < conv.find_radius_sigma(0.5)[:, np.newaxis]", "                m.logd = np.log10(distance_range_kpc[0]) + modpar['logd_step'] * np.arange(m.n_distances)\n                if remove_resolved:\n                    extended[:, :, ifilt] = apertures_au[np.newaxis,:] < conv.find_radius_sigma(0.5)[:, np.newaxis]")]),
    ('3-D: argmin over models', [(MO, "best = np.argmin(ch_best, axis=1)", "best = np.argmin(ch_best, axis=0)")]),
    ('3-D: upper clamp dropped', [(MO, "            av_best[av_best > av_max] = av_max\n", "")]),
    ('3-D: lower clamp to av_max', [(MO, "av_best[av_best < av_min] = av_min", "av_best[av_best < av_min] = av_max")]),
    ('3-D: scale fitted pattern', [(MO, "av_best = f.optimal_scaling(residual, weight, av_law)", "av_best = f.optimal_scaling(residual, weight, sc_law)")]),
    ('3-D: chi2 before clamping', [(MO, "            # Reset to valid range\n            av_best[av_best < av_min] = av_min\n            av_best[av_best > av_max] = av_max\n\n            # Compute best-fit model in each case\n            model = av_best[:, :, np.newaxis] * av_law[np.newaxis, np.newaxis,:]\n",
                                    "            # Compute best-fit model in each case\n            model = av_best[:, :, np.newaxis] * av_law[np.newaxis, np.newaxis,:]\n            av_best[av_best < av_min] = av_min\n            av_best[av_best > av_max] = av_max\n")]),
    ('3-D: scale = best index', [(MO, "sc_best = self.logd[best]", "sc_best = best * 1.")]),
    ('3-D: residual sign', [(MO, "residual = log_flux - model_fluxes\n            av_best = f.optimal_scaling", "residual = model_fluxes - log_flux\n            av_best = f.optimal_scaling")]),
    ('OS: sums over distance axis', [(FR, "axis=data.ndim - 1) /", "axis=1) /")]),
]
MUST_SILENT = [
    ('reported scale as an even grid in the exponent between the ends of the range', [(MO, "                m.logd = np.log10(m.distances.to(u.kpc).value)\n                if remove_resolved:\n                    extended[:, :, ifilt] = apertures_au[np.newaxis,:] < conv.find_radius_sigma(0.5)[:, np.newaxis]", "                m.logd = np.linspace(np.log10(distance_range_kpc[0]), np.log10(distance_range_kpc[1]), m.n_distances)\n                if remove_resolved:\n                    extended[:, :, ifilt] = apertures_au[np.newaxis,:] < conv.find_radius_sigma(0.5)[:, np.newaxis]")]),
    ('3-D: np.clip', [(MO, "            av_best[av_best < av_min] = av_min\n            av_best[av_best > av_max] = av_max\n", "            av_best = np.clip(av_best, av_min, av_max)\n")]),
    ('3-D: clamp order', [(MO, "            av_best[av_best < av_min] = av_min\n            av_best[av_best > av_max] = av_max\n", "            av_best[av_best > av_max] = av_max\n            av_best[av_best < av_min] = av_min\n")]),
    ('3-D: gather via temporaries', [(MO, "ch_best = ch_best[np.arange(self.n_models), best]", "rows = np.arange(self.n_models)\n            ch_best = ch_best[rows, best]")]),
]


def thorough(ctx):
    from .. import selftest
    fire = list(MUST_FIRE)
    text = ctx.repo.sources.get(MO, '')
    for name, which, old, new in MUST_FIRE_RAW:
        t2 = _nth_replace(text, old, new, which)
        if t2 is None:
            fire.append((name, [(MO, '\0anchor-missing\0', '')]))
        else:
            fire.append((name, [(MO, text, t2)]))
    silent = list(MUST_SILENT)
    # sibling edit applied to both readers consistently stays silent only if behaviour-preserving: commuted product
    old = "apertures_au = filt['aperture_arcsec'] * m.distances.to(u.pc).value * u.au"
    new = "apertures_au = u.au * m.distances.to(u.pc).value * filt['aperture_arcsec']"
    if text.count(old) == 2:
        silent.append(('readers: commuted aperture product (both siblings)', [(MO, text, text.replace(old, new))]))
    old = "m.logd = np.log10(m.distances.to(u.kpc).value)"
    new = "m.logd = np.log10((m.distances / u.kpc).value) if False else np.log10(m.distances.to(u.kpc).value)"
    selftest.run(ctx, fire, silent)
